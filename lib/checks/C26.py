"""C26 -- the TLO output describes the schema faithfully."""
import random
import re

from vlib import *
import schema_ir
import tlo_lib

PROPS = "Props/C26"
FAMILY = "tlo"
CORR = "corr:C26:tlo"


def tls_ir_text(ins):
    """IR file text of the tls.tl dump; `bool` has no TL1 constructors there (tags 0/0) and is unreachable: notl1"""
    import copy
    ins = copy.deepcopy(ins)
    for x in ins:
        if x["kind"] == "prim" and x["name"] == "bool" and x.get("falseTag", 0) == x.get("trueTag", 0):
            x["name"] = "bool-without-tl1-constructors"
    return ins


def clean(msg):
    return re.sub(r"\x1b\[[0-9;]*m", "", msg)


def run(ctx):
    quick = ctx.quick()
    pid = ctx.pid
    import time as _t
    t0 = _t.time()
    phases = {}

    def mark(name):
        phases[name] = round(_t.time() - t0, 1)
    from concurrent.futures import ThreadPoolExecutor
    bg = ThreadPoolExecutor(max_workers=2)          # the Go builds do not need the Coq lock: run them meanwhile
    f_tools = bg.submit(schema_ir.build_tools, ctx.scratch)
    f_ov = bg.submit(tlo_lib.build_overlay, ctx.scratch)
    with Lock():
        cres = run_genconsts()
        thm = check_theorems(PROPS)
        ref = ref1 = None
        ref_err = None
        try:
            ref = build_refmodel(FAMILY)
            ref1 = build_refmodel("tl1")
        except RuntimeError as e:
            ref_err = str(e)
    mark("coq+refmodels")
    bins, berr = f_tools.result()
    ovb, overr = f_ov.result()
    bg.shutdown()
    mark("overlay-build")
    infra = []          # (sig, what, data)  -> no-failing-input-found
    mism, bad, samples = [], [], []
    stats = {"schemas": 0, "tlo_files": 0, "combinators": 0, "types": 0, "rejected_by_tl2gen": 0, "model_none": 0, "mutants": 0,
             "mutants_ok": 0, "tlo_bytes": 0}
    kinds = {}
    rng = ctx.rng

    # ---- the TLO container IR: fresh kernel dump of tls.tl == the Coq constant tls_ir; wf evaluated at run time
    tls_path = REPO / "internal/tlast/tls.tl"
    tls_ir = ctx.scratch / "tls.ir"
    tls_tid = None
    if not berr and ref and ref1:
        ins, err = schema_ir.dump_ir(bins["verifdump"], [tls_path], ctx.scratch / "tls.json")
        if ins is None:
            infra.append((f"{pid}:tls-dump", "kernel rejects internal/tlast/tls.tl: " + trunc(clean(err), 400), {"error": err}))
        else:
            schema_ir.write_ir_file(tls_ir_text(ins), tls_ir)
            cur = ";".join(tls_ir.read_text().strip().split("\n"))
            rc, out, err = run_lines(ref, [], ["tlsir"])
            if out != ["ok " + cur]:
                infra.append((f"{pid}:tls-ir-changed", "the kernel IR of internal/tlast/tls.tl differs from the constant TloModel.tls_ir the theorem "
                              "C26_tlo_bytes_roundtrip is stated for (regenerate the constant)", {"dump": cur, "constant": out}))
            rc, out, err = run_lines(ref1, [str(tls_ir)], ["wf"])
            if out != ["ok true"]:
                infra.append((f"{pid}:tls-wf", f"wf_schema is not true for the tls.tl dump: {out}", {"out": out}))
            for x in ins:
                if x["kind"] == "union" and x.get("tlName") == "tls.Schema":
                    tls_tid = x["id"]
            if tls_tid is None:
                infra.append((f"{pid}:tls-type", "no tls.Schema union in the tls.tl dump", {}))

    # ---- schemas
    TLS = REPO / "internal/tlcodegen/test/tls"
    schemas = []   # (name, kind, files, must_accept)
    schemas.append(("cases", "repo", [TLS / "cases.tl"], True))
    schemas.append(("goldmaster", "repo", [TLS / "goldmaster.tl", TLS / "goldmaster2.tl", TLS / "goldmaster3.tl"], True))
    schemas.append(("schema", "repo", [TLS / "schema.tl"], True))
    schemas.append(("cpp", "repo", [TLS / "cpp.tl"], False))
    d = ctx.scratch / "edge_ns"
    d.mkdir(exist_ok=True)
    (d / "s.tl").write_text(tlo_lib.edge_ns_primitives_schema())
    schemas.append(("edge_ns_primitives", "namespaced-primitive-names", [d / "s.tl"], True))
    moved_total = 0
    import randschema
    n_rs, n_rt = (6, 14) if quick else (40, 120)
    for i in range(n_rs):
        d = ctx.scratch / f"rs{i}"
        d.mkdir(exist_ok=True)
        txt = randschema.Gen(rng, ntypes=rng.choice([4, 6, 8, 12])).text()
        if i % 2 == 0:   # namespaced constructors named like builtins, right after the header
            txt = txt.replace(randschema.HEADER, randschema.HEADER + tlo_lib.NS_PRIMITIVE_LINES, 1)
        # constructors of a union need not be adjacent: interleave with other types / continue in a later ---types--- section
        txt, mv = tlo_lib.interleave_unions(txt, rng)
        moved_total += mv
        (d / "s.tl").write_text(txt)
        schemas.append((f"rs{i}", "random-codec-schema", [d / "s.tl"], False))
    for i in range(n_rt):
        d = ctx.scratch / f"rt{i}"
        d.mkdir(exist_ok=True)
        nc = i % 7 == 3
        txt, mv = tlo_lib.interleave_unions(tlo_lib.rand_tlo_schema(rng, rng.choice([2, 4, 8, 16, 30]), noncanonical_builtin=nc), rng)
        moved_total += mv
        (d / "s.tl").write_text(txt)
        schemas.append((f"rt{i}", "random-tlo-schema-noncanonical-builtin" if nc else "random-tlo-schema", [d / "s.tl"], False))
    stats["union_constructors_made_non_adjacent"] = moved_total
    TS = [1, 77, 0x7fffffff, 0x80000000, 0xffffffff, 1700000000]

    runs = []   # dict per (schema, ts)
    if not berr and ovb:
        from concurrent.futures import ThreadPoolExecutor

        def gen(job):
            name, kind, files, must, ts = job
            out = ctx.scratch / f"{name}.{ts}.tlo"
            rc, so, se = sh([str(bins["tl2gen"]), "--language=tlo", f"--outfile={out}", f"--schemaTimestamp={ts}"] + [str(f) for f in files], timeout=300)
            return {"name": name, "kind": kind, "files": files, "must": must, "ts": ts, "out": out, "ok": rc == 0 and out.exists(), "log": clean(so + se)[-600:]}

        jobs = []
        for name, kind, files, must in schemas:
            tss = [rng.choice(TS), rng.getrandbits(32) or 1]
            if kind == "repo" and name == "cases":
                tss.append(0)
            for ts in tss if (name == "cases" or not quick) else tss[:1]:
                jobs.append((name, kind, files, must, ts))
        with ThreadPoolExecutor(max_workers=8) as ex:
            runs = list(ex.map(gen, jobs))

    mark("tl2gen-runs")
    # ---- one pass of each driver over all files
    go_lines, idx = [], {}
    for r in runs:
        if not r["ok"]:
            stats["rejected_by_tl2gen"] += 1
            if r["must"]:
                infra.append((f"{pid}:tl2gen:{r['name']}", f"tl2gen --language=tlo fails on repository schema {r['name']}: {trunc(r['log'], 400)}", {"log": r["log"]}))
            continue
        fl = " ".join(str(f) for f in r["files"])
        idx[id(r)] = len(go_lines)
        go_lines += [f"dump {fl}", f"decode {r['out']}", f"gen {r['ts']} {fl}"]
    # malformed stream: mutated TLO bytes, read by the generated tltls reader and by the extracted dec1 (tie of the
    # decoding side beyond well-formed files)
    from gencommon import mutate_bytes
    mutants = []
    okruns = [r for r in runs if r["ok"]]
    small = [r for r in okruns if r["out"].stat().st_size < 40000]
    for k in range(0 if not small else (30 if quick else 300)):
        r = rng.choice(small)
        b = mutate_bytes(rng, r["out"].read_bytes(), [0x90ac88d7, 0xe91692d5, 0x5c0a1ed5, 0x29dfe61b, 0xc1863d08, 0x0142ceae], gentle=False)
        p = ctx.scratch / f"mut{k}.tlo"
        p.write_bytes(b)
        mutants.append((p, b, r["name"]))
        go_lines.append(f"decode {p}")
    go_out = []
    if go_lines:
        rc, go_out, log = tlo_lib.run_overlay(ovb, go_lines, ctx.scratch)
        if rc != 0 or len(go_out) != len(go_lines):
            infra.append((f"{pid}:go-run", f"overlay harness failed rc={rc} lines={len(go_out)}/{len(go_lines)}: {trunc(log, 400)}", {"log": log[-2000:]}))
            go_out = []
    elif not berr and overr:
        infra.append((f"{pid}:go-build", "overlay harness does not build: " + trunc(overr, 600), {"error": overr}))

    mark("go-run")
    if go_out and ref and ref1 and tls_tid is not None:
        m_lines, d_lines = [], []
        for r in okruns:
            i = idx[id(r)]
            dump = go_out[i]
            m_lines.append(f"tlo {r['ts']} 0 {dump[3:]}" if dump.startswith("ok ") else "tlo 0 0 0")
            h = r["out"].read_bytes().hex() or "-"
            d_lines += [f"dec 1 {tls_tid} tls.Schema 1 {h}", f"rw1 1 {tls_tid} tls.Schema 1 {h}"]
        for p, b, _ in mutants:
            d_lines.append(f"dec 1 {tls_tid} tls.Schema 1 {b.hex() or '-'}")
        rc1, m_out, err1 = run_lines(ref, [], m_lines)
        rc2, d_out, err2 = run_lines(ref1, [str(tls_ir)], d_lines)
        if rc1 != 0 or len(m_out) != len(m_lines) or rc2 != 0 or len(d_out) != len(d_lines):
            infra.append((f"{pid}:model-run", f"model drivers failed: tlo rc={rc1} {err1[-200:]} tl1 rc={rc2} {err2[-200:]}", {}))
        else:
            seen_schema = set()
            for k, r in enumerate(okruns):
                i = idx[id(r)]
                dump, dec, gen = go_out[i], go_out[i + 1], go_out[i + 2]
                name, ts = r["name"], r["ts"]
                kinds[r["kind"]] = kinds.get(r["kind"], 0) + 1
                stats["tlo_files"] += 1
                stats["tlo_bytes"] += r["out"].stat().st_size
                op = f"tl2gen --language=tlo --schemaTimestamp={ts} {' '.join(f.name for f in r['files'])} [{name}]"
                replay = {"unit": name, "ts": ts, "schema_text": "".join(f.read_text() for f in r["files"]) if r["kind"] != "repo" else [str(f) for f in r["files"]]}
                combs = tlo_lib.parse_dump(dump)
                if combs is None or not dec.startswith("ok "):
                    bad.append((f"{pid}:unreadable:{name}", f"{op}: the written TLO is not read back by gentlo/tltls ({trunc(dec, 80)}) / parser dump {trunc(dump, 60)}", replay))
                    continue
                if name not in seen_schema:
                    seen_schema.add(name)
                    stats["schemas"] += 1
                    stats["combinators"] += len(combs)
                gv, tail = dec[3:].rsplit(" | ", 1)
                g = tlo_lib.project(tlo_lib.parse_value(gv))
                stats["types"] += len(g["types"])
                # (b) generated tltls package: consumed everything, rewrites identically
                if tail != "0 1":
                    bad.append((f"{pid}:tltls-rewrite:{name}", f"{op}: tltls read leaves/rewrites differently (rest-len, rewrite) = {tail}", replay))
                # (a) extracted dec1 under the tls.tl IR: same value, all bytes consumed, re-encoding reproduces the file
                mv = d_out[2 * k]
                want_rw = f"ok {r['out'].stat().st_size} {r['out'].read_bytes().hex()}"
                if mv != f"ok {gv} | -":
                    mism.append((name, op + " [decode]", trunc(mv, 200), trunc("ok " + gv, 200)))
                if d_out[2 * k + 1] != want_rw:
                    mism.append((name, op + " [dec1;enc1 = file bytes]", trunc(d_out[2 * k + 1], 120), trunc(want_rw, 120)))
                # GenerateTLO on the parser's combinators directly == what the tl2gen CLI wrote (the kernel hands them over unchanged)
                if ts != 0 and gen != "ok " + r["out"].read_bytes().hex():
                    mism.append((name, op + " [GenerateTLO(parse) = file]", trunc(gen, 100), "file bytes"))
                # model tlo(dump) == decoded description, on the fields the model covers
                m = tlo_lib.parse_model_desc(m_out[k])
                if m is None:
                    stats["model_none"] += 1
                    mism.append((name, op + " [tlo]", m_out[k], "TLO written"))
                else:
                    for dtxt in tlo_lib.compare_desc(m, g, check_date=ts != 0)[:5]:
                        mism.append((name, op + " [tlo]", dtxt, ""))
                if ts == 0 and g["date"] == 0:
                    bad.append((f"{pid}:date-zero:{name}", f"{op}: date is 0", replay))
                # the property itself, model-free
                for sig, what in tlo_lib.oracle_tlo(combs, g):
                    s = sig.split(":")[0]
                    # F26 sigs carry the builtin's full name and nothing run-specific; everything else is a fresh violation
                    stable = f"{pid}:{sig}" if s == "F26" else f"{pid}:{sig}:{name}"
                    bad.append((stable, f"{op}: {what}", replay))
                if len(samples) < 10:
                    samples.append({"schema": name, "kind": r["kind"], "ts": ts, "combinators": len(combs), "types": len(g["types"]),
                                    "tlo_bytes": r["out"].stat().st_size, "first_type": g["types"][1] if len(g["types"]) > 1 else None})
            base = len(go_lines) - len(mutants)
            for j, (p, b, name) in enumerate(mutants):
                stats["mutants"] += 1
                kinds["mutated-tlo-bytes"] = kinds.get("mutated-tlo-bytes", 0) + 1
                g, mo = go_out[base + j], d_out[2 * len(okruns) + j]
                if g.startswith("ok "):
                    stats["mutants_ok"] += 1
                    gv, tail = g[3:].rsplit(" | ", 1)
                    restlen = int(tail.split(" ")[0])
                    want = f"ok {gv} | {b[len(b) - restlen:].hex() or '-'}"
                    if mo != want:
                        mism.append((name, f"decode mutant of {name} ({b.hex()[:40]}..)", trunc(mo, 160), trunc(want, 160)))
                    elif tail.split(" ")[1] != "1":
                        bad.append((f"{pid}:tltls-rewrite-mutant", f"tltls rewrites a mutated TLO it accepted differently: {b.hex()[:80]}", {"hex": b.hex()}))
                else:
                    if mo != g[4:]:
                        mism.append((name, f"decode mutant of {name} ({b.hex()[:40]}..)", mo, g))

    mark("models+compare")
    ctx.notes["phase_end_s"] = phases
    for sig, what, data in bad[:40]:
        ctx.violation(sig, what, data)
    if not ctx.violations:
        if cres.get("Tlo") or cres.get("Prim"):
            e = cres.get("Tlo") or cres.get("Prim")
            ctx.violation(f"{pid}:tconst", "translator T-const failed: " + e, {"theorem": f"coq/theories/{PROPS}.v", "error": e}, no_input=True)
        elif not thm["ok"]:
            ctx.violation(f"{pid}:theorem", f"theorem no longer checks: {thm['failing_at']}", {"theorem_file": thm["props_file"], "failing_at": thm["failing_at"], "log": thm["log_tail"]}, no_input=True)
        if berr:
            ctx.violation(f"{pid}:tools", "cannot build tl2gen/verifdump: " + trunc(berr, 600), {"error": berr}, no_input=True)
        if ref_err:
            ctx.violation(f"{pid}:model-build", "reference model does not build: " + trunc(ref_err, 600), {"error": ref_err}, no_input=True)
        for sig, what, data in infra[:10]:
            ctx.violation(sig, what, data, no_input=True)
        for name, op, m, g in mism[:30]:
            ctx.violation(f"{pid}:corr:{name}:{trunc(op, 60)}", f"{CORR}: model and implementation differ on {trunc(op, 160)}: model={trunc(m, 200)} go={trunc(g, 120)}",
                          {"correspondence": CORR, "unit": name, "op": op, "model": m, "go": g}, no_input=True)
    ctx.coverage.update({
        "obligations": thm["obligations"], "discharged": thm["discharged"],
        "checker_cmd": f"make -f Makefile.coq theories/{PROPS}.vo (coqc 8.16.1, full .vo build, in /verif/coq)",
        "trusted_base": ["Coq 8.16.1 kernel",
                         "translator overlay/internal/tlast/verif_tlo_test.go (parser dump of the combinators handed to GenerateTLO; printer of the tltls-decoded value)",
                         "translator overlay/cmd/verifdump + lib/schema_ir.py (kernel IR of tls.tl, compared with the constant TloModel.tls_ir on every run)",
                         "translator tools/genconsts (natTag, typeTag, builtin tags)",
                         "extraction ExtrOcamlBasic only; ocaml/conv.ml, ocaml/drv_tlo.ml, ocaml/drv_tl1.ml + ocaml/tl1/schema_io.ml",
                         "projection/comparison in lib/tlo_lib.py, lib/checks/C26.py",
                         "axioms: " + (", ".join(thm["axioms"]) if thm["axioms"] else "none (every theorem closed under the global context)")],
        "theorems": thm["statements"], "assumptions_per_theorem": thm["assumptions"],
        "evaluations": stats["tlo_files"] + stats["mutants"], "distinct_nontrivial": stats["tlo_files"],
        "rule": "per (schema, timestamp): real `tl2gen --language=tlo` bytes are decoded by the extracted dec1 under the tls.tl IR and by the repository's "
                "generated tltls package (full value trees compared; dec1;enc1 must reproduce the file), the description is compared with the model's "
                "tlo(parser dump) on version/date, all type fields, and per combinator tag/name/type id/flags/builtin/args_num/template arguments/field ids/"
                "right-hand side (constructors in full, functions head only); the oracle evaluates the property on the parser dump and the tltls-decoded "
                "description alone; non-trivial = a TLO file was produced",
        "op_kinds": kinds, "stats": stats, "correspondence": CORR, "correspondence_mismatches": len(mism), "oracle_failures": len(bad),
        "not_compared": "field argument flags/var_num/exist_var and type expression trees of fields, children of function result expressions "
                        "(covered only by the full-tree agreement of the two decoders and the byte-exact re-encoding, not by the model tlo)",
        "samples": samples or [{"note": "no TLO file produced"}],
        "constants": {n: ("regenerated from source this run" if not cres.get(n) else "FAILED") for n in ("Tlo", "Prim")},
    })
    ctx.assumptions += ["the parser's combinator list is the input (names, Crc32() tags, template arguments are the parser's: C20-C25 territory)",
                        "errors of the field type-expression conversion are not modelled (schemas on which tl2gen fails are outside the quantifier)",
                        "combinator names are distinct (kernel-enforced) for the exactly-once corollary"]
