"""C43 -- generated field accessors (SetX / ClearX / IsSetX) control presence consistently."""
from reg_lib import *

PROPS = "Props/C43"


def specs_for(ctx, fam):
    quick = ctx.quick()
    def accept(ins):   # at least two reachable struct types with accessors
        return sum(1 for tid in find_paths(ins) if any(has_acc(f) for f in ins[tid]["fields"])) >= 2

    return repo_corpus(quick) + rand_specs(ctx, 3 if quick else 9, prefix="ra", gen_cls=randschema.Gen, verifdump=fam.bins.get("verifdump"), accept=accept)


def plain(x):
    return x["kind"] == "struct" and not (x.get("isTypedef") or x.get("isAlias") or x.get("isUnwrap"))


def omitted(f):
    return (f.get("name") or "").startswith("_")


def has_acc(f):
    """port of the model's has_acc, used only to choose what to exercise (the model's own answer is compared with Go)"""
    m = f.get("mask")
    if omitted(f) or (m is None and f.get("tl2bit") is None):
        return False
    return not (m is not None and m["kind"] == "num")


def go_index(x):
    gi, n = {}, 0
    for i, f in enumerate(x["fields"]):
        if f.get("isBit") or omitted(f):
            gi[i] = None
        else:
            gi[i] = n
            n += 1
    return gi, n


def find_paths(ins):
    """Go-type navigation path of every plain struct instance reachable from the factory's struct items"""
    paths, queue = {}, []

    def visit(t, p, depth=0):
        y = ins[t]
        if depth > 6:
            return
        if y["kind"] == "struct":
            if plain(y):
                if t not in paths:
                    paths[t] = p
                    queue.append(t)
            elif len(y["fields"]) == 1:
                visit(y["fields"][0]["type"], p, depth + 1)
        elif y["kind"] == "array":
            visit(y["elem"]["type"], p + "/e", depth + 1)
        elif y["kind"] == "union" and y.get("isMaybe") and len(y.get("variants") or []) == 2:
            v1 = ins[y["variants"][1]]
            if v1["fields"]:
                visit(v1["fields"][0]["type"], p + "/f0", depth + 1)

    for tid, name, x in toplevel_objects(ins):
        if plain(x) and tid not in paths:
            paths[tid] = name
            queue.append(tid)
    while queue:
        tid = queue.pop(0)
        x = ins[tid]
        gi, _ = go_index(x)
        for i, f in enumerate(x["fields"]):
            if gi[i] is not None:
                visit(f["type"], paths[tid] + f"/f{gi[i]}")
    return paths


class FullGen(ValueGen):
    """wire values in which every optional field is present (all used mask bits set)"""

    def nat_for(self, usage, depth):
        if depth == 0 and usage is not None and usage["bits"] and not usage["arg"]:   # nested values stay random (recursion)
            v = 0
            for b in usage["bits"]:
                v |= 1 << b
            if self.rng.random() < 0.3:
                v |= self.rng.getrandbits(32)
            return v
        return super().nat_for(usage, depth)


def src_of(m):
    return None if m is None else (m["kind"], m["value"])


def analyse(x):
    """per accessor field: dependents (fields whose presence / value legitimately changes with it) and whether to skip it"""
    fs = x["fields"]
    arg_srcs = set()
    for g in fs:
        for a in g.get("natArgs") or []:
            if a["kind"] in ("field", "param"):
                arg_srcs.add((a["kind"], a["value"]))
    for a in ((x.get("result") or {}).get("natArgs") or []):
        if a["kind"] in ("field", "param"):
            arg_srcs.add((a["kind"], a["value"]))
    info = {}
    for i, f in enumerate(fs):
        if not has_acc(f):
            continue
        src = src_of(f.get("mask"))
        skip = None
        if src is not None and src in arg_srcs:
            skip = "mask is also passed as a nat argument to a field type"
        if ("field", i) in arg_srcs:
            skip = "#-field is passed as a nat argument to a later field type"
        dep = set()
        for j, g in enumerate(fs):
            if j == i:
                continue
            gs = src_of(g.get("mask"))
            if gs == ("field", i):
                dep.add(j)              # i is the mask of j
            if src is not None and gs == src and g.get("bit") == f.get("bit") and g.get("tl2bit") is None:
                dep.add(j)              # shares the TL1 bit and has no TL2 bit of its own
            if src is not None and gs == src and g.get("bit") == f.get("bit"):
                dep.add(("t1", j))      # TL1 presence is shared even when TL2 bits differ
        if src is not None and src[0] == "field":
            dep.add(src[1])             # the mask field's own value changes
        info[i] = {"skip": skip, "dep": dep, "src": src}
    return info


def choose_params(x, rng):
    n = len(x.get("natParams") or [])
    bits = {k: set() for k in range(n)}
    arg = set()
    for f in x["fields"]:
        m = f.get("mask")
        if m and m["kind"] == "param":
            bits[m["value"]].add(f["bit"])
        for a in f.get("natArgs") or []:
            if a["kind"] == "param":
                arg.add(a["value"])
    ps, psd = [], []
    for k in range(n):
        if k in arg and not bits[k]:
            v = rng.choice([0, 1, 2, 3])
            ps.append(v)
            psd.append(v)
        else:
            full = 0
            for b in bits[k]:
                full |= 1 << b
            r = 0
            for b in bits[k]:
                if rng.random() < 0.5:
                    r |= 1 << b
            if rng.random() < 0.3:
                extra = rng.getrandbits(32) & ~full
                r |= extra
            ps.append(r)
            psd.append(full | (rng.getrandbits(32) if rng.random() < 0.3 else 0))
    return ps, psd


def parse_obs(o):
    return dict(p.split("=", 1) for p in o.split(" ") if "=" in p)


def run(ctx):
    fam = Family(ctx, PROPS, "corr:C43:acc")
    fam.prepare(specs_for(ctx, fam), driver_files=["main.go", "ops_tl1.go", "ops_reg.go", "ops_regacc.go"])
    nscripts = 8 if ctx.quick() else 24
    skipped = {}
    tested_types = []

    def skip(reason, what):
        with fam.lock:
            skipped.setdefault(reason, []).append(what)

    def work(u, rng):
        if not fam.usable(u):
            return
        ins = u.ins
        paths = find_paths(ins)
        targets = [(tid, p) for tid, p in sorted(paths.items()) if any(has_acc(f) for f in ins[tid]["fields"])]
        # navigation check (the Go type reached by the path must be the struct we mean)
        rc, nav, err = run_lines(u.gen.exe, [], [f"acctype {p}" for tid, p in targets])
        good = []
        for (tid, p), o in zip(targets, nav):
            x = ins[tid]
            gi, ngo = go_index(x)
            tl2bits = [f["tl2bit"] for f in x["fields"] if f.get("tl2bit") is not None]
            nmask = (max(tl2bits) // 8 + 1) if tl2bits else 0
            f = o.split(" ")
            if f[0] == "ok" and f[2] == x["tlName"] and int(f[3]) == ngo + nmask:
                good.append((tid, p))
            else:
                skip("struct not reachable by type navigation (typedef / union in between)", f"{u.name}:{x['name']}:{trunc(o, 60)}")
        vg, fg = ValueGen(ins, rng), FullGen(ins, rng)
        all_ops = []   # (op line, steps, tid, kind)
        enc_req = []   # model-side encodings needed: (key, line)
        plans = []
        for tid, p in good:
            x = ins[tid]
            info = analyse(x)
            gi, _ = go_index(x)
            accs = [i for i in info if info[i]["skip"] is None]
            for i in info:
                if info[i]["skip"]:
                    skip(info[i]["skip"], f"{u.name}:{x['name']}.{x['fields'][i]['name']}")
            descs = []
            for i, f in enumerate(x["fields"]):
                m = f.get("mask")
                k = m["value"] if m and m["kind"] == "param" else "-"
                descs.append(f"{f.get('name') or '-'}:{'-' if gi[i] is None else gi[i]}:{k}:{1 if f.get('tl2bit') is not None else 0}")
            for sc in range(nscripts if accs else 1):
                ps, psd = choose_params(x, rng)
                kind = rng.choice(["full", "full", "fresh", "random"]) if accs else "fresh"
                if kind == "full":
                    ps = list(psd)
                try:
                    d1 = fg.value(tid, psd, 0)
                    fg.nodes = 0
                    d2 = fg.value(tid, psd, 0)
                    fg.nodes = 0
                    v0 = vg.value(tid, ps, 0) if kind == "random" else None
                    vg.nodes = 0
                except Budget:
                    fam.add(budget_skips=1)
                    continue
                plans.append({"tid": tid, "path": p, "ps": ps, "psd": psd, "kind": kind, "d": [d1, d2], "v0": v0, "accs": accs, "descs": descs, "x": x, "info": info})
        # phase 1: the model encodes donors / initial values
        enc_lines = []
        for pl in plans:
            x = pl["x"]
            for v, pp in ((pl["d"][0], pl["psd"]), (pl["d"][1], pl["psd"]), (pl["v0"], pl["ps"])):
                if v is not None:
                    enc_lines.append(f"enc {'1' if u.san else '0'} {pl['tid']} {x['tlName'] or '-'} 0 {' '.join(map(str, pp))} | {vtext(v)}")
        if not enc_lines:
            fam.add(schemas_without_accessors=1)
            return
        rc, eo, err = fam.model(u, enc_lines)
        if rc != 0 or len(eo) != len(enc_lines):
            with fam.lock:
                fam.unit_errors.append((u.name, f"model driver failed on enc: rc={rc} {err[-300:]}"))
            return
        pos = 0
        lines, metas = [], []
        for pl in plans:
            hexes = []
            for v in (pl["d"][0], pl["d"][1], pl["v0"]):
                if v is None:
                    hexes.append(None)
                else:
                    o = eo[pos]
                    pos += 1
                    hexes.append(o[3:] if o.startswith("ok ") else None)
            if hexes[0] is None or hexes[1] is None or (pl["kind"] == "random" and hexes[2] is None):
                fam.add(model_enc_none=1)
                continue
            x, info = pl["x"], pl["info"]
            first = {"full": f"read:{hexes[0]}", "fresh": "fresh", "random": f"read:{hexes[2]}"}[pl["kind"]]
            steps = [first]
            for _ in range(rng.choice([2, 3, 4, 6]) if pl["accs"] else 0):
                i = rng.choice(pl["accs"])
                ext = 1 if rng.random() < 0.9 else 0
                if x["fields"][i].get("isBit"):
                    steps.append(f"setb:{i}:{rng.choice([0, 1, 1])}:{ext}")
                elif rng.random() < 0.55:
                    steps.append(f"set:{i}:{ext}:{hexes[rng.choice([0, 1])]}")
                else:
                    steps.append(f"clear:{i}:{ext}")
            n = len(pl["ps"])
            lines.append(" ".join(["acc", str(pl["tid"]), pl["path"], str(n)] + [str(v) for v in pl["ps"] + pl["psd"]] +
                                  [str(len(pl["descs"]))] + pl["descs"] + ["|"] + steps))
            metas.append((pl, steps))
        rc1, mo, e1 = fam.model(u, lines)
        go = run_lines_resilient(u.gen.exe, [], lines, timeout=600)
        if rc1 != 0 or len(mo) != len(lines) or len(go) != len(lines):
            with fam.lock:
                fam.unit_errors.append((u.name, f"driver failed: model rc={rc1} lines={len(lines)}/{len(mo)}/{len(go)} {e1[-300:]}"))
            return
        # ---- correspondence (Go's JSON value hashes are for the oracle only; JSON write errors are not modelled)
        nm, ng = [], []
        for m, g in zip(mo, go):
            ms, gs = m.split(" | "), g.split(" | ")
            om, og = [ms[0]], [gs[0]]
            for a, b in zip(ms[1:], gs[1:]):
                da, db = parse_obs(a), parse_obs(b)
                db.pop("jv", None)
                if db.get("js") == "err" and "js" in da:
                    da["js"] = "err"
                    fam.add(json_write_errors_not_modelled=1)
                om.append(" ".join(f"{k}={v}" for k, v in da.items()) if da else a)
                og.append(" ".join(f"{k}={v}" for k, v in db.items()) if db else b)
            if len(ms) != len(gs):
                om, og = ms, gs
            nm.append(" | ".join(om))
            ng.append(" | ".join(og))
        for kind in ("full", "fresh", "random"):
            idx = [i for i, (pl, st) in enumerate(metas) if pl["kind"] == kind]
            fam.compare(u, [lines[i] for i in idx], [nm[i] for i in idx], [ng[i] for i in idx], "acc-" + kind)
        # ---- model-free oracle on Go's own observations
        nsteps = 0
        types_here = set()
        for (pl, steps), l, g in zip(metas, lines, go):
            x, info = pl["x"], pl["info"]
            types_here.add(x["name"])
            gs = g.split(" | ")
            if len(gs) != len(steps) + 1 or not gs[0].startswith("acc="):
                continue    # driver-level failure: reported by the correspondence
            codes = gs[0][4:].split(",")
            accidx = [i for i, c in enumerate(codes) if c.endswith("I")]
            obs = [parse_obs(o) for o in gs[1:]]
            for si in range(1, len(steps)):
                st = steps[si].split(":")
                i = int(st[1])
                before, after = obs[si - 1], obs[si]
                nsteps += 1
                if i not in accidx or "is" not in after or "is" not in before:
                    continue
                pos_i = accidx.index(i)
                fld = x["fields"][i]
                name = f"{x['name']}.{fld['name']}"
                sig = f"C43:{u.name}:{name}"
                ext = st[2] if st[0] in ("set", "clear") else st[3]
                on = st[0] == "set" or (st[0] == "setb" and st[2] == "1")
                param_mask = info[i]["src"] is not None and info[i]["src"][0] == "param"
                effective = not (param_mask and ext == "0" and fld.get("tl2bit") is None)   # nil *uint32 without TL2: nothing can change
                data = {"op": l, "step": si, "go": g}
                if effective and after["is"][pos_i] != ("1" if on else "0"):
                    fam.oracle_fail(u, sig, f"after {steps[si][:40]} IsSet reports {after['is'][pos_i]}", data)
                if effective and after.get("js") not in (None, "err") and len(after["js"]) == len(accidx) and after["js"][pos_i] != ("1" if on else "0"):
                    fam.oracle_fail(u, sig, f"after {steps[si][:40]} the JSON key is {'absent' if on else 'present'}", data)
                if after.get("t2", "-") not in ("-", "readerr", "nomethod") and fld.get("tl2bit") is not None:
                    t2idx = [j for j in accidx if x["fields"][j].get("tl2bit") is not None]
                    if len(after["t2"]) == len(t2idx) and after["t2"][t2idx.index(i)] != ("1" if on else "0"):
                        fam.oracle_fail(u, sig, f"after {steps[si][:40]} the TL2 encoding read back reports presence {after['t2'][t2idx.index(i)]}", data)
                # frame: all other accessor fields keep IsSet / JSON presence, all other fields keep their JSON value
                dep = info[i]["dep"]
                for pj, j in enumerate(accidx):
                    if j == i or j in dep:
                        continue
                    if before["is"][pj] != after["is"][pj]:
                        fam.oracle_fail(u, sig, f"{steps[si][:40]} changed IsSet of the unrelated field {x['fields'][j]['name']}", data)
                jb, ja = before.get("jv"), after.get("jv")
                if jb and ja and jb not in ("err", "unparsable", "nomethod") and ja not in ("err", "unparsable", "nomethod"):
                    hb, ha = jb.split(","), ja.split(",")
                    if len(hb) == len(ha) == len(x["fields"]):
                        for j in range(len(hb)):
                            if j != i and j not in dep and hb[j] != ha[j]:
                                fam.oracle_fail(u, sig, f"{steps[si][:40]} changed the JSON of the unrelated field {x['fields'][j]['name']}", data)
        fam.add(schemas=1, struct_types=len(types_here), accessor_steps=nsteps)
        with fam.lock:
            tested_types.extend(f"{u.name}:{t}" for t in sorted(types_here))

    fam.run_units(work)
    fam.report(
        "accessor inconsistent",
        "per schema: every struct type with conditional fields that is reachable (by Go type navigation) from a factory object, under random and all-ones nat parameters: "
        "scripts of SetX (value taken from a donor object read from model-generated bytes) / SetX(bool) for `true` fields / ClearX, with the *uint32 argument nil or not, "
        "starting from a fresh object, an all-present object or a random object; after every step IsSetX of all accessor fields, WriteTL1 bytes, key presence in WriteJSONGeneral "
        "and IsSetX after a WriteTL2/ReadTL2 round trip are compared with the model; the oracle checks Set => IsSet & JSON key & TL2 presence, Clear => the opposite, "
        "and that no unrelated field changes its IsSet or its JSON value",
        extra_cov={"skipped_constructs": {k: sorted(set(v))[:40] for k, v in skipped.items()} or "none",
                   "struct_types_tested": sorted(set(tested_types))[:200],
                   "not_modelled": ["values of nested fields are opaque wire values: accessors whose mask is also passed as a nat argument to a field type are skipped",
                                    "JSON text (only key presence); TL2 bytes (only presence after read-back); JSON write errors"]},
        assumptions=["Go field names follow utils.CNameToCamelName (ported into the harness); a mismatch is reported, not assumed"])
