"""C21 -- the TL1 schema printer (Combinator.String / TL.String) round-trips through the parser."""
from vlib import *
import canon_lib as cl

PROPS = "Props/C21"
FAMILY = "canon"

SIG_F5 = "C21:F5:explicit-zero-tag-dropped"


def show(t):
    return trunc(repr(t), 200)


def gen_ops(ctx):
    rng = ctx.rng
    quick = ctx.quick()
    h = cl.Harness(ctx)
    ctx.c21 = st = {"err": None}
    if not h.ok():
        st["err"] = h.err
        return []
    g = cl.Gen(rng)
    files = cl.corpus()
    items = [(t, "d", "repo-schema", p) for p, t in files]
    n_rand = 1500 if quick else 12000
    for _ in range(n_rand):
        c = g.comb()
        items.append((g.text(c, True, "rand"), "", "random-combinator", None))
    # random schemas: several combinators, types and functions interleaved ('=>' or section markers)
    for _ in range(150 if quick else 1500):
        toks = []
        fsec = False
        for _ in range(rng.randrange(2, 9)):
            c = g.comb()
            if rng.random() < 0.15:
                fsec = not fsec
                toks.append("---functions---" if fsec else "---types---")
            if c["func"] and not fsec:
                if rng.random() < 0.5:
                    toks += g.t_comb(c, True, arrow=True)
                    continue
                fsec = True
                toks.append("---functions---")
            elif not c["func"] and fsec:
                fsec = False
                toks.append("---types---")
            toks += g.t_comb(c, True, arrow=c["func"] and rng.random() < 0.3)
        items.append((g.render(toks, "rand"), "", "random-schema", None))
    # the semantically valid schemas the real generator accepts
    for _ in range(10 if quick else 100):
        items.append((cl.valid_schema(rng), "", "valid-schema", None))
    res = h.parse([(t, o) for t, o, _, _ in items])
    # second pass: parse what Go printed
    again = h.parse([(p.tlstring.decode("utf-8", "surrogateescape") if p.ok else "", o) for p, (_, o, _, _) in zip(res, items)])
    st["items"], st["res"], st["again"] = items, res, again
    ops, go, seen = [], [], set()
    for (text, o, kind, path), p in zip(items, res):
        if not p.ok:
            continue
        for c in p.combs:
            op = f"c21 {c['dump']}"
            if op not in seen:
                seen.add(op)
                ops.append((op, kind + ":String", path or text))
                go.append(cl.hx(c["str"]) + " 1")
        op = "c21tl " + " ".join(c["dump"] for c in p.combs)
        if op not in seen and kind != "random-combinator":
            seen.add(op)
            ops.append((op, kind + ":TL.String", path or text))
            go.append(cl.hx(p.tlstring))
    st["go"] = go
    ctx.notes["texts_parsed"] = len(items)
    ctx.notes["roundtrip"] = "every text: ParseTLFile -> TL.String() -> ParseTLFile; AST dumps compared combinator by combinator; String() of the re-parse compared with the first print"
    return ops


def go_runner(ctx, lines):
    if ctx.c21["err"]:
        return None, ctx.c21["err"]
    return ctx.c21["go"], ""


def oracle(ctx, ops, go_out):
    st = ctx.c21
    bad = []
    if st["err"]:
        return bad
    n = nf5 = 0
    f5_reported = False
    for (text, o, kind, path), p, q in zip(st["items"], st["res"], st["again"]):
        src = path or text
        if not p.ok:
            if kind != "repo-schema":
                bad.append((show(text), "parse", p.err, f"C21:generated-text-rejected:{trunc(text, 60)}"))
            continue
        if not q.ok:
            bad.append((show(src), "reparse", f"printed text does not parse: {q.err}; printed {show(p.tlstring)}", f"C21:reparse-failed:{trunc(src, 60)}"))
            continue
        if len(q.combs) != len(p.combs):
            bad.append((show(src), "reparse", f"{len(p.combs)} combinators printed, {len(q.combs)} parsed back", f"C21:reparse-count:{trunc(src, 60)}"))
            continue
        f5_here = False
        for a, b in zip(p.combs, q.combs):
            n += 1
            if a["dump"] == b["dump"]:
                continue
            da, db = cl.sexp(a["dump"]), cl.sexp(b["dump"])
            name = cl.name_str(da[cl.C_NAME])
            rest_a = [x for i, x in enumerate(da) if i not in (cl.C_ID, cl.C_EXPL)]
            rest_b = [x for i, x in enumerate(db) if i not in (cl.C_ID, cl.C_EXPL)]
            if da[cl.C_EXPL] == "1" and da[cl.C_ID] == "0" and rest_a == rest_b and db[cl.C_EXPL] == "0":
                # F5: explicit #00000000 is not printed, the re-parse computes the implicit tag
                nf5 += 1
                f5_here = True
                if not f5_reported:
                    f5_reported = True
                    bad.append((show(a["str"]), "roundtrip-zero-tag", f"tag 00000000 explicit -> re-parsed implicit tag {b['id']:08x}", SIG_F5))
                continue
            diff = [i for i in range(min(len(da), len(db))) if da[i] != db[i]]
            bad.append((show(src), "roundtrip", f"combinator {name}: AST fields {diff} differ after print+parse; printed {show(a['str'])}", f"C21:roundtrip:{name}"))
        if q.tlstring != p.tlstring and not f5_here:
            bad.append((show(src), "idempotence", f"print(parse(print(x))) != print(x): {show(q.tlstring)} vs {show(p.tlstring)}", f"C21:print-idempotence:{trunc(src, 60)}"))
    ctx.notes["combinators_roundtripped"] = n
    ctx.notes["zero_tag_instances_F5"] = nf5
    return bad


def run(ctx):
    standard_run(
        ctx, props=PROPS, family=FAMILY, consts=["Canon"], go_runner=go_runner, gen_ops=gen_ops, oracle=oracle,
        corr_name="corr:C21:print",
        trusted=["translator: AST dump in overlay/internal/tlast/verif_canon_test.go (Go AST -> S-expression; this dump is the `erase` of the property: "
                 "everything except positions, comments, NewlineRight and resolution-only fields) and its reader in ocaml/drv_canon.ml",
                 "generator/oracle in lib/checks/C21.py and lib/canon_lib.py",
                 "lexer/parser are not modelled in this family: parse(print(a)) = a is checked on the Go side (dump equality), the theorems cover the printer"],
        assumptions=["round trip through the real parser is established by the correspondence run (Go parse-print-parse), not by a theorem over a parser model",
                     "Go code is modelled, not verified: agreement is established on the operations listed under op_kinds"],
        rule="every distinct combinator AST (repository .tl files, random combinators and random multi-combinator schemas from VERIF_SEED) is one op: "
             "model print1 vs Go Combinator.String(); every schema one op: model print_tl vs Go TL.String(); distinct = distinct op lines")
