"""C02 -- TL1 readers accept only canonical encodings."""
import random
import threading
from concurrent.futures import ThreadPoolExecutor

from vlib import *
from gencommon import *
import os as _os
OP_LIMIT_ENV = dict(_os.environ, VERIF_OP_LIMIT="10")   # per-operation time limit of the extracted model (ocaml/conv.ml)

PROPS = "Props/C02"
FAMILY = "tl1"


def dict_types(ins):
    """type ids that (transitively) contain a map-backed dictionary"""
    has = {x["id"]: x["kind"] == "dict" for x in ins}
    changed = True
    while changed:
        changed = False
        for x in ins:
            if has[x["id"]]:
                continue
            kids = [f["type"] for f in x.get("fields", [])] + list(x.get("variants") or [])
            if x.get("elem"):
                kids.append(x["elem"]["type"])
            if any(has.get(k) for k in kids if k is not None and k >= 0):
                has[x["id"]] = True
                changed = True
    return has


def run(ctx, props=PROPS, random_only=False, nrand=None, gen_cls=None, leg=None):
    PROPS = props
    quick = ctx.quick()
    with Lock():
        cres = run_genconsts()
        thm = check_theorems(PROPS)
        try:
            ref, ref_err = build_refmodel(FAMILY), None
        except RuntimeError as e:
            ref, ref_err = None, str(e)
    log('[C02] coq+model ready', round(time.time() - ctx.t0)); bins, berr = build_tools(ctx.scratch)
    units = []
    if not berr:
        import randschema
        corpus = [c for c in repo_corpus(quick) if not (quick and c[0] == 'goldmaster')]
        if random_only:
            corpus = []
        units = prepare_units(ctx, corpus + randschema.make_specs(ctx, nrand or (8 if quick else 24), gen_cls=gen_cls), bins)
        if leg is not None:     # C11: the kernel dump of these units is cross-checked too (lib/indep_ir.py)
            leg.run(units)
    log('[C02] units ready', round(time.time() - ctx.t0))
    nvals = 4 if quick else 10
    nmut = 8 if quick else 16
    stats = {"schemas": 0, "types": 0, "inputs": 0, "mutated": 0, "random": 0, "valid": 0, "kernel_rejected": 0}
    verdicts, mism, bad, samples, unit_errors = {}, [], [], [], []
    lock = threading.Lock()
    rngs = {u.name: random.Random(ctx.rng.getrandbits(64)) for u in units}

    def work(u):
        rng = rngs[u.name]
        if u.kernel_rejected and u.name.startswith("rs"):
            with lock:
                stats["kernel_rejected"] += 1
            return
        if u.error or not u.gen:
            with lock:
                unit_errors.append((u.name, u.error))
            return
        if ref is None:
            return
        rc, items, err = run_lines(u.gen.exe, [], ["items"])
        have = {x.split(",")[0] for x in items[0][3:].split(";")} if items and items[0].startswith("ok ") else set()
        tops = [t for t in toplevel_objects(u.ins) if t[1] in have]
        hasd = dict_types(u.ins)
        tags = [x["tag"] for x in u.ins if x["kind"] == "struct" and x.get("tag")] + [0xbc799737, 0x997275b5]
        vg = ValueGen(u.ins, rng)
        san = "1" if u.san else "0"
        enc_lines = []
        nc_ops = []
        for tid, name, x in tops:
            for _ in range(nvals):
                try:
                    v = vg.top(tid)
                except Budget:
                    break
                boxed = 1 if x["kind"] == "union" else rng.randrange(2)
                enc_lines.append(f"enc 0 {tid} {name} {boxed} | {vtext(v)}")
                # structure-aware non-canonical spellings of the same value (must all be rejected)
                for tweak, b in noncanonical_encodings(u.ins, tid, boxed, v, rng, n=2):
                    nc_ops.append((f"rw1 {'1' if u.san else '0'} {tid} {name} {boxed} {b.hex() or '-'}", "noncanon-" + tweak, tid))
        rc, enc_out, err = run_lines(ref, [str(u.ir_path)], enc_lines)
        if rc != 0 or len(enc_out) != len(enc_lines):
            with lock:
                unit_errors.append((u.name, f"model driver failed: rc={rc} {err[-300:]}"))
            return
        ops = []   # (line, kind, tid)
        for l, o in zip(enc_lines, enc_out):
            if not o.startswith("ok "):
                continue
            f = l.split(" ")
            tid, name, boxed = f[2], f[3], f[4]
            b = b"" if o[3:] == "-" else bytes.fromhex(o[3:])
            ops.append((f"rw1 {san} {tid} {name} {boxed} {o[3:]}", "valid", int(tid)))
            for _ in range(nmut if u.san else max(1, nmut // 4)):   # without the sanity check hostile counts cost seconds each (allocation by design)
                m = mutate_bytes(rng, b, tags, gentle=not u.san)
                if rng.random() < 0.25:
                    m = mutate_bytes(rng, m, tags, gentle=not u.san)
                ops.append((f"rw1 {san} {tid} {name} {boxed} {m.hex() or '-'}", "mutated", int(tid)))
        for tid, name, x in tops:
            for _ in range(3 if u.san else 0):
                k = rng.randrange(0, 40)
                rb = bytes(rng.getrandbits(8) if rng.random() < 0.6 else 0 for _ in range(k))
                if x.get("tag") and rng.random() < 0.5:
                    rb = x["tag"].to_bytes(4, "little") + rb
                ops.append((f"rw1 {san} {tid} {name} {rng.randrange(2) if x['kind'] != 'union' else 1} {rb.hex() or '-'}", "random", tid))
        ops += nc_ops
        lines = [o[0] for o in ops]
        # the model builds the element list of a hostile count even when the elements occupy no bytes (`(vector (tuple Bool 0))`,
        # empty bare structs): cap its memory; without --checkLengthSanity such inputs are unbounded by design and are not compared
        mo = run_lines_resilient(ref, [str(u.ir_path)], lines, timeout=900, mem_gb=2, max_restarts=40, env=OP_LIMIT_ENV)
        rc1, err1 = 0, ""
        go = run_lines_resilient(u.gen.exe, [], lines, timeout=300, mem_gb=3, max_restarts=200)
        if rc1 != 0 or len(mo) != len(lines) or len(go) != len(lines):
            with lock:
                unit_errors.append((u.name, f"driver failed: model rc={rc1} {err1[-300:]} go lines {len(go)}/{len(lines)}"))
            return
        ubad, umism, uverd = [], [], {}
        again = []
        for (l, kind, tid), m, g in zip(ops, mo, go):
            v = g.split(" ")[0]
            uverd[f"{kind}:{v}"] = uverd.get(f"{kind}:{v}", 0) + 1
            f = l.split(" ")
            inp = f[5] if f[5] != "-" else ""
            if m.startswith("crash model-timeout"):    # the list-based model exceeded its per-operation time limit (hostile count over zero-size elements)
                uverd["model-timeout-skipped"] = uverd.get("model-timeout-skipped", 0) + 1
                continue
            if m.startswith("crash") and not u.san:
                uverd["nosan-model-resource-skipped"] = uverd.get("nosan-model-resource-skipped", 0) + 1
                continue
            if g.startswith("ok "):
                gf = g.split(" ")
                consumed = int(gf[1])
                rew = gf[2] if gf[2] != "-" else ""
                if gf[2] == "writeerr":
                    ubad.append((u.name, l, g, f"C02:accepted-but-unwritable:{u.name}:{f[3]}"))
                elif not hasd.get(tid):
                    # the property on the implementation: accepted prefix is re-written identically
                    if rew != inp[:2 * consumed]:
                        ubad.append((u.name, l, g, f"C02:noncanonical-accepted:{u.name}:{f[3]}"))
                else:
                    again.append((l, rew))
            elif v in ("panic", "crash"):
                if not u.san and g.startswith("crash oom"):
                    # without --checkLengthSanity a hostile count makes the reader allocate count elements:
                    # by design unbounded (C08 speaks about sanity checks enabled); not compared
                    uverd["nosan-oom-skipped"] = uverd.get("nosan-oom-skipped", 0) + 1
                    continue
                ubad.append((u.name, l, g, f"C02:reader-crash:{u.name}:{f[3]}"))
            if kind == "valid" and not g.startswith("ok ") and m == g:
                pass   # F6-type rejection of a written value is C01's finding
            if m != g:
                umism.append((u.name, l, m, g))
        # dictionaries: re-emitted form must be a fixpoint of read+write
        if again:
            l2 = [" ".join(l.split(" ")[:5] + [rew or "-"]) for l, rew in again]
            g2 = run_lines_resilient(u.gen.exe, [], l2, timeout=600)
            for (l, rew), l2i, g in zip(again, l2, g2):
                want = f"ok {len(rew) // 2} {rew or '-'}"
                if g != want:
                    ubad.append((u.name, l2i, g, f"C02:dict-reemission-not-stable:{u.name}:{l.split(' ')[3]}"))
        log('[C02] unit done', u.name, round(time.time() - ctx.t0), len(lines))
        with lock:
            stats["schemas"] += 1
            stats["types"] += len(tops)
            stats["inputs"] += len(lines)
            for k in ("valid", "mutated", "random"):
                stats[k] += sum(1 for o in ops if o[1] == k)
            stats["noncanonical"] = stats.get("noncanonical", 0) + len(nc_ops)
            for k, v in uverd.items():
                verdicts[k] = verdicts.get(k, 0) + v
            bad.extend(ubad)
            mism.extend(umism)
            acc = [i for i, (o, g) in enumerate(zip(ops, go)) if o[1] == "mutated" and g.startswith("ok ")]
            rej = [i for i, (o, g) in enumerate(zip(ops, go)) if o[1] == "mutated" and not g.startswith("ok ")]
            for pool in (acc, rej):
                if pool and len(samples) < 14:
                    j = rng.choice(pool)
                    samples.append({"schema": u.name, "kind": ops[j][1], "op": trunc(lines[j], 200), "go": trunc(go[j], 120), "model": trunc(mo[j], 120)})

    with ThreadPoolExecutor(max_workers=8) as ex:
        list(ex.map(work, units))

    pid = ctx.pid
    for name, l, g, sig in bad[:30]:
        ctx.violation(sig, f"{name}: {sig.split(':')[1]}: {trunc(l, 160)} -> {trunc(g, 120)}", {"unit": name, "op": l, "go": g})
    if not ctx.violations:
        if cres.get("Prim"):
            ctx.violation(f"{pid}:tconst", "translator T-const failed: " + cres["Prim"], {"theorem": "coq/theories/Props/C02.v", "error": cres["Prim"]}, no_input=True)
        elif not thm["ok"]:
            ctx.violation(f"{pid}:theorem", f"theorem no longer checks: {thm['failing_at']}", {"theorem_file": thm["props_file"], "failing_at": thm["failing_at"], "log": thm["log_tail"]}, no_input=True)
        if berr:
            ctx.violation(f"{pid}:tools", "cannot build tl2gen/verifdump from /repo: " + trunc(berr, 600), {"error": berr}, no_input=True)
        if ref_err:
            ctx.violation(f"{pid}:model-build", "reference model does not build: " + trunc(ref_err, 600), {"error": ref_err}, no_input=True)
        for name, e in reportable_unit_errors(unit_errors, ctx)[:10]:
            ctx.violation(f"{pid}:unit:{name}", f"schema unit {name}: {trunc(e, 600)}", {"unit": name, "error": e}, no_input=True)
        for name, l, m, g in mism[:30]:
            ctx.violation(f"{pid}:corr:{name}:{trunc(l, 60)}", f"corr:C02:accept {name}: model and generated code differ on {trunc(l, 140)}: model={trunc(m, 90)} go={trunc(g, 90)}",
                          {"correspondence": "corr:C02:accept", "unit": name, "op": l, "model": m, "go": g}, no_input=True)
    ctx.coverage.update({
        "obligations": thm["obligations"], "discharged": thm["discharged"],
        "checker_cmd": f"make -f Makefile.coq theories/{PROPS}.vo (coqc 8.16.1, full .vo build, in /verif/coq)",
        "trusted_base": ["Coq 8.16.1 kernel", "translator overlay/cmd/verifdump + lib/schema_ir.py", "translator tools/genconsts",
                         "extraction ExtrOcamlBasic only; ocaml/conv.ml, ocaml/tl1/schema_io.ml, ocaml/drv_tl1.ml", "harness/go/gendrv; lib/checks/C02.py",
                         "axioms: " + (", ".join(thm["axioms"]) if thm["axioms"] else "none (every theorem closed under the global context)")],
        "theorems": thm["statements"], "assumptions_per_theorem": thm["assumptions"],
        "evaluations": stats["inputs"], "distinct_nontrivial": stats["mutated"] + stats["random"],
        "rule": "byte strings = valid encodings (model writer), k mutations of each (truncation, bit flips, tag swaps among schema tags, count edits, insert/delete words, garbage tail) and random strings; "
                "each read (bare/boxed) by freshly generated Go code and by the extracted model; verdict, consumed length and re-written bytes compared; non-trivial = mutated or random input",
        "stats": stats, "go_verdicts_by_input_kind": verdicts, "correspondence": "corr:C02:accept",
        "correspondence_mismatches": len(mism), "oracle_failures": len(bad), "samples": samples or [{"note": "no ops ran"}],
        "schemas": [{"name": u.name, "options": u.options, "error": trunc(u.error, 200) if u.error else None} for u in units],
    })
    ctx.assumptions += ["64-bit platform", "templates modelled, not verified", "C02_canonical_modulo_dict covers all well-formed schemas; the fixed-point theorem needs the strict writer under the length-sanity option"]
