"""C06 -- JSON reader accepts documented alternative forms and rejects invalid ones."""
import json
import random
import threading
from concurrent.futures import ThreadPoolExecutor

from vlib import *
from gencommon import *
from json_lib import *

PROPS = "Props/C06"


def run(ctx):
    quick = ctx.quick()
    with Lock():
        cres = run_genconsts()
        thm = check_theorems(PROPS)
        try:
            ref = build_refmodel(FAMILY)
            ref_err = None
        except RuntimeError as e:
            ref, ref_err = None, str(e)
    import time
    t0 = time.time()
    bins, berr, units = json_units(ctx, quick, 4 if quick else 16)
    log(f"[C06] {len(units)} units prepared in {time.time() - t0:.0f}s")
    nvals = 4 if quick else 20
    nrand = 1 if quick else 5
    k = 2 if quick else 5
    stats = {"schemas": 0, "kernel_rejected": 0, "types": 0, "unmodelled_types": 0, "values": 0, "alt_ops": 0, "alt_noncanonical": 0,
             "mut_ops": 0, "mut_changed": 0, "model_unrep": 0, "model_fuel": 0, "budget_skips": 0,
             "maybe_ops": 0, "maybe_shapes_available": 0, "maybe_order_pairs": 0,
             "verdicts": {"alt": {}, "mut": {}, "maybe": {}}}
    mism, bad, samples, unit_errors, skipped_types = [], [], [], [], {}
    lock = threading.Lock()
    rngs = {u.name: random.Random(ctx.rng.getrandbits(64)) for u in units}

    def work(u):
        rng = rngs[u.name]
        if u.kernel_rejected:
            with lock:
                stats["kernel_rejected"] += 1
            return
        if u.error or not u.gen:
            with lock:
                unit_errors.append((u.name, u.error))
            return
        if ref is None:
            return
        ju = JUnit(u)
        prepare_inputs(ctx, ju, bins, ref, rng, nvals, nrand, nan_stream=False)
        if ju.error:
            with lock:
                unit_errors.append((u.name, ju.error))
            return
        inp = ju.inputs
        try:
            wfo = model_run(ref, ju, ["wf"])
        except RuntimeError as e:
            wfo = [str(e)]
        if wfo != ["ok true"]:   # the theorems are about well-formed annotated schemas: every kernel dump must be one
            with lock:
                stats["wf_false"] = stats.get("wf_false", 0) + 1
                unit_errors.append((u.name, f"wf_jschema is not true for the kernel dump: {wfo}"))
        ops = [(kind, t, n, h, rng.getrandbits(60)) for t, n, h, _ in inp for kind in ("alt", "mut") for _ in range(k)]
        try:
            mo = model_run(ref, ju, [f"{kind} {t} 1 {h} {seed}" for kind, t, n, h, seed in ops])
            dg = model_run(ref, ju, [f"diag {t} 1 {h}" for t, n, h, _ in inp])
        except RuntimeError as e:
            with lock:
                unit_errors.append((u.name, str(e)))
            return
        diag = {h: ([] if d in ("ok -", "badtl1") else d[3:].split(",")) for (t, n, h, _), d in zip(inp, dg)}
        # Go: canonical text of every value and its re-read (reference point of the oracle), then every model-made text
        rc0, wj, err0 = run_lines(u.gen.exe, [], [f"wj {n} 1 {h}" for t, n, h, _ in inp], timeout=900)
        canon_lines = [f"rj {n} {w[3:]}" if w.startswith("ok ") else "items" for (t, n, h, _), w in zip(inp, wj)]
        rc1, cr, err1 = run_lines(u.gen.exe, [], canon_lines, timeout=900)
        gl = [f"rj {n} {m.split(' ')[1]}" if m.startswith("ok ") else "items" for (kind, t, n, h, seed), m in zip(ops, mo)]
        rc2, go, err2 = run_lines(u.gen.exe, [], gl, timeout=900)
        if rc0 != 0 or rc1 != 0 or rc2 != 0 or len(go) != len(ops) or len(cr) != len(inp):
            with lock:
                unit_errors.append((u.name, f"go driver failed: {err0[-150:]} {err1[-150:]} {err2[-150:]}"))
            return
        canon_read = {h: c for (t, n, h, _), c, w in zip(inp, cr, wj) if w.startswith("ok ")}
        st = dict(ju.stats)
        st.update({"schemas": 1, "values": len(inp), "alt_ops": 0, "alt_noncanonical": 0, "mut_ops": 0, "mut_changed": 0, "model_unrep": 0, "model_fuel": 0,
                   "maybe_ops": 0, "maybe_shapes_available": 0, "maybe_order_pairs": 0})
        verd = {"alt": {}, "mut": {}, "maybe": {}}
        umism, ubad = [], []
        for (kind, t, n, h, seed), m, g in zip(ops, mo, go):
            f = m.split(" ")
            if f[0] != "ok":
                continue          # TL1 input refused by the reader (F6) or not writable
            verdict = " ".join(f[3:])
            txt = f[1]
            op = f"{kind} {n} seed={seed} tl1={trunc(h, 60)} json={trunc(bytes.fromhex(txt).decode('utf-8', 'replace') if txt != '-' else '', 200)}"
            st[kind + "_ops"] += 1
            if kind == "alt" and f[2] == "0":
                st["alt_noncanonical"] += 1
            if kind == "mut" and f[2] == "0":
                st["mut_changed"] += 1
            verd[kind][f[3]] = verd[kind].get(f[3], 0) + 1
            if f[3] == "unrep":
                st["model_unrep"] += 1
            elif f[3] == "fuel":
                st["model_fuel"] += 1
            elif verdict != g:
                # correspondence: verdict (ok / reject) and TL1 re-encoding of what was read
                umism.append((u.name, op, verdict, g))
            if g.startswith("ok ") and txt != "-":
                # oracle on Go only (rejection rules, top level): an object the reader accepted for a struct type has
                # neither a member that is no field of the type nor a repeated member
                x = ju.jins[int(t)]
                if x["kind"] == "struct" and not x.get("isTypedef"):
                    try:
                        pairs = json.loads(bytes.fromhex(txt).decode("utf-8"), object_pairs_hook=lambda l: l)
                    except Exception:  # noqa
                        pairs = None
                    if isinstance(pairs, list) and all(isinstance(p_, tuple) and len(p_) == 2 for p_ in pairs):
                        keys = [p_[0] for p_ in pairs]
                        names = {f_["name"] for f_ in x["fields"]}
                        if any(k_ not in names for k_ in keys):
                            ubad.append((u.name, op, f"accepted ({trunc(g, 60)}) although a member is not a field of the type", f"C06:accepted-unknown-key:{u.name}:{n}"))
                        elif len(set(keys)) != len(keys):
                            ubad.append((u.name, op, f"accepted ({trunc(g, 60)}) although a member repeats", f"C06:accepted-duplicate-key:{u.name}:{n}"))
            if kind == "alt":
                # oracle on Go only: an alternative spelling decodes to the same TL1 bytes as the canonical text
                c = canon_read.get(h)
                if c is not None and c.startswith("ok ") and g != c:
                    codes = diag.get(h, [])
                    if "1" in codes and g.startswith("ok "):
                        sig = "C06:F16:negzero-float-explicit-vs-omitted"
                    else:
                        sig = f"C06:alt-differs-from-canonical:{u.name}:{n}"
                    ubad.append((u.name, op, f"canonical text reads as {trunc(c, 100)}, this spelling as {trunc(g, 100)}", sig))
        # Maybe objects exhaustively (model generator jvariants): every Maybe-like object of the canonical / an alternative
        # spelling in every shape Json2ReadMaybe has a rule for, both member orders
        mv_in = [(t, n, h, rng.getrandbits(60)) for t, n, h, _ in inp]
        try:
            mvo = model_run(ref, ju, [f"mvar {t} 1 {h} {seed}" for t, n, h, seed in mv_in])
        except RuntimeError as e:
            mvo = []
            with lock:
                unit_errors.append((u.name, str(e)))
        mv_items = []
        for (t, n, h, seed), o in zip(mv_in, mvo):
            f = o.split(" ")
            if f[0] != "ok" or len(f) < 3:
                continue
            st["maybe_shapes_available"] += int(f[1])
            for it in f[2:]:
                if not it:
                    continue
                parts = it.split(":")
                mv_items.append((t, n, h, seed, parts[0], " ".join(parts[1:])))
        if mv_items:
            rc3, mgo, err3 = run_lines(u.gen.exe, [], [f"rj {n} {txt}" for t, n, h, seed, txt, verdict in mv_items], timeout=900)
            if rc3 != 0 or len(mgo) != len(mv_items):
                with lock:
                    unit_errors.append((u.name, f"go driver failed on the Maybe stream: {err3[-200:]}"))
            else:
                groups = {}
                for (t, n, h, seed, txt, verdict), g in zip(mv_items, mgo):
                    st["maybe_ops"] += 1
                    vw = verdict.split(" ")[0]
                    verd["maybe"][vw] = verd["maybe"].get(vw, 0) + 1
                    jtxt = bytes.fromhex(txt).decode("utf-8", "replace") if txt != "-" else ""
                    op = f"maybe {n} seed={seed} tl1={trunc(h, 60)} json={trunc(jtxt, 240)}"
                    if vw in ("unrep", "fuel"):
                        continue
                    if verdict != g:
                        umism.append((u.name, op, verdict, g))
                    # oracle on Go only: texts that differ only in the order of object members are read alike
                    try:
                        canon = json.dumps(json.loads(jtxt, object_pairs_hook=lambda l: ("o", sorted(((k_, json.dumps(v_, sort_keys=True)) for k_, v_ in l)))), sort_keys=True)
                    except Exception:  # noqa
                        canon = None
                    if canon is not None:
                        key = (n, h, seed, canon)
                        if key in groups and groups[key][0] != g:
                            ubad.append((u.name, op, f"read as {trunc(g, 80)}, but the same members in another order ({trunc(groups[key][1], 160)}) as {trunc(groups[key][0], 80)}",
                                         f"C06:member-order-dependent:{u.name}:{n}"))
                        elif key in groups:
                            st["maybe_order_pairs"] += 1
                        else:
                            groups[key] = (g, jtxt)
        with lock:
            for kk in st:
                if isinstance(st[kk], int):
                    stats[kk] = stats.get(kk, 0) + st[kk]
            for kind in verd:
                for vv, cc in verd[kind].items():
                    stats["verdicts"][kind][vv] = stats["verdicts"][kind].get(vv, 0) + cc
            for n, why in ju.skipped.items():
                skipped_types[f"{u.name}:{n}"] = why
            bad.extend(ubad)
            mism.extend(umism)
            for _ in range(2):
                if len(samples) < 14 and ops:
                    j = rng.randrange(len(ops))
                    if mo[j].startswith("ok "):
                        samples.append({"schema": u.name, "kind": ops[j][0], "type": ops[j][2],
                                        "json": trunc(bytes.fromhex(mo[j].split(" ")[1]).decode("utf-8", "replace") if mo[j].split(" ")[1] != "-" else "", 160),
                                        "model": trunc(" ".join(mo[j].split(" ")[3:]), 80), "go": trunc(go[j], 80)})

    with ThreadPoolExecutor(max_workers=8) as ex:
        list(ex.map(work, units))
    log(f"[C06] ops done at {time.time() - t0:.0f}s")

    pid = ctx.pid
    seen = set()
    for name, op, what, sig in bad:
        if sig in seen:
            continue
        seen.add(sig)
        ctx.violation(sig, f"{name}: JSON text is not read as the TL JSON mapping says: {trunc(op, 300)}: {trunc(what, 220)}", {"unit": name, "op": op, "go": what})
    if not ctx.violations:
        if cres.get("Prim"):
            ctx.violation(f"{pid}:tconst", "translator T-const failed: " + cres["Prim"], {"theorem": "coq/theories/Props/C06.v", "error": cres["Prim"]}, no_input=True)
        elif not thm["ok"]:
            ctx.violation(f"{pid}:theorem", f"theorem no longer checks: {thm['failing_at']}", {"theorem_file": thm["props_file"], "failing_at": thm["failing_at"], "log": thm["log_tail"]}, no_input=True)
        if berr:
            ctx.violation(f"{pid}:tools", "cannot build tl2gen/verifdump from /repo: " + trunc(berr, 600), {"error": berr}, no_input=True)
        if ref_err:
            ctx.violation(f"{pid}:model-build", "reference model does not build: " + trunc(ref_err, 600), {"error": ref_err}, no_input=True)
        for name, e in reportable_unit_errors(unit_errors, ctx)[:10]:
            ctx.violation(f"{pid}:unit:{name}", f"schema unit {name}: {trunc(e, 600)}", {"unit": name, "error": e}, no_input=True)
        for name, l, m, g in mism[:30]:
            ctx.violation(f"{pid}:corr:{name}:{trunc(l, 60)}", f"corr:C06:alt {name}: model and generated reader differ on {trunc(l, 300)}: model={trunc(m, 120)} go={trunc(g, 120)}",
                          {"correspondence": "corr:C06:alt", "unit": name, "op": l, "model": m, "go": g}, no_input=True)
    ctx.coverage.update({
        "obligations": thm["obligations"], "discharged": thm["discharged"],
        "checker_cmd": f"make -f Makefile.coq theories/{PROPS}.vo (coqc 8.16.1, full .vo build, in /verif/coq)",
        "trusted_base": ["Coq 8.16.1 kernel", "translator overlay/cmd/verifdump (kernel dump -> schema IR, --instantiateConstants as the Go generator) and lib/json_lib.py (annotated IR file writer)",
                         "translator tools/genconsts (safeSet, hex, base64 markers of pkg/basictl)", "extraction ExtrOcamlBasic only; ocaml/conv.ml, ocaml/json/jschema_io.ml, ocaml/drv_json.ml",
                         "float <-> text: strconv is an oracle (texts from strconv on the Go side; texts outside the table parsed by the C library in the model driver)",
                         "the easyjson lexer: the model reads JSON trees, Go reads their text printed by jprint (no white space, escapes as JSONWriteString makes them)",
                         "Go harness harness/go/gendrv (ops_json.go); comparison in lib/checks/C06.py",
                         "axioms: " + (", ".join(thm["axioms"]) if thm["axioms"] else "none (every theorem closed under the global context)")],
        "theorems": thm["statements"], "assumptions_per_theorem": thm["assumptions"],
        "evaluations": stats["alt_ops"] + stats["mut_ops"] + stats["maybe_ops"], "distinct_nontrivial": stats["alt_noncanonical"] + stats["mut_changed"],
        "rule": "per schema and value: k alternative spellings (jsonw_alt: numbers as strings, strings as base64 objects, empty members written / omitted, implied mask bits dropped, members reordered, "
                "enum/union/Maybe forms, variant names) and k mutations (mutate: unknown key, duplicate key, array one longer / shorter, ok:false with value, true-typed member false, type confusion) "
                "and, for every Maybe-like object anywhere in the tree, every shape Json2ReadMaybe has a rule for in BOTH member orders (jvariants: ok:false+value, ok:true+value, value alone, ok alone, duplicates, non-boolean ok, unknown key) generated by the MODEL, printed, read by the generated ReadJSONGeneral; verdict and TL1 re-encoding compared with jsonr; oracle on Go only: every alternative spelling decodes to the "
                "TL1 bytes of the canonical text, texts that differ only in member order are read alike, top-level unknown / duplicate keys are not accepted; non-trivial = spelling differs from the canonical tree",
        "stats": stats, "correspondence": "corr:C06:alt", "correspondence_mismatches": len(mism), "oracle_failures": len(bad),
        "unmodelled": {"types_skipped": dict(list(skipped_types.items())[:40]),
                       "constructs": ["byte/bit/uint64 primitives and TL2-origin types", "bytes versions", "legacy constructor spellings are only checked to be rejected (LegacyTypeNames=false)",
                                      "WrWithoutLong aliases", "white space / escape spellings of the lexer (C34 covers the primitive texts)", "JSONReadContext.IsTL2",
                                      "dictionary keys given as quoted JSON inside the key", "TL2-enabled structs whose # field is referenced, non-zero and switched off by an outer mask (model answers unrep)"]},
        "samples": samples or [{"note": "no ops ran"}],
        "schemas": [{"name": u.name, "options": u.options, "instances": len(u.ins or []), "error": trunc(u.error, 200) if u.error else None} for u in units],
    })
    ctx.assumptions += ["64-bit platform", "the templates are modelled, not verified: agreement shown on the listed schemas/values",
                        "kernel resolution trusted for repository schemas (the IR is dumped from the kernel)", "strconv float parsing is an oracle"]
