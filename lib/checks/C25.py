"""C25 -- the canonical schema listing (tl2gen --language=canonical) is faithful to the schema."""
from vlib import *
import canon_lib as cl

PROPS = "Props/C25"
FAMILY = "canon"

SIG_F12_TYPE = "C25:F12:bracket-free-type"
SIG_F12_MARK = "C25:F12:marker-dropped"
PRIMS = {"int", "long", "float", "double", "string"}
BUILTIN5 = (b"int#a8509bda ? = Int\nlong#22076cba ? = Long\nfloat#824dab22 ? = Float\n"
            b"double#2210c154 ? = Double\nstring#b5286e24 ? = String\n")
MOD_FLAG = {"any": 0, "read": 1, "write": 2, "readwrite": 3, "internal": 4, "kphp": 8}


def show(t):
    return trunc(repr(t), 200)


# ---- comparison of an input combinator with the re-parse of its listing line (oracle side, on AST dumps)

def lower_first(name):
    nm = cl.unhx(name[2])
    return nm[:1].islower()


def norm_arith(a):
    return ["a", a[1]]                      # the listing prints the value


def norm_tref(t):
    """What the CRC spelling keeps of a type reference: '%' only on names that do not start with a lower-case letter,
    arithmetic by value."""
    bare = t[2] if not lower_first(t[1]) else "0"
    args = []
    for o in t[3][1:]:
        if o[1] == "1":
            args.append(["o", "1", norm_arith(o[2])])
        else:
            args.append(["o", "0", norm_tref(o[3])])
    return ["t", t[1], bare, args]


def norm_field(f, top, strict):
    """Plain fields directly inside brackets are printed by String() and must come back exactly; repeated fields and
    top-level fields are printed in the CRC spelling.  strict=False additionally forgets what that spelling never
    prints: '!' of top-level fields, mask and '!' of repeated fields nested in brackets."""
    rep = f[cl.F_REP]
    if f[cl.F_ISREP] == "1":
        sc = rep[2]
        scale = ["s", sc[1], norm_arith(sc[2]) if sc[1] == "1" else None, sc[3]] if rep[1] == "1" else None
        body = [norm_field(g, False, strict) for g in rep[3][1:]]
        return ["rep", f[cl.F_NAME], f[cl.F_MASK] if (top or strict) else "-", f[cl.F_EXCL] if strict else "0", rep[1], scale, body]
    if top:
        return ["fld", f[cl.F_NAME], f[cl.F_MASK], f[cl.F_EXCL] if strict else "0", norm_tref(f[cl.F_TYPE])]
    return ["raw", f]


def flat_ok(d):
    """No top-level field type (or argument of a function result) is an application: the bracket-free spelling is
    unambiguous exactly then."""
    for f in d[cl.C_FIELDS][1:]:
        if f[cl.F_ISREP] == "0" and len(f[cl.F_TYPE][3]) > 1:
            return False
    if d[cl.C_ISFUNC] == "1":
        for o in d[cl.C_FUNC][3][1:]:
            if o[1] == "0" and len(o[3][3]) > 1:
                return False
    return True


def compare(d, r):
    """Categories in which the re-parsed listing line r differs from the input combinator d."""
    cats = []
    if d[cl.C_NAME] != r[cl.C_NAME]:
        cats.append("name")
    if d[cl.C_ID] != r[cl.C_ID] or r[cl.C_EXPL] != "1":
        cats.append("tag")
    if d[cl.C_TARGS] != r[cl.C_TARGS]:
        cats.append("template-args")
    if sorted(d[cl.C_MODS][1:]) != sorted(r[cl.C_MODS][1:]):
        cats.append("annotations")
    if d[cl.C_BUILTIN] != r[cl.C_BUILTIN]:
        cats.append("builtin")
    if d[cl.C_ISFUNC] != r[cl.C_ISFUNC]:
        cats.append("function")
    if d[cl.C_ISFUNC] == "1":
        if norm_tref(d[cl.C_FUNC]) != norm_tref(r[cl.C_FUNC]):
            cats.append("result")
    elif d[cl.C_DECL] != r[cl.C_DECL]:
        cats.append("result")
    fd = [norm_field(f, True, True) for f in d[cl.C_FIELDS][1:]]
    fr = [norm_field(f, True, True) for f in r[cl.C_FIELDS][1:]]
    if fd != fr:
        fd2 = [norm_field(f, True, False) for f in d[cl.C_FIELDS][1:]]
        fr2 = [norm_field(f, True, False) for f in r[cl.C_FIELDS][1:]]
        cats.append("fields-marker" if fd2 == fr2 else "fields")
    return cats


def gen_ops(ctx):
    rng = ctx.rng
    quick = ctx.quick()
    h = cl.Harness(ctx)
    ctx.c25 = st = {"err": None}
    if not h.ok():
        st["err"] = h.err
        return []
    g = cl.Gen(rng)
    files = cl.corpus()
    items = [(t, "d", "repo-schema", p) for p, t in files]
    for _ in range(1500 if quick else 12000):
        c = g.comb()
        if rng.random() < 0.06:
            c["name"] = g.ident(False, 5) + "." + rng.choice(sorted(PRIMS))
        items.append((g.text(c, True, "rand"), "", "random-combinator" if "." not in c["name"] or c["name"].split(".")[1] not in PRIMS
                      else "random-schema", None))
    for _ in range(60 if quick else 600):
        toks = []
        for _ in range(rng.randrange(2, 9)):
            c = g.comb()
            q = rng.random()
            if q < 0.1:
                c["name"] = rng.choice(sorted(PRIMS))     # skipped by the listing
            elif q < 0.3:                                 # NOT skipped: namespaced / longer names
                pn = rng.choice(sorted(PRIMS))
                c["name"] = rng.choice([g.ident(False, 5) + "." + pn, pn + rng.choice(["x", "2", "_", "er"]),
                                        g.ident(False, 5) + "." + pn + rng.choice(["x", "2"]), "x" + pn])
            toks += g.t_comb(c, True, arrow=c["func"])
        items.append((g.render(toks, "rand"), "", "random-schema", None))
    n_valid = 12 if quick else 120
    valid = [cl.valid_schema(rng) for _ in range(n_valid)]
    for v in valid:
        items.append((v, "d", "valid-schema", None))
    res = h.parse([(t, o) for t, o, _, _ in items])
    st["items"], st["res"] = items, res

    # ---- the real generator: tl2gen --language=canonical on repository schemas and on the valid random schemas
    st["tl2gen"] = runs = []
    rc, so, se = sh(["go", "build", "-o", str(ctx.scratch / "tl2gen"), "./cmd/tl2gen"], cwd=REPO, env=goenv(), timeout=900)
    if rc != 0:
        st["err"] = "cannot build cmd/tl2gen: " + (so + se)[-1500:]
        return []
    tls = REPO / "internal/tlcodegen/test/tls"
    jobs = [[tls / "cases.tl"], [tls / "goldmaster.tl", tls / "goldmaster2.tl", tls / "goldmaster3.tl"], [tls / "schema.tl"],
            [REPO / "pkg/rpc/rpc.tl"], [REPO / "internal/tlast/tls.tl"], [REPO / "cmd/tl2client/test.tl"]]
    for i, v in enumerate(valid):
        p = ctx.scratch / f"valid{i}.tl"
        p.write_text(v)
        jobs.append([p])
    by_path = {p: k for k, (_, _, _, p) in enumerate(items) if p}
    for ji, job in enumerate(jobs):
        if not all(p.exists() for p in job):
            continue
        outf = ctx.scratch / f"listing{ji}.txt"
        rc, so, se = sh([str(ctx.scratch / "tl2gen"), "--language=canonical", f"--outfile={outf}"] + [str(p) for p in job],
                        cwd=ctx.scratch, env=goenv(), timeout=300)
        parsed = []
        for p in job:
            k = by_path.get(str(p))
            if k is None:
                k = len(items) - n_valid + (ji - (len(jobs) - n_valid))
            parsed.append((str(p), res[k]))
        runs.append({"job": [str(p) for p in job], "rc": rc, "log": (so + se)[-800:], "out": outf.read_bytes() if (rc == 0 and outf.exists()) else None,
                     "parsed": parsed})

    # ---- ops for the model
    ops, go, seen = [], [], set()
    for (text, o, kind, path), p in zip(items, res):
        if not p.ok:
            continue
        for c in p.combs:
            op = f"c25 {c['dump']}"
            if op not in seen:
                seen.add(op)
                ops.append((op, kind + ":line", path or text))
                go.append(cl.hx(c["line"]) + " 1")
        if kind != "random-combinator":
            op = "c25l " + " ".join("762e746c " + c["dump"] for c in p.combs)     # file name "v.tl"
            if op not in seen:
                seen.add(op)
                ops.append((op, kind + ":Generate2TL", path or text))
                go.append(cl.hx(p.listing))
    for r in runs:
        if r["out"] is None or not all(p.ok for _, p in r["parsed"]):
            continue
        op = "c25l " + " ".join(cl.hx(path) + " " + c["dump"] for path, p in r["parsed"] for c in p.combs)
        ops.append((op, "tl2gen:" + ("repo" if "/valid" not in r["job"][0] else "valid-schema"), " ".join(r["job"])))
        go.append(cl.hx(r["out"]))
    st["go"] = go
    ctx.notes["texts_parsed"] = len(items)
    ctx.notes["tl2gen_runs"] = len(runs)
    return ops


def go_runner(ctx, lines):
    if ctx.c25["err"]:
        return None, ctx.c25["err"]
    return ctx.c25["go"], ""


def oracle(ctx, ops, go_out):
    st = ctx.c25
    bad = []
    if st["err"]:
        return bad
    h = cl.Harness(ctx)
    items, res = st["items"], st["res"]
    # ---- shape of Generate2TL on Go's own output: 5 builtin lines + one line per combinator not named like a primitive
    for (text, o, kind, path), p in zip(items, res):
        src = path or text
        if not p.ok:
            if kind != "repo-schema":
                bad.append((show(text), "parse", p.err, f"C25:generated-text-rejected:{trunc(text, 60)}"))
            continue
        want = BUILTIN5
        nlisted = 0
        for c in p.combs:
            d = cl.sexp(c["dump"])
            if cl.name_str(d[cl.C_NAME]) in PRIMS:
                continue
            nlisted += 1
            want += c["line"] + b" //  v.tl\n"
        if p.listing.count(b"\n") != 5 + nlisted:
            bad.append((show(src), "line-count", f"{p.listing.count(10)} lines for {nlisted} listed combinators", f"C25:line-count:{trunc(src, 60)}"))
        elif p.listing != want:
            bad.append((show(src), "listing-lines", "listing is not builtins + one canonicalFormWithTag line per combinator", f"C25:listing-lines:{trunc(src, 60)}"))
    # ---- the real tl2gen output: same check against a fresh parse of the same files
    nrun = 0
    for r in st["tl2gen"]:
        job = " ".join(r["job"])
        if r["rc"] != 0 or r["out"] is None:
            if "/valid" not in job:
                bad.append((job, "tl2gen", f"tl2gen failed rc={r['rc']}: {r['log'][-300:]}", f"C25:tl2gen-failed:{job}"))
            continue
        nrun += 1
        want = BUILTIN5
        n = 0
        for path, p in r["parsed"]:
            for c in p.combs:
                d = cl.sexp(c["dump"])
                if cl.name_str(d[cl.C_NAME]) in PRIMS:
                    continue
                n += 1
                want += c["line"] + b" //  " + path.encode() + b"\n"
        lines = r["out"].split(b"\n")
        if r["out"].count(b"\n") != 5 + n:
            bad.append((job, "tl2gen-line-count", f"{r['out'].count(10)} lines for {n} combinators (+5 builtins)", f"C25:tl2gen-line-count:{job}"))
        elif r["out"] != want:
            k = next(i for i, (a, b) in enumerate(zip(lines, want.split(b"\n"))) if a != b)
            bad.append((job, "tl2gen-lines", f"line {k + 1}: {show(lines[k])} expected {show(want.split(bytes([10]))[k])}", f"C25:tl2gen-lines:{job}"))
    ctx.notes["tl2gen_runs_ok"] = nrun
    # ---- re-parse every distinct listing line, terminated with ';' (function lines inside a functions section)
    todo, seen = [], set()
    for (text, o, kind, path), p in zip(items, res):
        if not p.ok:
            continue
        for c in p.combs:
            if c["dump"] in seen:
                continue
            seen.add(c["dump"])
            d = cl.sexp(c["dump"])
            line = c["line"].decode("utf-8", "surrogateescape")
            todo.append((d, c, ("---functions---\n" if d[cl.C_ISFUNC] == "1" else "") + line + ";", path or text))
    again = h.parse([(t, "d") for _, _, t, _ in todo])
    stats = {"faithful": 0, "F12-unparsable": 0, "F12-different-fields": 0, "F12-marker-dropped": 0, "other": 0}
    rep_type = rep_excl = False
    for (d, c, t, src), q in zip(todo, again):
        name = cl.name_str(d[cl.C_NAME])
        flat = flat_ok(d)
        if not q.ok or len(q.combs) != 1:
            if not flat:
                stats["F12-unparsable"] += 1
                if not rep_type:
                    rep_type = True
                    bad.append((show(t), "reparse-line", f"listing line does not re-parse: {q.err if not q.ok else str(len(q.combs)) + ' combinators'}", SIG_F12_TYPE))
            else:
                stats["other"] += 1
                bad.append((show(t), "reparse-line", f"listing line does not re-parse: {q.err if not q.ok else str(len(q.combs)) + ' combinators'}", f"C25:line-unparsable:{name}"))
            continue
        cats = compare(d, cl.sexp(q.combs[0]["dump"]))
        if not cats:
            stats["faithful"] += 1
            continue
        hard = [x for x in cats if x not in ("fields", "fields-marker", "result")]
        if not hard and not flat:
            stats["F12-different-fields"] += 1
            if not rep_type:
                rep_type = True
                bad.append((show(t), "reparse-line", f"listing line re-parses with different {cats} (type applications are listed without brackets)", SIG_F12_TYPE))
        elif cats == ["fields-marker"]:
            stats["F12-marker-dropped"] += 1
            if not rep_excl:
                rep_excl = True
                bad.append((show(t), "reparse-line", "listing line drops the '!' marker of a field (or the mask/'!' of a repeat nested in brackets); input " + show(c["str"]), SIG_F12_MARK))
        else:
            stats["other"] += 1
            bad.append((show(t), "reparse-line", f"listing line re-parses with different {cats}; input {show(c['str'])}", f"C25:line-{(hard or cats)[0]}:{name}"))
    ctx.notes["listing_lines_reparsed"] = len(todo)
    ctx.notes["reparse_verdicts"] = stats
    return bad


def run(ctx):
    standard_run(
        ctx, props=PROPS, family=FAMILY, consts=["Canon"], go_runner=go_runner, gen_ops=gen_ops, oracle=oracle,
        corr_name="corr:C25:canon",
        trusted=["translator: AST dump in overlay/internal/tlast/verif_canon_test.go (Go AST -> S-expression) and its reader in ocaml/drv_canon.ml",
                 "generator/oracle in lib/checks/C25.py and lib/canon_lib.py (comparison of re-parsed listing lines on AST dumps, "
                 "modulo: tag always explicit after re-parse, annotation order, '%' on lower-case names, arithmetic by value)",
                 "lexer/parser are not modelled in this family: re-parsing of listing lines is done by the real ParseTLFile"],
        assumptions=["at most 12 annotations per combinator (sort.Slice is a stable insertion sort only up to 12 elements)",
                     "function lines are re-parsed inside a ---functions--- section (the listing itself does not mark functions)",
                     "Go code is modelled, not verified: agreement is established on the operations listed under op_kinds"],
        rule="every distinct combinator AST (repository .tl files, random combinators/schemas from VERIF_SEED) is one op: model canon_line vs Go "
             "canonicalFormWithTag(); every schema one op: model listing vs Go Generate2TL(); every tl2gen run one op: model listing vs the file "
             "written by the freshly built tl2gen --language=canonical; distinct = distinct op lines")
