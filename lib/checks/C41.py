"""C41 -- ordered AVL tree map and circular slice match reference containers (internal/vkgo/pkg/algo)."""
import itertools
import re

from vlib import *

PROPS = "Props/C41"
FAMILY = "algo"
PKG = "internal/vkgo/pkg/algo"
OVERLAY = VERIF / "overlay" / PKG / "verif_algo_test.go"

# stable signatures of the defects known on the unchanged tree (see the final report / known_findings.json)
SIG_F10 = "C41:tree:true-balance-2:new-node-cached-height-0"
SIG_OOB = "C41:ring:index-past-len-not-detected"

TREE_TAIL = ["D", "f", "b", "e", "m"]
RING_TAIL = ["l", "S", "D", "f"]


# --------------------------------------------------------------------------- generators

def tree_line(muts, keys_to_get):
    return "T " + " ".join(muts + TREE_TAIL + [f"g{k}" for k in keys_to_get])


def gen_tree(ctx, ops):
    rng, quick = ctx.rng, ctx.quick()
    # (a) every history of Set/Delete over keys 0..4 up to a length (values = position, so all distinct)
    K = 5
    L = 5 if quick else 6
    alpha = [("s", k) for k in range(K)] + [("d", k) for k in range(K)]
    getk = list(range(K))
    for n in range(0, L + 1):
        for h in itertools.product(alpha, repeat=n):
            muts = [f"s{k},{i + 1}" if c == "s" else f"d{k}" for i, (c, k) in enumerate(h)]
            ops.append((tree_line(muts, getk), "tree_exh_set_del", None))
    ctx.notes["tree_exhaustive"] = f"all Set/Delete histories of length <= {L} over keys 0..{K - 1}"
    # (b) every insertion order of length 6..7 over keys 0..4 / 0..6 (shapes reachable by Set only), then one Delete
    for n, kk in ((6, 5), (7, 5)) if quick else ((7, 5), (7, 6), (8, 5)):
        for h in itertools.product(range(kk), repeat=n):
            muts = [f"s{k},{i + 1}" for i, k in enumerate(h)]
            muts.append(f"d{rng.randrange(kk)}")
            ops.append((tree_line(muts, []), "tree_exh_sets_then_del", None))
    # (c) Set/Delete/assign-through-GetPtr over 3 keys
    alpha3 = [(c, k) for c in "sdu" for k in range(3)]
    for n in range(1, (4 if quick else 5) + 1):
        for h in itertools.product(alpha3, repeat=n):
            muts = [f"{c}{k},{i + 1}" if c in "su" else f"d{k}" for i, (c, k) in enumerate(h)]
            ops.append((tree_line(muts, [0, 1, 2]), "tree_exh_set_del_assign", None))
    # (d) long random histories over keys 0..30 (and a few over a wide domain), dumps in between
    nrand = 2500 if quick else 20000
    for j in range(nrand):
        style = j % 6
        wide = j % 50 == 49
        kmax = 400 if wide else 30
        n = rng.randrange(1, 400)
        toks = []
        if style == 0:      # ascending then descending runs (the F10 shapes), then deletions
            ks = list(range(rng.randrange(1, kmax + 1)))
            if rng.random() < 0.5:
                ks.reverse()
            seq = [("s", k) for k in ks]
            dl = ks[:]
            rng.shuffle(dl)
            seq += [("d", k) for k in dl[:rng.randrange(len(dl) + 1)]]
        elif style == 1:    # fill, then delete everything in random order
            ks = [rng.randrange(kmax + 1) for _ in range(n // 2 + 1)]
            dl = list(set(ks))
            rng.shuffle(dl)
            seq = [("s", k) for k in ks] + [("d", k) for k in dl]
        else:
            pdel = rng.choice([0.1, 0.3, 0.5, 0.6])
            seq = []
            for _ in range(n):
                x = rng.random()
                k = rng.randrange(-1, kmax + 2)
                if x < pdel:
                    seq.append(("d", k))
                elif x < pdel + 0.08:
                    seq.append(("u", k))
                elif x < pdel + 0.20:
                    seq.append((rng.choice("gfbemD"), k))
                else:
                    seq.append(("s", k))
        for i, (c, k) in enumerate(seq):
            if c in "su":
                toks.append(f"{c}{k},{i + 1}")
            elif c in "dg":
                toks.append(f"{c}{k}")
            else:
                toks.append(c)
            if rng.random() < 0.04:
                toks.append("D")
        toks += TREE_TAIL + [f"g{rng.randrange(-1, kmax + 2)}" for _ in range(3)]
        ops.append(("T " + " ".join(toks), "tree_random_wide" if wide else "tree_random", None))


def gen_ring(ctx, ops):
    rng, quick = ctx.rng, ctx.quick()
    # (a) every history over a small alphabet; Reserve(2)/Reserve(3) give capacities small enough to wrap around
    alpha = ["p", "o", "r2", "r3", "c", "w", "a"]
    L = 6 if quick else 7
    idx = [f"i{p}" for p in range(-1, 5)]
    for n in range(0, L + 1):
        for h in itertools.product(alpha, repeat=n):
            toks = [f"p{i + 1}" if c == "p" else c for i, c in enumerate(h)]
            ops.append(("R " + " ".join(toks + RING_TAIL + idx), "ring_exh", None))
    ctx.notes["ring_exhaustive"] = f"all histories of length <= {L} over PushBack, PopFront, Reserve(2), Reserve(3), Clear, Swap, DeepAssign"
    # (b) long random histories: push/pop biased so that the window wraps, growth, reserve, index everywhere
    nrand = 2500 if quick else 20000
    for j in range(nrand):
        n = rng.randrange(1, 300)
        ppush = rng.choice([0.35, 0.45, 0.5, 0.55, 0.7])
        toks = []
        if rng.random() < 0.7:
            toks.append(f"r{rng.randrange(0, 12)}")
        val = 0
        for _ in range(n):
            x = rng.random()
            if x < ppush:
                val += 1
                toks.append(f"p{val}")
            elif x < ppush + 0.30:
                toks.append("o")
            elif x < ppush + 0.36:
                toks.append(f"i{rng.randrange(-2, 40)}")
            elif x < ppush + 0.39:
                toks.append(f"r{rng.randrange(-1, 50)}")
            elif x < ppush + 0.40:
                toks.append("c")
            elif x < ppush + 0.42:
                toks.append("w")
            elif x < ppush + 0.43:
                toks.append("a")
            else:
                toks.append(rng.choice(["l", "S", "D", "f"]))
        toks += RING_TAIL + [f"i{p}" for p in range(-1, 12)]
        ops.append(("R " + " ".join(toks), "ring_random", None))


def gen_ops(ctx):
    ops = []
    gen_tree(ctx, ops)
    gen_ring(ctx, ops)
    # malformed / degenerate lines: both drivers must agree on them too
    ops.append(("T", "degenerate", None))
    ops.append(("R", "degenerate", None))
    return ops


# --------------------------------------------------------------------------- oracle (Go outputs only)

TOK = re.compile(r"\(|\)|\.|-?\d+:-?\d+:-?\d+")


def parse_tree(s):
    """'.' | '(' tree ',' k:v:h ',' tree ')'  ->  nested tuples (l, k, v, h, r) or None; iterative."""
    toks = TOK.findall(s)
    if "".join(toks) != s.replace(",", ""):
        raise ValueError("bad dump")
    pos = 0

    def rec():
        nonlocal pos
        t = toks[pos]
        pos += 1
        if t == ".":
            return None
        if t != "(":
            raise ValueError("bad dump")
        l = rec()
        k, v, h = toks[pos].split(":")
        pos += 1
        r = rec()
        if toks[pos] != ")":
            raise ValueError("bad dump")
        pos += 1
        return (l, int(k), int(v), int(h), r)

    t = rec()
    if pos != len(toks):
        raise ValueError("bad dump")
    return t


def tree_facts(t, out, problems):
    """returns (true height, cached height); appends in-order entries to out, shape problems to problems"""
    if t is None:
        return 0, 0
    l, k, v, h, r = t
    thl, chl = tree_facts(l, out, problems)
    out.append((k, v))
    thr, chr_ = tree_facts(r, out, problems)
    leaf = l is None and r is None
    if not (h == 1 + max(chl, chr_) or (leaf and h == 0)):
        problems.add("cached-height-inconsistent")
    if abs(chr_ - chl) > 1:
        problems.add("cached-imbalance")
    tb = abs(thr - thl)
    if tb == 2:
        problems.add("true-balance-2")
    elif tb > 2:
        problems.add("true-balance-over-2")
    return 1 + max(thl, thr), h


def check_tree_line(op, out):
    """returns a set of problem names"""
    toks_in = op.split()[1:]
    f = out.split(" ")
    if f[0] != "ok":
        return {"panic-inside-tree-code"}
    toks_out = f[1:]
    if len(toks_out) != len(toks_in):
        return {"token-count"}
    ref = {}
    bad = set()
    for ti, to in zip(toks_in, toks_out):
        c = ti[0]
        if to[0] != c:
            bad.add("token-kind")
            continue
        if c == "s":
            k, v = ti[1:].split(",")
            ref[int(k)] = int(v)
        elif c == "d":
            ref.pop(int(ti[1:]), None)
        elif c == "u":
            k, v = ti[1:].split(",")
            if (to == "u1") != (int(k) in ref):
                bad.add("getptr-presence")
            if int(k) in ref:
                ref[int(k)] = int(v)
        elif c == "g":
            want = ref.get(int(ti[1:]))
            if to != ("g-" if want is None else f"g{want}"):
                bad.add("get")
        elif c in "fb":
            if not ref:
                want = c + "!"
            else:
                k = min(ref) if c == "f" else max(ref)
                want = f"{c}{k},{ref[k]}"
            if to != want:
                bad.add("front" if c == "f" else "back")
        elif c == "e":
            if to != ("e1" if not ref else "e0"):
                bad.add("empty")
        elif c == "m":
            if to != ("m1" if len(ref) > 1 else "m0"):
                bad.add("len-more-than-1")
        elif c == "D":
            parts = to[1:].split(";")
            if "ALIASED" in parts:
                bad.add("nodes-shared")
            try:
                t = parse_tree(parts[0])
            except (ValueError, IndexError):
                bad.add("dump-unparsable")
                continue
            inorder, probs = [], set()
            th, _ = tree_facts(t, inorder, probs)
            bad |= probs
            if inorder != sorted(ref.items()):
                bad.add("contents-or-order")     # BST order + map contents in one comparison
            if parts[1] != f"live={len(ref)}":
                bad.add("allocator-balance")
            # logarithmic height (what is proved for the code as it is: 2^((h-1)/2) <= n+1)
            if th >= 1 and 2 ** ((th - 1) // 2) > len(ref) + 1:
                bad.add("height-not-logarithmic")
    return bad


def parse_list(s):
    return [int(x) for x in s.split(",")] if s else []


def check_ring_raw(raw, q, need_cap, bad):
    m = re.fullmatch(r"(-?\d+),(-?\d+),\[([-\d,]*)\]", raw)
    if not m:
        bad.add("dump-unparsable")
        return
    rd, wr, el = int(m.group(1)), int(m.group(2)), parse_list(m.group(3))
    cap = len(el)
    if not (0 <= rd and (rd < cap or (cap == 0 and rd == 0)) and rd <= wr <= rd + cap):
        bad.add("position-invariant")
        return
    win = [(el + el)[i] for i in range(rd, wr)]
    if win != q:
        bad.add("contents")
    used = {i % cap for i in range(rd, wr)} if cap else set()
    if any(el[i] != 0 for i in range(cap) if i not in used):
        bad.add("stale-slot-not-cleared")
    if cap < need_cap:
        bad.add("reserve-ignored")


def check_ring_line(op, out):
    toks_in = op.split()[1:]
    f = out.split(" ")
    if f[0] != "ok":
        return {"internal-panic"}
    toks_out = f[1:]
    if len(toks_out) != len(toks_in):
        return {"token-count"}
    qa, qb = [], []
    na, nb = 0, 0        # capacities promised by Reserve
    bad = set()
    for ti, to in zip(toks_in, toks_out):
        c = ti[0]
        if to[0] != c:
            bad.add("token-kind")
            continue
        if c == "p":
            qa.append(int(ti[1:]))
        elif c == "o":
            want = f"o{qa.pop(0)}" if qa else "o!empty"
            if to != want:
                bad.add("pop-front")
        elif c == "f":
            want = f"f{qa[0]}" if qa else "f!empty"
            if to != want:
                bad.add("front")
        elif c == "i":
            p = int(ti[1:])
            if p < 0:
                if to != "i!neg":
                    bad.add("index-negative")
            elif p < len(qa):
                if to != f"i{qa[p]}":
                    bad.add("index")
            elif to != "i!range":
                bad.add("index-past-len-not-detected" if to == "i0" else "index-past-len-stale-value")
        elif c == "r":
            na = max(na, int(ti[1:]))
        elif c == "c":
            qa = []
        elif c == "w":
            qa, qb, na, nb = qb, qa, nb, na
        elif c == "a":
            qb, nb = list(qa), na
        elif c == "l":
            ln, cap = to[1:].split(",")
            if int(ln) != len(qa):
                bad.add("len")
            if int(cap) < max(len(qa), na):
                bad.add("cap")
        elif c == "S":
            s1, s2 = to[1:].split("|")
            if parse_list(s1) + parse_list(s2) != qa:
                bad.add("slices")
        elif c == "D":
            ra, rb = to[1:].split("/")
            check_ring_raw(ra, qa, na, bad)
            check_ring_raw(rb, qb, nb, bad)
    return bad


def oracle(ctx, ops, go_out):
    """The property evaluated on the implementation's own outputs against Python dict / list
    references.  One representative (the shortest history) per kind of failure."""
    best = {}
    counts = {}
    for (op, kind, _), out in zip(ops, go_out):
        if kind == "degenerate":
            continue
        if op[0] == "T":
            probs = check_tree_line(op, out)
            fam = "tree"
        else:
            probs = check_ring_line(op, out)
            fam = "ring"
        if not probs:
            continue
        # F10 explains a true balance of exactly 2 while the cached heights are consistent and balanced
        if fam == "tree" and "true-balance-2" in probs and not (
                probs & {"cached-height-inconsistent", "cached-imbalance", "true-balance-over-2"}):
            probs.discard("true-balance-2")
            probs.add("F10")
        for p in probs:
            if p == "F10":
                sig = SIG_F10
            elif p == "index-past-len-not-detected":
                sig = SIG_OOB
            else:
                sig = f"C41:{fam}:{p}"
            counts[sig] = counts.get(sig, 0) + 1
            if sig not in best or len(op) < len(best[sig][0]):
                best[sig] = (op, f"{fam}:{p}", out, sig)
    ctx.notes["oracle_failure_counts"] = counts
    known_first = sorted(best.values(), key=lambda b: (b[3] in (SIG_F10, SIG_OOB), b[3]))
    return known_first


def go_runner(ctx, lines):
    binary, err = build_overlay_test(PKG, {"verif_algo_test.go": OVERLAY}, ctx.scratch)
    if not binary:
        return None, err
    rc, out, log_ = run_overlay_test(binary, "TestVerifAlgo", lines, ctx.scratch)
    if rc != 0:
        return None, f"overlay test exit {rc}: {log_[-600:]}"
    return out, ""


def run(ctx):
    standard_run(
        ctx, props=PROPS, family=FAMILY, consts=["Algo"], go_runner=go_runner, gen_ops=gen_ops, oracle=oracle,
        corr_name="corr:C41:algo",
        trusted=["translator tools/genconsts (go/parser; literal of n.height = ... in insert, tree_map.go)",
                 "in-package overlay harness overlay/internal/vkgo/pkg/algo/verif_algo_test.go (go test -overlay, tag verif) "
                 "and the comparison/oracle in lib/checks/C41.py"],
        assumptions=["keys are integers ordered by < (the Go code is generic in a comparator; the harness instantiates int64)",
                     "int32 heights / int positions do not wrap (heights <= 2 log2(n+1) + 2 by C41_height_logarithmic)",
                     "nodes reachable from root form a tree and the allocator returns zeroed unshared nodes "
                     "(checked on every dump of the correspondence run: ALIASED marker)",
                     "Go code is modelled, not verified: agreement is established on the histories listed under op_kinds"],
        rule="one evaluation = one operation history (generated from VERIF_SEED) run on the real TreeMap / CircularSlice "
             "(in-package test binary rebuilt from /repo) and on the extracted Coq model, outputs compared token by token "
             "(observations, full tree shape with cached heights, raw ring fields); distinct = distinct history lines")
