"""C08 -- generated readers are total and bounded.

(1) every kernel dump: wf_schema and an explicit ranking checked by the extracted `ranked`
    (theorem C08_total_ranked then applies); kernel-accepted schemas without a ranking are F1-type:
    a diverging input is built from the cycle, predicted by the model and replayed on Go;
(2) hostile byte strings read by the freshly generated TL1 readers under a memory limit: Go must
    return normally and agree with the model run with exactly the fuel of the theorem; allocation
    per read is measured and compared with the per-call bound of part (D);
(3) TL2 / JSON readers and the function-result transcoders: Go-only totality oracle (supporting
    evidence; these readers are not modelled by this property's theorems)."""
import random
import threading
from concurrent.futures import ThreadPoolExecutor

from vlib import *
from gencommon import *
import total_lib as tlb

PROPS = "Props/C08"
FAMILY = "total"
F1_SIG = "C08:F1:reader-diverges-external-mask-recursion"
F1B_SIG = "C08:F1:reader-diverges-unmasked-recursion"
F1J_SIG = "C08:F1:json-or-tl2-reader-diverges-on-unranked-schema"
AMP_SIG = "C08:alloc:total-allocation-superlinear-zero-size-elements"
F19_SIG = "C08:json:reader-allocates-tuple-by-nat-member"
F20_SIG = "C08:default-fill:diverges-infinite-default-value"
F21_SIG = "C08:reset:recursion-union-first-variant-contains-itself"
DRIVER_FILES = ["main.go", "ops_tl1.go", "ops_total.go"]

F1_SCHEMA = """
rec.a {n:#} x:n.0?(rec.a n) y:int = rec.A n;
rec.b m:# v:(rec.a m) = rec.B;
"""
# no mask at all: the kernel's cycle finder sees this one, but its verdict is discarded (kernel.go: `_ = cf.printCycle()`)
F1U_SCHEMA = """
rec.c x:%rec.c y:int = rec.C;
"""
# total for TL1 (value:int is read before every recursion) but not for JSON: an absent member is filled with
# defaults by recursion that consumes nothing and keeps the external mask
JD_SCHEMA = """
jd.tree {m:#} value:int left:m.0?(jd.tree m) right:m.1?(jd.tree m) = jd.Tree m;
jd.top m:# t:(jd.tree m) = jd.Top;
"""
# Reset() of a union whose first variant holds the union again under a LOCAL mask: the TL default value is finite
# (mask 0, field absent) but the generated Reset() ignores masks
RZ_SCHEMA = """
rz.c0 f0:# f1:f0.1?rz.U = rz.U;
rz.c1 f0:int = rz.U;
rz.top x:rz.U = rz.Top;
"""
# elements that occupy zero bytes on the wire (all fields masked out) inside nested sequences
AMP_SCHEMA = """
amp.e {n:#} x:n.0?long y:n.1?long = amp.E n;
amp.w n:# v:(vector (vector (amp.e n))) = amp.W;
"""

A0 = 16384         # constant part of a read's allocation (error values, top-level boxes)
CSLACK = 4         # slack factor of the per-call bound


def amp_input(L):
    """amp.w with n = 0: L/8 inner vectors, each with the largest count the sanity check admits"""
    n1 = L // 8
    total = 8 + 4 * n1 + L // 2
    parts = [(0).to_bytes(4, "little"), n1.to_bytes(4, "little")]
    rem = total - 8
    for _ in range(n1):
        rem -= 4
        parts.append((rem // 4).to_bytes(4, "little"))
    parts.append(bytes(rem))
    return b"".join(parts)


def sane_specs(ctx, n):
    """random schemas, generated with the default options (length sanity on)"""
    import randschema
    specs = []
    for name, files, opts, wl, _san in randschema.make_specs(ctx, n, tl2=False):
        opts = [o for o in opts if not o.startswith("--checkLengthSanity")]
        specs.append((name, files, opts, wl, True))
    return specs


def fixed_unit(ctx, name, body):
    import randschema
    d = Path(ctx.scratch) / f"fx_{name}"
    d.mkdir(exist_ok=True)
    p = d / "s.tl"
    p.write_text(randschema.HEADER + body)
    return (name, [p], [], None, True)


def split_go(g):
    """'verdict | alloc mallocs' -> (verdict, alloc, mallocs)"""
    if " | " in g:
        v, a = g.split(" | ", 1)
        a = a.split(" ")
        return v, int(a[0]), int(a[1])
    return g, None, None


def run(ctx):
    quick = ctx.quick()
    with Lock():
        cres = run_genconsts()
        thm = check_theorems(PROPS)
        try:
            ref, ref_err = build_refmodel(FAMILY), None
            ref1 = build_refmodel("tl1")
        except RuntimeError as e:
            ref, ref1, ref_err = None, None, str(e)
    log('[C08] coq+model ready', round(time.time() - ctx.t0))
    bins, berr = build_tools(ctx.scratch)
    units = []
    if not berr:
        corpus = [c for c in repo_corpus(quick) if c[4] and not (quick and c[0] == 'goldmaster')]
        vrng = random.Random(ctx.rng.getrandbits(64))
        specs = corpus + [fixed_unit(ctx, "f1", F1_SCHEMA), fixed_unit(ctx, "f1u", F1U_SCHEMA), fixed_unit(ctx, "amp", AMP_SCHEMA), fixed_unit(ctx, "jd", JD_SCHEMA), fixed_unit(ctx, "rz", RZ_SCHEMA)] + \
            [fixed_unit(ctx, f"fv{i}", tlb.f1_variant(vrng)) for i in range(2 if quick else 12)] + sane_specs(ctx, 6 if quick else 40)
        units = prepare_units(ctx, specs, bins, driver_files=DRIVER_FILES)
    log('[C08] units ready', round(time.time() - ctx.t0))
    nvals = 3 if quick else 12
    nmut = 4 if quick else 12
    stats = {"schemas": 0, "types": 0, "tl1_reads": 0, "valid": 0, "mutated": 0, "hostile_count": 0, "truncated": 0, "deep": 0, "random": 0,
             "tl2_reads": 0, "json_reads": 0, "transcodes": 0, "kernel_rejected": 0, "not_built_c14": 0, "not_run_after_many_crashes": 0, "ranked_units": 0, "unranked_units": 0,
             "unranked_no_divergence_found": 0, "diverging_inputs": 0, "max_rank": 0, "max_fuel_used": 0, "max_depth_input": 0}
    ratio = {"max_alloc_per_call_bound": 0.0, "max_alloc_per_input_byte_x_elemsize": 0.0, "max_alloc_bytes": 0}
    verdicts, mism, bad, samples, unit_errors, unit_notes = {}, [], [], [], [], []
    lock = threading.Lock()
    rngs = {u.name: random.Random(ctx.rng.getrandbits(64)) for u in units}

    def work(u):
        rng = rngs[u.name]
        is_repo = not (u.name.startswith(("rs", "fv")) or u.name in ("f1", "f1u", "amp", "jd", "rz"))
        if u.kernel_rejected and not is_repo:
            with lock:
                stats["kernel_rejected"] += 1
                unit_notes.append({"unit": u.name, "note": "rejected by the kernel: " + trunc(u.error, 160)})
            return
        if not is_repo and (u.gen_failed or (u.error or "").startswith("go build")):
            # generated code that does not build / generator refusal is C14's business: nothing to read here
            with lock:
                stats["not_built_c14"] += 1
                unit_notes.append({"unit": u.name, "note": "generator failed or generated code does not build (property C14): " + trunc((u.error or "").splitlines()[-1] if u.error else "", 200)})
            return
        if u.error or not u.gen:
            with lock:
                unit_errors.append((u.name, u.error))
            return
        if ref is None:
            return
        ubad, umism, uverd, ust = [], [], {}, {k: 0 for k in stats}
        ust["schemas"] = 1

        def vd(kind, v):
            uverd[f"{kind}:{v}"] = uverd.get(f"{kind}:{v}", 0) + 1

        rc, items, err = run_lines(u.gen.exe, [], ["items"])
        have, funs = set(), set()
        if items and items[0].startswith("ok "):
            for it in items[0][3:].split(";"):
                f = it.split(",")
                have.add(f[0])
                if len(f) > 2 and f[2] == "true":
                    funs.add(f[0])
        tops = [t for t in toplevel_objects(u.ins) if t[1] in have]
        ust["types"] = len(tops)

        # ---- (1) well-formedness and ranking, checked by the extracted Coq functions
        rank, cycles = tlb.find_rank(u.ins)
        dcs = "".join("1" if b else "0" for b in tlb.compute_dc(u.ins))
        pre = ["wf"] + ([f"setrank {dcs} " + " ".join(map(str, rank))] if rank is not None else ["norank", "productive"])
        rc0, mo0, err0 = run_lines(ref, [str(u.ir_path)], pre)
        if rc0 != 0 or len(mo0) != len(pre):
            with lock:
                unit_errors.append((u.name, f"model driver failed: rc={rc0} {err0[-300:]}"))
            return
        if mo0[0] != "ok true":
            ubad.append((u.name, "wf", mo0[0], f"C08:kernel-dump-not-wf:{u.name}", True))
        ranked_ok = rank is not None and mo0[1].startswith("ok true")
        if rank is not None and not ranked_ok:
            ubad.append((u.name, pre[1][:200], mo0[1], f"C08:ranking-rejected-by-checker:{u.name}", True))
        if rank is None and mo0[2].startswith("ok true"):
            ubad.append((u.name, "productive", mo0[2], f"C08:model-productive-but-search-found-cycle:{u.name}", True))
        if ranked_ok:
            ust["ranked_units"] = 1
            ust["max_rank"] = max(rank)
        elif rank is None:
            ust["unranked_units"] = 1
            names = [[u.ins[t]["name"] for t in c] for c in cycles[:3]]
            if is_repo:
                ubad.append((u.name, "ranking", str(names), f"C08:repository-schema-not-productive:{u.name}", True))
            # F1-type instance: build the diverging input from the cycle, predicted by the model, replayed on Go
            cands = tlb.find_divergence(u.ins, tops, rng, tries=600 if u.name == "f1" else 400)
            if u.name == "f1":
                t16 = [t for t in tops if t[1] == "rec.b"]
                if t16:
                    cands.insert(0, (t16[0][0], "rec.b", 0, bytes.fromhex("0100000005000000")))
            lines = [f"rd8 1 {tid} {name} {boxed} {b.hex()}" for tid, name, boxed, b in cands]
            confirmed = 0
            if lines:
                rc1, mo, err1 = run_lines(ref, [str(u.ir_path)], ["norank"] + lines)
                mo = mo[1:]
                div = [(l, m) for l, m in zip(lines, mo) if m == "fuel"]
                go = run_lines_resilient(u.gen.exe, [], [l for l, _ in div], timeout=300, mem_gb=2, max_restarts=50) if div else []
                masked = any(tlb.cycle_masked(u.ins, c) for c in cycles)
                for (l, m), g in zip(div, go):
                    vd("diverging", g.split(" ")[0])
                    if g.startswith("crash") and ("stack" in g or "goroutine" in g):
                        confirmed += 1
                        ubad.append((u.name, l, g, F1_SIG if masked else F1B_SIG, False))
                    elif g.startswith(("crash", "panic")):
                        ubad.append((u.name, l, g, f"C08:reader-crash:{u.name}:{l.split(' ')[3]}", False))
                    else:
                        umism.append((u.name, l, m, g))
            ust["diverging_inputs"] = confirmed
            if not confirmed:
                ust["unranked_no_divergence_found"] = 1
                with lock:
                    unit_notes.append({"unit": u.name, "note": "no ranking (conservative check) and no diverging input found", "cycles": names})

        # ---- (2) hostile inputs for the TL1 readers
        san = "1"
        vg = ValueGen(u.ins, rng)
        enc_lines = []
        for tid, name, x in tops:
            for _ in range(nvals):
                try:
                    v = vg.top(tid)
                except Budget:
                    break
                boxed = 1 if x["kind"] == "union" else rng.randrange(2)
                enc_lines.append(f"enc 0 {tid} {name} {boxed} | {vtext(v)}")
        rc, enc_out, err = run_lines(ref1, [str(u.ir_path)], enc_lines) if enc_lines else (0, [], "")
        if rc != 0 or len(enc_out) != len(enc_lines):
            with lock:
                unit_errors.append((u.name, f"tl1 model driver failed: rc={rc} {err[-300:]}"))
            return
        tags = [x["tag"] for x in u.ins if x["kind"] == "struct" and x.get("tag")] + [0xbc799737, 0x997275b5]
        ops = []      # (line, kind, name)
        seeds = []    # (name, boxed, hex) valid encodings
        for l, o in zip(enc_lines, enc_out):
            if not o.startswith("ok "):
                continue
            f = l.split(" ")
            tid, name, boxed = f[2], f[3], f[4]
            b = b"" if o[3:] == "-" else bytes.fromhex(o[3:])
            seeds.append((name, boxed, b))

            def add(bb, kind):
                ops.append((f"rd8 {san} {tid} {name} {boxed} {bb.hex() or '-'}", kind, name))
            add(b, "valid")
            for _ in range(nmut):
                m = mutate_bytes(rng, b, tags)
                if rng.random() < 0.25:
                    m = mutate_bytes(rng, m, tags)
                add(m, "mutated")
            for m in tlb.hostile_words(rng, b, max_pos=6 if quick else 24):
                add(m, "hostile_count")
            if rng.random() < (0.3 if quick else 1.0):
                for m in tlb.truncations(b):
                    add(m, "truncated")
        if ranked_ok:
            for tid, name, boxed, b, depth in tlb.deep_inputs(u.ins, tops, rng, per_type=1 if quick else 3):
                ops.append((f"rd8 {san} {tid} {name} {boxed} {b.hex() or '-'}", "deep", name))
                ust["max_depth_input"] = max(ust["max_depth_input"], depth)
        for tid, name, x in tops:
            for _ in range(2 if quick else 6):
                k = rng.randrange(0, 40)
                rb = bytes(rng.getrandbits(8) if rng.random() < 0.6 else 0 for _ in range(k))
                if x.get("tag") and rng.random() < 0.5:
                    rb = x["tag"].to_bytes(4, "little") + rb
                ops.append((f"rd8 {san} {tid} {name} {rng.randrange(2) if x['kind'] != 'union' else 1} {rb.hex() or '-'}", "random", name))
        amp_lines = []
        if u.name == "amp":
            t = [t for t in tops if t[1] == "amp.w"]
            if t:
                for L in (2048, 8192):
                    amp_lines.append(f"rd8 1 {t[0][0]} amp.w 0 {amp_input(L).hex()}")
                for l in amp_lines:
                    ops.append((l, "amplification", "amp.w"))
        rz_nodes = tlb.reset_cycle_nodes(u.ins)
        rzc = {name: tlb.reaches(u.ins, tid, rz_nodes) for tid, name, x in tops} if rz_nodes else {}
        if u.name == "rz":
            t = [t for t in tops if t[1] == "rz.top"]
            c0 = [x for x in u.ins if x["kind"] == "struct" and x.get("tlName") == "rz.c0"]
            if t and c0:
                ops.append((f"rd8 1 {t[0][0]} rz.top 0 {c0[0]['tag'].to_bytes(4, 'little').hex()}00000000", "valid", "rz.top"))
        lines = [o[0] for o in ops]
        esz = {}
        names = sorted({o[2] for o in ops})
        eo = run_lines_resilient(u.gen.exe, [], [f"esize {n}" for n in names], timeout=120)
        for n, o in zip(names, eo):
            if o.startswith("ok "):
                esz[n] = int(o.split(" ")[2])
        if not ranked_ok:
            lines_m = ["norank"] + lines
        else:
            lines_m = [pre[1]] + lines
        rc1, mo, err1 = run_lines(ref, [str(u.ir_path)], lines_m + ["fuelof " + max((l.split(" ")[5] for l in lines), key=len, default="-")])
        go = run_lines_resilient(u.gen.exe, [], lines, timeout=300, mem_gb=2, max_restarts=300)
        if rc1 != 0 or len(mo) != len(lines) + 2 or len(go) != len(lines):
            with lock:
                unit_errors.append((u.name, f"driver failed: model rc={rc1} {err1[-300:]} model lines {len(mo)}/{len(lines) + 2} go lines {len(go)}/{len(lines)}"))
            return
        if mo[-1].startswith("ok ") and mo[-1] != "ok none":
            ust["max_fuel_used"] = int(mo[-1][3:])
        mo = mo[1:-1]
        amp_obs = {}
        suspects = []
        for (l, kind, name), m, g in zip(ops, mo, go):
            gv, alloc, mallocs = split_go(g)
            vd(kind, gv.split(" ")[0])
            ust[kind if kind in ust else "random"] += 1 if kind != "amplification" else 0
            L = 0 if l.split(" ")[5] == "-" else len(l.split(" ")[5]) // 2
            if gv == "crash too-many-restarts":
                ust["not_run_after_many_crashes"] += 1    # the process died 300 times before: each death is reported above
                continue
            if gv.split(" ")[0] in ("panic", "crash") or gv.startswith("driver-error"):
                if m == "fuel" and gv.startswith("crash") and not ranked_ok:
                    ubad.append((u.name, l, g, F1_SIG if any(tlb.cycle_masked(u.ins, c) for c in cycles) else F1B_SIG, False))
                elif gv.startswith("crash") and ("stack" in gv or "goroutine" in gv) and m != "fuel" and rzc.get(name):
                    # the model answers (the value is finite), Go dies in Reset() of an absent field
                    ubad.append((u.name, l + f"   (model: {m})", g, F21_SIG, False))
                else:
                    ubad.append((u.name, l, g, f"C08:reader-crash:{u.name}:{name}", False))
                continue
            if m == "fuel" and ranked_ok:
                ubad.append((u.name, l, m, f"C08:model-out-of-fuel-at-theorem-bound:{u.name}:{name}", True))
            if m != gv:
                umism.append((u.name, l, m, gv))
            if alloc is not None and name in esz:
                S = esz[name]
                unit = S * (L // 4 + 1) + L + 64
                bound = A0 + CSLACK * (mallocs + 1) * unit
                with lock:
                    ratio["max_alloc_per_call_bound"] = max(ratio["max_alloc_per_call_bound"], round(alloc / (A0 + (mallocs + 1) * unit), 4))
                    if kind != "amplification":
                        ratio["max_alloc_per_input_byte_x_elemsize"] = max(ratio["max_alloc_per_input_byte_x_elemsize"], round(max(alloc - A0, 0) / (S * (L + 1)), 3))
                    ratio["max_alloc_bytes"] = max(ratio["max_alloc_bytes"], alloc)
                if alloc > bound:
                    suspects.append((l, name, L, S))
                if kind == "amplification":
                    amp_obs[L] = (alloc, S, gv)
        # allocation above the per-call bound: judged on a repetition in a fresh, warmed-up process
        # (the first calls of a process pay one-time runtime / fmt initialisation)
        for l, name, L, S in suspects[:50]:
            g2 = run_lines_resilient(u.gen.exe, [], [l, l, l], timeout=120, mem_gb=2)
            gv, alloc, mallocs = split_go(g2[-1])
            if alloc is None or alloc > A0 + CSLACK * (mallocs + 1) * (S * (L // 4 + 1) + L + 64):
                ubad.append((u.name, l, g2[-1], f"C08:allocation-out-of-proportion:{u.name}:{name}", False))
        if len(amp_obs) == 2:
            (L1, (a1, S, v1)), (L2, (a2, _, v2)) = sorted(amp_obs.items())
            with lock:
                unit_notes.append({"unit": "amp", "note": "total allocation of one read, nested vectors of zero-wire-size elements",
                                   "input_bytes": [L1, L2], "allocated_bytes": [a1, a2], "elem_size": S, "verdicts": [v1, v2],
                                   "bytes_allocated_per_input_byte": [round(a1 / L1, 1), round(a2 / L2, 1)]})
            if a2 / L2 > 2.5 * (a1 / L1) and a2 > 64 * S * L2:
                ubad.append((u.name, trunc(amp_lines[1], 120), f"{a2} bytes allocated for {L2} input bytes ({a1} for {L1})", AMP_SIG, False))

        # ---- (3) TL2 / JSON readers and transcoders: Go-only totality oracle
        sup = []   # (line, kind)
        dyn = {name: tlb.has_dyn_tuple(u.ins, tid) for tid, name, x in tops}
        cyc_nodes = tlb.default_cycle_nodes(u.ins)
        extc = {name: tlb.reaches(u.ins, tid, cyc_nodes) for tid, name, x in tops} if cyc_nodes else {}
        pick = seeds if len(seeds) <= (40 if quick else 400) else rng.sample(seeds, 40 if quick else 400)
        wl = [f"wj8 {n} {bx} {b.hex() or '-'}" for n, bx, b in pick] + [f"w28 {n} {bx} {b.hex() or '-'}" for n, bx, b in pick]
        wo = run_lines_resilient(u.gen.exe, [], wl, timeout=300, mem_gb=2) if wl else []
        for (n, bx, b), o in zip(pick, wo[:len(pick)]):
            if o.startswith("ok "):
                txt = b"" if o[3:] == "-" else bytes.fromhex(o[3:])
                sup.append((f"rdjt {n} {txt.hex() or '-'}", "json_valid"))
                for m in tlb.json_mutations(rng, txt, big_first=dyn.get(n, False))[:(8 if quick else 40)]:
                    sup.append((f"rdjt {n} {m.hex() or '-'}", "json_hostile"))
        for (n, bx, b), o in zip(pick, wo[len(pick):]):
            if o.startswith("ok "):
                t2 = b"" if o[3:] == "-" else bytes.fromhex(o[3:])
                sup.append((f"rd2t {n} {t2.hex() or '-'}", "tl2_valid"))
                for _ in range(nmut):
                    sup.append((f"rd2t {n} {mutate_bytes(rng, t2, tags).hex() or '-'}", "tl2_mutated"))
                for m in tlb.hostile_words(rng, t2, max_pos=3)[:6] + [bytes([x]) + t2[1:] for x in (0xfe, 0xff, 0x80) if t2]:
                    sup.append((f"rd2t {n} {m.hex() or '-'}", "tl2_hostile_size"))
        if dyn.get("cases.testInplaceStructArgs"):
            # fixed probe of the JSON tuple-size finding: 48 bytes of JSON, three # members that size tuples
            sup.append(("rdjt cases.testInplaceStructArgs " + b'{"a1":4294967295,"a2":4294967295,"a3":4294967295}'.hex(), "json_hostile"))
        if "jd.top" in dyn:
            # fixed probe of the default-fill finding
            for txt in (b'{"m":3}', b'{"m":1,"t":{"value":5}}', b'{"m":0}', b'{"m":3,"t":{"value":1,"left":{"value":2,"left":{"value":3}}}}'):
                sup.append(("rdjt jd.top " + txt.hex(), "json_hostile"))
        # function-result transcoders
        freq = [(n, b) for n, bx, b in seeds if n in funs and bx == "0"]
        if len(freq) > (6 if quick else 60):
            freq = rng.sample(freq, 6 if quick else 60)
        fl = [f"frr {n} {b.hex() or '-'} {rng.getrandbits(32)}" for n, b in freq]
        fo = run_lines_resilient(u.gen.exe, [], fl, timeout=300, mem_gb=2) if fl else []
        tl = []
        for (n, b), o in zip(freq, fo):
            if o.startswith("ok "):
                tl.append((n, b, o[3:]))
        to = run_lines_resilient(u.gen.exe, [], [f"trr {n} {k} {b.hex() or '-'} {r}" for n, b, r in tl for k in ("1j", "12")], timeout=300, mem_gb=2) if tl else []
        for i, (n, b, r) in enumerate(tl):
            rb = b"" if r == "-" else bytes.fromhex(r)
            rq = b.hex() or "-"
            res = {"1": rb}
            for k, o in zip(("j", "2"), to[2 * i:2 * i + 2]):
                if o.startswith("ok "):
                    res[k] = b"" if o[3:] == "-" else bytes.fromhex(o[3:])
            for src, dsts in (("1", "j2"), ("j", "12"), ("2", "1j")):
                if src not in res:
                    continue
                for dst in dsts:
                    kind = src + dst
                    sup.append((f"trt {n} {kind} {rq} {res[src].hex() or '-'}", "transcode_valid"))
                    muts = tlb.json_mutations(rng, res[src])[:4] if src == "j" else \
                        [mutate_bytes(rng, res[src], tags) for _ in range(3)] + tlb.hostile_words(rng, res[src], max_pos=2)[:3] + \
                        [bytes(rng.getrandbits(8) for _ in range(rng.randrange(12)))]
                    for m in muts:
                        sup.append((f"trt {n} {kind} {rq} {m.hex() or '-'}", "transcode_hostile"))
        sl = [s[0] for s in sup]
        so = run_lines_resilient(u.gen.exe, [], sl, timeout=600, mem_gb=2, max_restarts=100) if sl else []
        for (l, kind), g in zip(sup, so):
            gv = g.split(" | ")[0]
            v = gv.split(" ")[0]
            vd(kind, v)
            if gv == "crash too-many-restarts":
                ust["not_run_after_many_crashes"] += 1
                continue
            op = l.split(" ")[0]
            ust["json_reads" if op == "rdjt" else "tl2_reads" if op == "rd2t" else "transcodes"] += 1
            if v in ("panic", "crash") or gv.startswith("driver-error"):
                fam = {"rdjt": "json", "rd2t": "tl2", "trt": "transcoder"}[op]
                if not ranked_ok and ust["diverging_inputs"] and gv.startswith("crash") and ("stack" in gv or "goroutine" in gv):
                    # the default-filling / TL2 reader of an unranked schema recurses like the TL1 reader does
                    ubad.append((u.name, l, g, F1J_SIG, False))
                elif gv.startswith("crash") and ("stack" in gv or "goroutine" in gv) and rzc.get(l.split(" ")[1]):
                    ubad.append((u.name, l, g, F21_SIG, False))
                elif gv.startswith("crash") and ("stack" in gv or "goroutine" in gv) and extc.get(l.split(" ")[1]):
                    # default filling of an absent JSON member / TL2 field of a type whose default value is infinite
                    # (the TL1 reader of the same schema may well be total: the unit can be ranked)
                    ubad.append((u.name, l + ("   (JSON: " + trunc(bytes.fromhex(l.split(" ")[-1]).decode("latin1"), 200) + ")" if op == "rdjt" and l.split(" ")[-1] != "-" else ""), g, F20_SIG, False))
                elif op == "rdjt" and gv.startswith("crash oom") and dyn.get(l.split(" ")[1]):
                    # tuple size taken from a # member of the JSON text, allocated before any element is seen
                    ubad.append((u.name, l + "   (JSON: " + trunc(bytes.fromhex(l.split(" ")[2]).decode("latin1"), 300) + ")", g, F19_SIG, False))
                else:
                    ubad.append((u.name, l, g, f"C08:{fam}-reader-crash:{u.name}:{l.split(' ')[1]}", False))
            elif kind in ("json_valid", "tl2_valid") and v != "ok":
                pass   # acceptance of written values is C03/C05's business

        log('[C08] unit done', u.name, round(time.time() - ctx.t0), len(lines), len(sl))
        with lock:
            for k, v in ust.items():
                if k.startswith("max_"):
                    stats[k] = max(stats[k], v)
                else:
                    stats[k] += v
            stats["tl1_reads"] += len(lines)
            for k, v in uverd.items():
                verdicts[k] = verdicts.get(k, 0) + v
            bad.extend(ubad)
            mism.extend(umism)
            for kind in ("hostile_count", "deep", "mutated"):
                pool = [i for i, o in enumerate(ops) if o[1] == kind and len(o[0]) < 400]
                if pool and len(samples) < 16:
                    j = rng.choice(pool)
                    samples.append({"schema": u.name, "kind": kind, "op": trunc(lines[j], 240), "go": trunc(go[j], 120), "model": trunc(mo[j], 60)})
            pool = [i for i, s in enumerate(sup) if s[1] in ("json_hostile", "tl2_hostile_size", "transcode_hostile") and len(s[0]) < 300]
            if pool and len(samples) < 20:
                j = rng.choice(pool)
                samples.append({"schema": u.name, "kind": sup[j][1], "op": trunc(sl[j], 240), "go": trunc(so[j], 120)})

    with ThreadPoolExecutor(max_workers=8) as ex:
        list(ex.map(work, units))

    pid = ctx.pid
    seen = set()
    schema_text = {}
    for u in units:
        if str(u.files[0]).startswith(str(ctx.scratch)):
            try:
                schema_text[u.name] = Path(u.files[0]).read_text().split("DictionaryAny k v;")[-1].strip()[:3000]
            except OSError:
                pass
    for name, l, g, sig, no_input in bad:
        if sig in seen and sig in (F1_SIG, F1B_SIG, F1J_SIG, AMP_SIG, F19_SIG, F20_SIG, F21_SIG):
            continue
        seen.add(sig)
        if len(ctx.violations) < 40:
            ctx.violation(sig, f"{name}: {sig.split(':', 1)[1]}: {trunc(l, 200)} -> {trunc(g, 160)}",
                          {"unit": name, "op": l, "go": g, "schema": schema_text.get(name)}, no_input=no_input)
    if not ctx.violations:
        if cres.get("Prim"):
            ctx.violation(f"{pid}:tconst", "translator T-const failed: " + cres["Prim"], {"theorem": "coq/theories/Props/C08.v", "error": cres["Prim"]}, no_input=True)
        elif not thm["ok"]:
            ctx.violation(f"{pid}:theorem", f"theorem no longer checks: {thm['failing_at']}", {"theorem_file": thm["props_file"], "failing_at": thm["failing_at"], "log": thm["log_tail"]}, no_input=True)
        if berr:
            ctx.violation(f"{pid}:tools", "cannot build tl2gen/verifdump from /repo: " + trunc(berr, 600), {"error": berr}, no_input=True)
        if ref_err:
            ctx.violation(f"{pid}:model-build", "reference model does not build: " + trunc(ref_err, 600), {"error": ref_err}, no_input=True)
        for name, e in reportable_unit_errors(unit_errors, ctx)[:10]:
            ctx.violation(f"{pid}:unit:{name}", f"schema unit {name}: {trunc(e, 600)}", {"unit": name, "error": e}, no_input=True)
        for name, l, m, g in mism[:30]:
            ctx.violation(f"{pid}:corr:{name}:{trunc(l, 60)}", f"corr:C08:total {name}: model and generated code differ on {trunc(l, 140)}: model={trunc(m, 90)} go={trunc(g, 90)}",
                          {"correspondence": "corr:C08:total", "unit": name, "op": l, "model": m, "go": g}, no_input=True)
    ctx.coverage.update({
        "obligations": thm["obligations"], "discharged": thm["discharged"],
        "checker_cmd": f"make -f Makefile.coq theories/{PROPS}.vo (coqc 8.16.1, full .vo build, in /verif/coq)",
        "trusted_base": ["Coq 8.16.1 kernel", "translator overlay/cmd/verifdump + lib/schema_ir.py", "translator tools/genconsts",
                         "extraction ExtrOcamlBasic only; ocaml/conv.ml, ocaml/total/schema_io.ml, ocaml/drv_total.ml (and drv_tl1.ml for the valid encodings)",
                         "harness/go/gendrv (main.go, ops_tl1.go, ops_total.go); lib/total_lib.py; lib/checks/C08.py",
                         "Go runtime.MemStats (TotalAlloc, Mallocs) as the allocation measure; RLIMIT_AS 2 GiB and a 16 MB goroutine stack as the crash detectors",
                         "axioms: " + (", ".join(thm["axioms"]) if thm["axioms"] else "none (every theorem closed under the global context)")],
        "theorems": thm["statements"], "assumptions_per_theorem": thm["assumptions"],
        "evaluations": stats["tl1_reads"] + stats["tl2_reads"] + stats["json_reads"] + stats["transcodes"],
        "distinct_nontrivial": stats["mutated"] + stats["hostile_count"] + stats["truncated"] + stats["deep"] + stats["random"] + stats["diverging_inputs"],
        "rule": "TL1: valid encodings written by the model for type-directed random values; per encoding k mutations (gencommon.mutate_bytes), a huge count / size near 2^32 at "
                "every aligned word, every truncation of short encodings; deep nesting through recursive types built by a schema-directed emitter; random strings; "
                "each read (bare/boxed) by freshly generated Go code under RLIMIT_AS 2 GiB and by the extracted model run with exactly fuel_bound of theorem C08_total_ranked; "
                "verdict and consumed length compared, allocation (TotalAlloc delta) compared with A0 + 4*(mallocs+1)*(elemsize*(len/4+1)+len+64). Non-trivial = every TL1 input that is not an "
                "unmodified valid encoding. TL2 / JSON / transcoder reads are Go-only (no panic, crash, timeout) and counted in evaluations only (supporting evidence).",
        "stats": stats, "allocation": ratio, "go_verdicts_by_input_kind": verdicts, "correspondence": "corr:C08:total",
        "correspondence_mismatches": len(mism), "oracle_failures": len(bad), "samples": samples or [{"note": "no ops ran"}],
        "unit_notes": unit_notes,
        "schemas": [{"name": u.name, "options": u.options, "error": trunc(u.error, 200) if u.error else None} for u in units],
    })
    ctx.assumptions += ["64-bit platform", "templates modelled, not verified",
                        "theorems cover the TL1 reader model only: TL2 / JSON readers and result transcoders are covered by the Go-side totality oracle (supporting evidence, property level partial)",
                        "Go stack depth and heap behaviour are observed (crash = violation), not proved",
                        "boundedness is per reader call; the total allocation of one read is not linear in the input (nested sequences of zero-wire-size elements, see unit_notes amp)",
                        "fixed-size arrays [c]T are allocated by type; with --checkLengthSanity=false nothing is bounded (C08_unbounded_without_sanity_refuted)"]
