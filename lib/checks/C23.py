"""C23 -- implicit constructor tags = CRC32 (IEEE) of the canonical form; explicit tags verbatim;
tags independent of layout and of equivalent type-application syntax."""
import copy
import zlib

from vlib import *
import canon_lib as cl

PROPS = "Props/C23"
FAMILY = "canon"

SIG_ARITH_REP = "C23:canon:arith-in-repeat-not-evaluated"


def show(t):
    return trunc(repr(t), 200)


def collapse_arith(c, inside):
    """Copy of the generator tree with every multi-term arithmetic expression replaced by its value, either only
    outside repetition brackets (inside=False) or only in the types of plain fields inside brackets (inside=True).
    Returns (tree, number of replaced expressions)."""
    c = copy.deepcopy(c)
    cnt = 0

    def typ(t, active):
        nonlocal cnt
        if t["k"] == "arith":
            if active and len(t["nums"]) > 1:
                t["nums"] = [sum(t["nums"])]
                cnt += 1
        elif t["k"] == "type":
            for a in t["args"]:
                typ(a, active)

    def field(f, in_br):
        nonlocal cnt
        if "rep" in f:
            sc = f["rep"]["scale"]
            if sc and sc[0] == "arith" and len(sc[1]) > 1 and not inside:
                f["rep"]["scale"] = ("arith", [sum(sc[1])])
                cnt += 1
            for g in f["rep"]["fields"]:
                field(g, True)
        else:
            typ(f["type"], inside == in_br)
    for f in c["fields"]:
        field(f, False)
    if c["func"] and not inside:
        typ(c["result"], True)
    return c, cnt


def crc_type_nodes(c):
    """Type-reference nodes of the generator tree that the canonical form prints in the CRC spelling (everything
    outside repetition brackets), in a fixed order."""
    out = []

    def typ(t):
        if t["k"] == "type":
            out.append(t)
            for a in t["args"]:
                typ(a)
    for f in c["fields"]:
        if "rep" not in f:
            typ(f["type"])
    if c["func"]:
        typ(c["result"])
    return out


def toggle_bare(c, i):
    c = copy.deepcopy(c)
    n = crc_type_nodes(c)[i]
    n["bare"] = not n["bare"]
    return c


def local_name(t):
    return t["name"].split(".")[-1]


def py_canon(c):
    """Independent re-implementation of the documented canonical form for combinators without repetitions:
    one line, no braces, single spaces, arithmetic by value, '%' only before names whose local part does not start
    with a lower-case letter.  None if the combinator has a repetition."""
    if any("rep" in f for f in c["fields"]):
        return None

    def t(x):
        if x["k"] == "hash":
            return "#"
        if x["k"] == "arith":
            return str(sum(x["nums"]))
        pct = "%" if (x["bare"] and not local_name(x)[:1].islower()) else ""
        return " ".join([pct + x["name"]] + [t(a) for a in x["args"]])
    parts = [c["name"]]
    for n, isnat in c["targs"]:
        parts.append(n + (":#" if isnat else ":Type"))
    if c["builtin"]:
        parts.append("?")
    for f in c["fields"]:
        s = (f["name"] + ":" if f["name"] else "")
        if f["mask"]:
            s += "%s.%d?" % f["mask"]
        parts.append(s + t(f["type"]))
    parts.append("=")
    parts.append(t(c["result"]) if c["func"] else " ".join([c["decl"][0]] + c["decl"][1]))
    return " ".join(parts).encode()


def gen_ops(ctx):
    rng = ctx.rng
    quick = ctx.quick()
    h = cl.Harness(ctx)
    ctx.c23 = st = {"err": None, "groups": [], "corpus": [], "go": []}
    if not h.ok():
        st["err"] = h.err
        return []
    g = cl.Gen(rng)
    # ---- texts: repository schemas + random combinators (base, minimal, random layout/syntax variants)
    files = cl.corpus()
    items = [(t, "d") for _, t in files]
    n_rand = 1500 if quick else 12000
    nvar = 4
    groups = []          # (tree, kind, [indices into items], expectation)
    for i in range(n_rand):
        c = g.comb()
        idx = []
        for v in ([g.text(c, False, "one"), g.text(c, False, "min")] + [g.text(c, True, "rand") for _ in range(nvar)]):
            idx.append(len(items))
            items.append((v, ""))
        groups.append((c, "layout", idx))
        if c["tag"] is None:
            # twins with the bare marker toggled on one type reference outside brackets: '%' is part of the canonical
            # form exactly for names whose local part does not start with a lower-case letter
            nodes = crc_type_nodes(c)
            for want_upper in (True, False):
                cand = [k for k, n in enumerate(nodes) if (not local_name(n)[:1].islower()) == want_upper]
                for k in rng.sample(cand, min(len(cand), 2)):
                    idx2 = [idx[0], len(items)]
                    items.append((g.text(toggle_bare(c, k), True, "rand"), ""))
                    groups.append((c, "bare-toggle-upper" if want_upper else "bare-toggle-lower", idx2))
            for inside in (False, True):
                c2, cnt = collapse_arith(c, inside)
                if cnt:
                    idx2 = [idx[0], len(items)]
                    items.append((g.text(c2, True, "rand"), ""))
                    groups.append((c, "arith-in-repeat" if inside else "arith-value", idx2))
    res = h.parse(items)
    bare = h.raw(["bare256"])[0]
    st["items"], st["res"], st["groups"], st["files"] = items, res, groups, files
    # ---- ops for the model: every distinct AST dump once
    ops, go = [("bare256", "bare256", None)], [bare]
    seen = set()

    def add(p, kind, src):
        for c in p.combs:
            if c["dump"] in seen:
                continue
            seen.add(c["dump"])
            ops.append((f"c23 {c['dump']}", kind, src))
            go.append(f"{cl.hx(c['canon'])} {c['id']} {c['gen']} 1")
    for k, (path, _) in enumerate(files):
        if res[k].ok:
            add(res[k], "repo-schema", path)
    for c, kind, idx in groups:
        for j in idx:
            if res[j].ok:
                add(res[j], "random-" + kind, items[j][0])
    st["go"] = go
    ctx.notes["texts_parsed"] = len(items)
    ctx.notes["repo_schema_files"] = len(files)
    ctx.notes["random_combinators"] = n_rand
    ctx.notes["layout_syntax_variants_per_combinator"] = nvar + 2
    return ops


def go_runner(ctx, lines):
    if ctx.c23["err"]:
        return None, ctx.c23["err"]
    return ctx.c23["go"], ""


def spec_problems(canon, name):
    """The documented shape of the canonical form, checked on Go's own text."""
    bad = []
    if b"{" in canon or b"}" in canon:
        bad.append("brace")
    if b"\n" in canon or b"\t" in canon or b"\r" in canon:
        bad.append("not-one-line")
    if b"  " in canon or canon.startswith(b" ") or canon.endswith(b" "):
        bad.append("spacing")
    for i, ch in enumerate(canon):
        if ch == 0x5b and canon[i + 1:i + 2] != b" ":
            bad.append("bracket-spacing")
            break
        if ch == 0x5d and canon[i - 1:i] != b" ":
            bad.append("bracket-spacing")
            break
    if not canon.startswith(name + b" "):
        bad.append("name")
    import re
    if b"[" not in canon:   # inside [ ] the template prints fields with String()
        for m in re.finditer(rb"%([A-Za-z_][A-Za-z0-9_]*)(?:\.([A-Za-z_][A-Za-z0-9_]*))?", canon):
            if (m.group(2) or m.group(1))[:1].islower():
                bad.append("bare-marker-on-lower-case-name")
                break
    return bad


def oracle(ctx, ops, go_out):
    st = ctx.c23
    bad = []
    if st["err"]:
        return bad
    items, res = st["items"], st["res"]
    # every parsed combinator: tag rule and canonical-form shape
    n_comb = 0
    for k, p in enumerate(res):
        src = items[k][0]
        if not p.ok:
            if k < len(st["files"]):
                continue  # repository files that are not valid TL1 (counted below)
            bad.append((show(src), "parse", p.err, f"C23:generated-text-rejected:{trunc(src, 60)}"))
            continue
        for c in p.combs:
            n_comb += 1
            d = cl.sexp(c["dump"])
            nm = cl.name_str(d[cl.C_NAME]).encode("latin1")
            crc = zlib.crc32(c["canon"]) & 0xffffffff
            explicit = d[cl.C_EXPL] == "1"
            if c["gen"] != crc:
                bad.append((show(src), "gencrc", f"GenCrc32={c['gen']:08x} crc32(canonical)={crc:08x}", f"C23:gencrc:{nm.decode()}"))
            if not explicit and c["id"] != crc:
                bad.append((show(src), "implicit", f"Crc32={c['id']:08x} crc32({c['canon']!r})={crc:08x}", f"C23:implicit:{nm.decode()}"))
            sp = spec_problems(c["canon"], nm)
            if sp:
                bad.append((show(src), "shape", f"{sp} in {c['canon']!r}", f"C23:shape:{sp[0]}:{nm.decode()}"))
    ctx.notes["combinators_checked"] = n_comb
    ctx.notes["repo_files_not_parsed"] = [st["files"][k][0] for k in range(len(st["files"])) if not res[k].ok]
    # explicit tags of repository schemas: every name#tag of the source text is the stored tag
    import re
    for k, (path, text) in enumerate(st["files"]):
        if not res[k].ok:
            continue
        src = re.sub(r"//[^\n]*", "", text)
        want = [(m.group(1), int(m.group(2), 16)) for m in re.finditer(r"([A-Za-z_][A-Za-z0-9_.]*)\s*#([0-9a-f]{8})\b", src)]
        got = []
        for c in res[k].combs:
            d = cl.sexp(c["dump"])
            if d[cl.C_EXPL] == "1":
                got.append((cl.name_str(d[cl.C_NAME]), c["id"]))
        if want != got:
            diff = [x for x in want if x not in got][:3] + [x for x in got if x not in want][:3]
            bad.append((path, "explicit-repo", str(diff), f"C23:explicit-verbatim:{path}"))
    # groups of texts that must agree
    seen_sigs = set()
    for c, kind, idx in st["groups"]:
        ps = [res[j] for j in idx]
        if not all(p.ok for p in ps):
            continue
        if not all(len(p.combs) == 1 for p in ps):
            bad.append((show(items[idx[0]][0]), "count", "generated combinator parsed as " + str([len(p.combs) for p in ps]) + " combinators", f"C23:layout-count:{c['name']}"))
            continue
        base = ps[0].combs[0]
        name = c["name"]
        if kind == "layout":
            pc = py_canon(c)
            if pc is not None:
                st["pycanon"] = st.get("pycanon", 0) + 1
                if pc != base["canon"]:
                    bad.append((show(items[idx[0]][0]), "canonical-text", f"Go canonical form {base['canon']!r}, documented form {pc!r}", f"C23:canonical-text:{name}"))
            if c["tag"] is not None and base["id"] != c["tag"]:
                bad.append((show(items[idx[0]][0]), "explicit", f"Crc32={base['id']:08x} written #{c['tag']:08x}", f"C23:explicit-verbatim:{name}"))
            for j, p in zip(idx[1:], ps[1:]):
                o = p.combs[0]
                if o["id"] != base["id"]:
                    bad.append((show(items[j][0]), "layout-tag", f"tag {o['id']:08x} vs {base['id']:08x} for {items[idx[0]][0]!r}", f"C23:layout-tag:{name}"))
                elif o["dump"] != base["dump"]:
                    bad.append((show(items[j][0]), "layout-ast", f"AST differs from {items[idx[0]][0]!r}", f"C23:layout-ast:{name}"))
        elif kind == "bare-toggle-upper":
            o = ps[1].combs[0]
            if o["id"] == base["id"]:
                bad.append((show(items[idx[1]][0]), kind, f"same tag {o['id']:08x} with and without '%' on an upper-case type name: {o['canon']!r} vs {base['canon']!r}", f"C23:bare-marker-lost:{name}"))
        elif kind == "bare-toggle-lower":
            o = ps[1].combs[0]
            if o["id"] != base["id"]:
                bad.append((show(items[idx[1]][0]), kind, f"tag {o['id']:08x} vs {base['id']:08x}: '%' on a lower-case type name changed the tag ({o['canon']!r} vs {base['canon']!r})", f"C23:bare-marker-lower:{name}"))
        else:
            o = ps[1].combs[0]
            if o["id"] != base["id"]:
                sig = SIG_ARITH_REP if kind == "arith-in-repeat" else f"C23:arith-value:{name}"
                if sig in seen_sigs:
                    continue  # one report per stable sig (standard_run only looks at the first 40 entries)
                if kind == "arith-in-repeat":
                    seen_sigs.add(sig)
                bad.append((show(items[idx[1]][0]), kind, f"tag {o['id']:08x} ({o['canon']!r}) vs {base['id']:08x} ({base['canon']!r})", sig))
    ctx.notes["canonical_texts_vs_python_reimplementation"] = st.get("pycanon", 0)
    return bad


def run(ctx):
    standard_run(
        ctx, props=PROPS, family=FAMILY, consts=["Canon"], go_runner=go_runner, gen_ops=gen_ops, oracle=oracle,
        corr_name="corr:C23:crc",
        trusted=["translator: AST dump in overlay/internal/tlast/verif_canon_test.go (Go AST -> S-expression) and its reader in ocaml/drv_canon.ml",
                 "generator/oracle in lib/checks/C23.py and lib/canon_lib.py (python zlib.crc32 as the independent CRC)",
                 "lexer/parser are not modelled here: layout independence of the AST is checked on the Go side (same dump for all variants)"],
        assumptions=["the model is a function of the parsed AST; that the AST does not depend on layout is established by the correspondence run, not by a theorem",
                     "Go code is modelled, not verified: agreement is established on the operations listed under op_kinds"],
        rule="every distinct combinator AST (repository .tl files + random combinators from VERIF_SEED, each in 6 layout/syntax variants) is one op: "
             "model canon/tag/crc vs Go canonicalForm()/Crc32()/GenCrc32(); distinct = distinct AST dumps")
