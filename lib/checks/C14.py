"""C14 -- every accepted schema yields Go code that builds; the generator never panics.

proof    : Props/C14.v (Deconflicter: pairwise distinct names for all request sequences, suffix form,
           termination; struct scope collision free; the unprotected naming obligations refuted = F11)
tie      : corr:C14:decon  real puregen.Deconflicter / utils name functions vs the extracted model
           corr:C14:names  names found in freshly generated code (constants, file names, struct fields,
                           accessors, helper identifiers) vs the model's go_names functions, and the
                           model's obligations vs the class of the `go build` failure
oracle   : for repository, random and mutated schemas x option sets: tl2gen exit 0 => `go build ./gen/...`
           succeeds; exit != 0 => message, no panic, nothing written / previous outdir content untouched.
"""
import json
import os
import random
import re
import shutil
import threading
import time
from concurrent.futures import ThreadPoolExecutor

from vlib import *
import schema_ir
import randschema
import build_lib as B

PROPS = "Props/C14"
FAMILY = "build"
OVERLAY = {"verif_build_test.go": VERIF / "overlay/internal/puregen/verif_build_test.go"}
TLS = REPO / "internal/tlcodegen/test/tls"

WITNESSES = {   # the witnesses of the *_refuted theorems of Props/C14.v, as schemas
    "a": ("a.foo x:int = a.Foo;\na.fOO y:int = a.FOO;\n", B.SIG_A),
    "b": ("a.foo x:int = a.Foo;\naFoo y:int = AFoo;\na_foo z:int = A_foo;\n", B.SIG_B),
    "c": ("a.foo string:int = a.Foo;\n", B.SIG_C),
    "d": ("unused x:int = Unused;\n", B.SIG_D),
    "e": ("rs.t {n:#} f:n.0?int = rs.T n;\n@read rs.fn m:# rsTF:m.1?int => rs.T m;\n", B.SIG_E),
    # not naming clashes (no model statement): classified by the compiler message only
    "f": ("boolFalse#bc799737 = Bool;\nboolTrue#997275b5 = Bool;\nrs.t1 Bool = rs.T1;\n", B.SIG_F),
    "g": ("myTrue = MyTrue;\nfoo n:# x:n.0?myTrue = Foo;\n", B.SIG_G),
}
WITNESS_OPTIONS = {"f": ("tl2", ["--tl2WhiteList=*"])}


# --------------------------------------------------------------------------- corr:C14:decon

def gen_decon_ops(ctx):
    rng = ctx.rng
    quick = ctx.quick()
    ops = []
    bases = ["a", "A", "Foo", "Write", "Read", "WriteTL2", "ReadTL2", "x1", "X", "item", "a0", "a00", "a1", "a10", "a9", "Foo0", "Foo1", "Foo00",
             "SetX", "0", "00", "1", "_", "-"]

    def name():
        k = rng.random()
        if k < 0.55:
            s = rng.choice(bases)
        elif k < 0.8:
            s = rng.choice(bases[:12]) + str(rng.choice([0, 0, 1, 2, 9, 10, 11, 19, 99, 100]))
        elif k < 0.9:
            s = rng.choice(bases[:12]) + "0" * rng.randrange(1, 4)
        else:
            s = "".join(rng.choice("abAB01_") for _ in range(rng.randrange(1, 5)))
        return s

    for _ in range(250 if quick else 750):
        n = rng.choice([1, 2, 3, 5, 8, 13, 30]) if rng.random() < 0.9 else rng.randrange(40, 130)
        pool = [name() for _ in range(rng.choice([1, 2, 3, 6]))]
        reqs = [rng.choice(pool) if rng.random() < 0.8 else name() for _ in range(n)]
        ops.append((f"dec {rng.choice([0, 0, 1])} " + " ".join(reqs), "dec", None))
    # long runs of one name: suffixes beyond one digit (0..9, 10, 11, ...) and pre-occupied suffixes
    for base, n in (("a", 25), ("Write", 14), ("x9", 120 if not quick else 35)):
        pre = [base + str(i) for i in rng.sample(range(0, 15), 5)]
        ops.append((f"dec 1 " + " ".join(pre + [base] * n), "dec-long", None))
    words = ["tL_tag", "marshalJSON", "FOO_bar9_X_ABC", "string", "a", "A", "AB", "A1", "aB", "a_b_c", "__x", "x__", "_", "-", "9a", "a9B", "ABc", "aBC", "X_Y",
             "foo.bar", "a.FOO", "FOO", "F", "f0O", "JSON2x", "tl2Mask", "a-b", "a+B", "HTTPServer", "hTTPServer", "http_SERVER_2"]
    for w in words + ["".join(rng.choice("abXY_019.") for _ in range(rng.randrange(1, 9))) for _ in range(150 if quick else 450)]:
        ops.append((f"camel {w}", "camel", None))
        ops.append((f"upfirst {w}", "upfirst", None))
        ops.append((f"lowfirst {w}", "lowfirst", None))
    return ops


# --------------------------------------------------------------------------- units

def plan_units(ctx):
    """list of dicts: name kind files optname options prev whitelist"""
    rng = ctx.rng
    quick = ctx.quick()
    d = ctx.scratch / "schemas"
    d.mkdir(exist_ok=True)
    jobs = []

    def add(name, kind, files, optname, options, prev=False, blocks=None, expect=None):
        jobs.append({"name": name, "kind": kind, "files": files, "optname": optname, "options": options, "prev": prev,
                     "blocks": blocks, "expect": expect})

    # refuted-theorem witnesses on the real generator
    for k, (body, sig) in WITNESSES.items():
        p = d / f"wit_{k}.tl"
        p.write_text("int#a8509bda ? = Int;\n" + body)
        on, opts = WITNESS_OPTIONS.get(k, ("plain", []))
        add(f"wit_{k}", "witness", [p], on, opts, expect=k)
    # recursion: every kind of guarded self reference at every position relative to the # fields used as
    # masks and sizes, a recursive union, mutual recursion over 2-3 types.  Always inside the budget (run first).
    rec_opts = [("plain", []), ("split", ["--split-internal"]), ("tl2random", ["--tl2WhiteList=*", "--generateRandomCode"])]
    if not quick:
        rec_opts += [("bytesrpc", ["--generateByteVersions=rs."] + B.RPC_OPTS)]
    for i in range(2 if quick else 6):
        mg = B.MutGen(rng)
        p = d / f"rec{i}.tl"
        p.write_text(randschema.HEADER + "\n".join(mg.recursion_positions(full=(i == 0))) + "\n")
        for on, opts in rec_opts:
            add(f"rec{i}", "recursion", [p], on, opts, blocks=["recursion_positions"])
    # repository schemas
    corpus = [("cases", [TLS / "cases.tl"], "cases."),
              ("goldmaster", [TLS / "goldmaster.tl", TLS / "goldmaster2.tl", TLS / "goldmaster3.tl"], "ch_proxy.,ab.,memcache.")]
    if not quick:
        corpus.append(("schema", [TLS / "schema.tl"], "antispam."))
        corpus.append(("cpp", [TLS / "cpp.tl"], "a."))
    for name, files, prefix in corpus:
        osets = B.option_sets(prefix)
        names = list(osets)
        # every option set on the rich repository schemas, also in the quick tier: code that only one
        # option emits (random fillers, RPC handlers, byte versions, TL2, split packages) for every
        # primitive and construct -- a template regression under one option shows up here
        for on in names:
            add(name, "repo", files, on, osets[on])
        if not quick:
            add(name, "repo", files, "all", [o for on in names for o in osets[on]])
    # random well-formed schemas
    osets = B.option_sets("rs.")
    names = list(osets)
    nrand = 4 if quick else 12
    for i in range(nrand):
        g = randschema.Gen(rng, ntypes=rng.choice([4, 6, 8] if quick else [4, 6, 8, 12, 16]))
        p = d / f"rnd{i}.tl"
        p.write_text(g.text())
        chosen = ["plain", names[1 + (i + ctx.seed) % 5]] if quick else names
        for on in chosen:
            add(f"rnd{i}", "random", [p], on, osets[on])
    # mutated schemas
    nmut = len(B.MutGen.BLOCKS) if quick else 160     # quick: every mutation block once
    blocks = list(B.MutGen.BLOCKS)
    rng.shuffle(blocks)
    for i in range(nmut):
        mg = B.MutGen(rng)
        if i < len(blocks):
            chosen_blocks = [blocks[i]] + (rng.sample(B.MutGen.BLOCKS, 1) if rng.random() < 0.3 else [])
        else:
            chosen_blocks = None
        text = mg.text(blocks=chosen_blocks, base_types=rng.choice([0, 0, 2, 3]))
        p = d / f"mut{i}.tl"
        p.write_text(text)
        chosen = ["plain", names[1 + (i + ctx.seed) % 5]] if quick else names
        for on in chosen:
            add(f"mut{i}", "mutated", [p], on, osets[on], blocks=mg.kinds)
    # invalid schemas: the reject path
    ninv = 2 * len(B.CORRUPTIONS) if quick else 8 * len(B.CORRUPTIONS)     # every kind of corruption, round robin
    for i in range(ninv):
        if rng.random() < 0.5:
            base = randschema.Gen(rng, ntypes=4).text()
        else:
            base = B.MutGen(rng).text(base_types=1)
        text, how = B.corrupt(rng, base, B.CORRUPTIONS[i % len(B.CORRUPTIONS)])
        p = d / f"inv{i}.tl"
        p.write_text(text)
        on = names[(i + ctx.seed) % 6]
        add(f"inv{i}", "invalid", [p], on, osets[on], prev=((i // len(B.CORRUPTIONS) + i) % 2 == 0), blocks=[how])
    return jobs


def explain_racc(name, structs):
    """Set<GoType><F1>And<F2>... -> (GoType, [F1, F2, ...]) for the longest Go struct name of the unit that
    fits; the field parts are identifiers (bit fields are not emitted, so they cannot be checked against
    the struct).  None when no struct name fits."""
    if not name.startswith("Set"):
        return None
    rest = name[3:]
    best = None
    for g in structs:
        if rest.startswith(g) and len(rest) > len(g) and (best is None or len(g) > len(best)):
            best = g
    if best is None:
        return None
    parts = rest[len(best):].split("And")
    if not all(re.fullmatch(r"[A-Z]\w*", p) for p in parts):
        return None
    return best, parts


def field_specs(x):
    """IR struct -> (tokens for the model's struct op, [(name, is_bit, omitted)])"""
    toks, meta = [], []
    for f in x.get("fields", []):
        nm = f.get("name") or ""
        mask = f.get("mask")
        # qt_struct.qtpl: no accessors without (mask or TL2 bit); none either when the mask is a constant
        acc = (mask is not None or f.get("tl2bit") is not None) and not (mask is not None and mask.get("kind") == "num")
        k = ("N" if f.get("isBit") else "n") if not acc else ("b" if f.get("isBit") else "f")
        toks.append(f"{nm or '-'}:{k}")
        if nm:
            meta.append((nm, bool(f.get("isBit")), nm.startswith("_")))
    return toks, meta


def run(ctx):
    quick = ctx.quick()
    pid = ctx.pid
    phases = {}
    t0 = time.time()

    def phase(name):
        nonlocal t0
        phases[name] = round(time.time() - t0, 1)
        t0 = time.time()
    with Lock():
        thm = check_theorems(PROPS)
        try:
            ref = build_refmodel(FAMILY)
            ref_err = None
        except RuntimeError as e:
            ref, ref_err = None, str(e)
    phase("coq+extraction")
    bins, berr = schema_ir.build_tools(ctx.scratch)
    ovbin, overr = build_overlay_test("internal/puregen", OVERLAY, ctx.scratch, name="puregen_build")
    phase("go tools + overlay harness")
    mism = []        # (corr name, op, model, go)
    problems = []    # (sig, what, data)

    # ---- corr:C14:decon
    dops = gen_decon_ops(ctx)
    dlines = [o[0] for o in dops]
    d_go = d_model = None
    if ovbin:
        rc, d_go, olog = run_overlay_test(ovbin, "TestVerifBuild", dlines, ctx.scratch)
        if rc != 0 or len(d_go) != len(dlines):
            overr = f"overlay harness failed rc={rc}: {olog[-400:]}"
            d_go = None
    if ref:
        rc, d_model, err = run_lines(ref, [], dlines)
        if rc != 0 or len(d_model) != len(dlines):
            ref_err = f"model driver exit {rc}: {err[-300:]}"
            d_model = None
    if d_go and d_model:
        for l, m, g in zip(dlines, d_model, d_go):
            if m != g:
                mism.append(("corr:C14:decon", l, m, g))
        # the property of the mechanism on the implementation's own outputs: returned names pairwise distinct
        for (l, kind, _), g in zip(dops, d_go):
            if kind.startswith("dec"):
                out = g.split(" ")[1:]
                reqs = l.split(" ")[2:]
                if g.startswith("panic") or len(set(out)) != len(out) or len(out) != len(reqs) or \
                        any(not (o.startswith(q) and (o == q or o[len(q):].isdigit())) for o, q in zip(out, [("" if q == "-" else q) for q in reqs]) if o != "-"):
                    problems.append((f"C14:deconflicter:{trunc(l, 60)}", f"Deconflicter returned clashing or malformed names: {trunc(l, 120)} -> {trunc(g, 120)}", {"op": l, "go": g}))

    phase("corr decon")
    # ---- end to end units
    jobs = plan_units(ctx) if not berr else []
    deadline = time.time() + (100 if quick else 300)   # no new unit starts after this; running builds finish
    results = []
    lock = threading.Lock()
    stats = {"planned": len(jobs), "ran": 0, "skipped_budget": 0, "built": 0, "nobuild": 0, "rejected": 0, "rejected_with_previous_outdir": 0}

    def work(j):
        if time.time() > deadline:
            with lock:
                stats["skipped_budget"] += 1
            return None
        r = B.run_unit(ctx.scratch, bins["tl2gen"], j["name"], j["kind"], j["files"], j["optname"], j["options"], prev=j["prev"])
        r.job = j
        r.ins = None
        if r.rc == 0:
            wl = "*" if any(o.startswith("--tl2WhiteList") for o in j["options"]) else None
            r.ins, _ = schema_ir.dump_ir(bins["verifdump"], j["files"], r.pkg.dir / "ir.json", tl2_whitelist=wl)
        with lock:
            stats["ran"] += 1
            stats[r.outcome] = stats.get(r.outcome, 0) + 1
            if r.outcome == "rejected" and r.prev:
                stats["rejected_with_previous_outdir"] += 1
            results.append(r)
        return r

    # cheap units first (rejected schemas need no build; the tiny witnesses), then the big repository builds
    # interleaved 1:3 with mutated / random schemas: whatever the wall-clock budget cuts off is a tail that
    # contains every kind of unit
    cheap = [i for i, j in enumerate(jobs) if j["kind"] in ("witness", "recursion")] + [i for i, j in enumerate(jobs) if j["kind"] == "invalid"]
    repo = [i for i, j in enumerate(jobs) if j["kind"] == "repo"]
    rest = sorted((i for i, j in enumerate(jobs) if j["kind"] in ("mutated", "random")),
                  key=lambda i: (int(re.sub(r"\D", "", jobs[i]["name"]) or 0), jobs[i]["kind"], i))
    order = list(cheap)
    while repo or rest:
        order += repo[:1] + rest[:3]
        repo, rest = repo[1:], rest[3:]
    with ThreadPoolExecutor(max_workers=8) as ex:
        list(ex.map(work, [jobs[i] for i in order]))

    phase("units (tl2gen + go build)")
    # ---- scan the generated code, names correspondence
    gen_ok = [r for r in results if r.rc == 0]
    scans = {}
    if ovbin and gen_ok:
        rc, sout, olog = run_overlay_test(ovbin, "TestVerifBuild", [f"scan {r.gen_dir}" for r in gen_ok], ctx.scratch)
        if rc == 0 and len(sout) == len(gen_ok):
            for r, o in zip(gen_ok, sout):
                if o.startswith("ok "):
                    scans[id(r)] = json.loads(o[3:])
        else:
            overr = overr or f"scan failed rc={rc}: {olog[-400:]}"
    lists_out = None
    if ref:
        rc, lo, _ = run_lines(ref, [], ["lists"])
        if rc == 0 and lo and lo[0].startswith("ok "):
            lists_out = [set(x.split(",")) for x in lo[0][3:].split(" | ")]
    m_upper = (lists_out[0] | lists_out[1]) if lists_out else set()
    names_stats = {"const": 0, "file": 0, "struct": 0, "oblig": 0, "helpers": 0, "struct_no_matching_instance": 0}
    seen_methods = set()
    pred = {}
    samples = []

    def model_run(lines):
        nonlocal ref_err
        if not ref or not lines:
            return None
        rc, mo, err = run_lines(ref, [], lines)
        if rc != 0 or len(mo) != len(lines):
            ref_err = ref_err or f"model driver exit {rc}: {err[-300:]}"
            return None
        return mo

    # phase A: constants, files, struct scopes, the obligations on names
    mlines, mexpect = [], []      # model op, (kind, unit label, expectation)
    recs = []                     # (unit result, label, scan record, [candidate (toks, meta, instance)])
    struct_ix = {}                # struct op line -> index in mlines
    has_nat = set()               # (unit, TL name) with an instance that keeps nat parameters
    scan_names = {}               # unit -> {Go struct name: scan record}
    for r in gen_ok:
        sc = scans.get(id(r))
        if not sc:
            continue
        label = f"{r.name}/{r.optname}"
        split = "--split-internal" in r.options
        for e in sc.get("errors", []):
            problems.append((f"C14:unparsable-output:{label}", f"generated file does not parse: {trunc(e, 200)}", {"unit": label}))
        for goname, tln in sc["consts"]:
            if re.fullmatch(r"[\w.]+", tln or ""):
                mlines.append(f"const {tln}")
                mexpect.append(("const", label, f"ok {goname}"))
        tlns = [t for _, t in sc["consts"] if re.fullmatch(r"[\w.]+", t or "")]
        p = pred.setdefault(id(r), {})
        if tlns:
            mlines.append("oblig_consts " + " ".join(tlns))
            mexpect.append(("oblig", label, ("b", p)))
        if lists_out is not None and names_stats["helpers"] < 3:
            names_stats["helpers"] += 1
            if set(sc["helpers"]) != lists_out[2]:
                mism.append(("corr:C14:names", f"helper identifiers of {label}", ",".join(sorted(lists_out[2] - set(sc['helpers']))) + " (model only)",
                             ",".join(sorted(set(sc["helpers"]) - lists_out[2])) + " (generated only)"))
        scan_names[id(r)] = {rec["name"]: rec for rec in sc["structs"]}
        by_tl = {}
        owner = {}     # union element -> TL name of the union type (its code lives in the union's file)
        for x in (r.ins or []):
            if x["kind"] == "struct" and x.get("tlName"):
                by_tl.setdefault(x["tlName"], []).append(x)
            if x["kind"] == "union" and x.get("tlName") and not x.get("isMaybe"):
                for v in x.get("variants") or []:
                    vt = r.ins[v].get("tlName")
                    if vt:
                        owner.setdefault(vt, x["tlName"])
        file_names = []
        for rec in sc["structs"]:
            t = rec.get("tlname")
            if not t or not re.fullmatch(r"[\w.]+", t):
                continue
            xs = by_tl.get(t)
            if not xs:
                continue
            base = rec["file"].rsplit("/", 1)[-1]
            ft = owner.get(t, t) if xs[0].get("isUnionElement") else t
            mlines.append(f"file {ft}")
            mexpect.append(("file", label, f"ok {base}"))
            file_names.append(ft)
            if "ptr" in rec["methods"] or all(x.get("isTypedef") or x.get("isAlias") or x.get("isUnwrap") for x in xs):
                continue       # `type X T`: no struct scope
            cands, seen = [], set()
            for x in xs:
                toks, meta = field_specs(x)
                line = "struct " + " ".join(toks)
                if line in seen:
                    continue
                seen.add(line)
                if line not in struct_ix:
                    struct_ix[line] = len(mlines)
                    mlines.append(line)
                    mexpect.append(("struct", label, None))
                cands.append((line, toks, meta, x))
            for x in xs:
                if x.get("natParams"):
                    has_nat.add((id(r), t))
            recs.append((r, label, rec, cands))
        heads = sorted({x["tlName"] for x in (r.ins or []) if x["kind"] in ("struct", "union") and x.get("tlName") and x.get("topLevel")})
        if file_names and not split:
            mlines.append("oblig_files " + " ".join(sorted(set(file_names))))
            mexpect.append(("oblig", label, ("a", p)))
        if heads and split:
            mlines.append("oblig_dirs " + " ".join(heads))
            mexpect.append(("oblig", label, ("a", p)))
        if heads and not split:
            mlines.append("oblig_globals " + " ".join(heads))
            mexpect.append(("oblig", label, ("d", p)))
        p["heads"] = set()
        for h in heads:
            mlines.append(f"global {h}")
            mexpect.append(("global", label, p))
    mo = model_run(mlines)
    blines, bexpect = [], []
    if mo:
        for l, (kind, label, exp), m in zip(mlines, mexpect, mo):
            names_stats[kind] = names_stats.get(kind, 0) + 1
            if kind in ("const", "file"):
                if m != exp:
                    mism.append(("corr:C14:names", f"{label}: {l}", m, exp))
            elif kind == "global":
                exp["heads"].add(m[3:])
            elif kind == "oblig":
                cls, p = exp
                if m == "ok false":
                    p[cls] = True
                elif m != "ok true":
                    mism.append(("corr:C14:names", f"{label}: {trunc(l, 120)}", m, "ok true|false"))
        # every generated struct equals the model's scope of some kernel instance of that TL name
        for r, label, rec, cands in recs:
            real_fields = [f for f in rec["fields"] if not re.fullmatch(r"tl2mask\d+", f)]
            hit = None
            first = None
            for line, toks, meta, x in cands:
                m = mo[struct_ix[line]]
                body = m[3:].split(" | ") if m.startswith("ok ") and m.count(" | ") == 2 else ["-", "-", "-"]
                accs = [] if body[1] == "-" else body[1].split(",")
                mf = [] if body[2] == "-" else body[2].split(",")
                nonfixed = [mm for mm in rec["methods"] if mm not in m_upper]
                # a function also carries result-mask accessors Set<GoType><Fields> (value bool): every extra
                # method of that shape is explained separately (racc op), the rest must be the model's accessors
                extras_c = [mm for mm in nonfixed if mm not in set(accs) and x.get("isFunction") and mm.startswith("Set")]
                dup_extras = [mm for mm in set(nonfixed) if nonfixed.count(mm) > 1 and x.get("isFunction")]
                real_acc = [mm for mm in nonfixed if mm not in extras_c]
                if dup_extras:      # a method declared twice: keep one as the accessor, the other is the extra
                    for mm in dup_extras:
                        last = len(real_acc) - 1 - real_acc[::-1].index(mm)
                        del real_acc[last]
                        extras_c.append(mm)
                goside = f"ok {','.join(real_fields) or '-'} | {','.join(real_acc) or '-'}"
                mside = f"ok {','.join(mf) or '-'} | {','.join(accs) or '-'}"
                if first is None:
                    first = (line, mside, goside)
                if mside == goside:
                    hit = (line, toks, x, accs, mside, goside, extras_c)
                    break
            if hit is None:
                names_stats["struct_no_matching_instance"] += 1
                mism.append(("corr:C14:names", f"{label}:{rec['tlname']} ({rec['name']}): {trunc(first[0], 200)}", first[1], first[2]))
                continue
            line, toks, x, accs, mside, goside, extras = hit
            fixed = [mm for mm in rec["methods"] if mm not in set(accs) and mm not in set(extras)]
            seen_methods.update(fixed)
            if lists_out:
                need = lists_out[3] if (id(r), rec["tlname"]) in has_nat else lists_out[4]
                if not need <= set(fixed) or not set(fixed) <= m_upper:
                    mism.append(("corr:C14:names", f"{label}:{rec['tlname']} ({rec['name']}): generated method set",
                                 "missing " + ",".join(sorted(need - set(fixed))) + " / not in the model's list " + ",".join(sorted(set(fixed) - m_upper)), ",".join(fixed)))
            blines.append(f"oblig_fields {','.join(fixed) or '-'} " + " ".join(toks))
            bexpect.append(("c", pred.setdefault(id(r), {}), None))
            if extras:
                blines.append(f"oblig_methods {','.join(extras)} " + " ".join(toks))
                bexpect.append(("e", pred.setdefault(id(r), {}), None))
                for ex_name in extras:      # Set<Go type><F1>And<F2>: result-mask accessor of a function
                    expl = explain_racc(ex_name, scan_names.get(id(r), {}))
                    if expl is None:
                        mism.append(("corr:C14:names", f"{label}:{rec['tlname']} ({rec['name']}): method {ex_name}",
                                     "no accessor of the model has this name", "generated"))
                    else:
                        blines.append(f"racc {expl[0]} {','.join(expl[1])}")
                        bexpect.append(("racc", None, f"ok {ex_name}"))
            if len(samples) < 6 and accs and len(goside) < 300:
                samples.append({"op": trunc(f"{label}:{rec['tlname']}: {line}", 200), "model": trunc(mside, 160), "go": trunc(goside, 160)})
    bo = model_run(blines)
    if bo:
        for l, (cls, p, want), m in zip(blines, bexpect, bo):
            if cls == "racc":
                names_stats["racc"] = names_stats.get("racc", 0) + 1
                if m != want:
                    mism.append(("corr:C14:names", trunc(l, 160), m, want))
                continue
            names_stats["oblig"] += 1
            if m == "ok false":
                p[cls] = True
                if os.environ.get("VERIF_DEBUG"):
                    log(f"[oblig {cls} false] {trunc(l, 300)}")
            elif m != "ok true":
                mism.append(("corr:C14:names", trunc(l, 120), m, "ok true|false"))
    mlines = mlines + blines
    phase("scan + names correspondence")
    # ---- verdicts of the units
    outcomes = {}
    kf_hits = {}
    for r in results:
        label = f"{r.name}/{r.optname}"
        key = f"{r.kind}:{r.outcome}"
        outcomes[key] = outcomes.get(key, 0) + 1
        replay = {"unit": label, "schema": "".join(open(f).read() for f in r.files) if r.kind != "repo" else [str(f) for f in r.files],
                  "options": r.options, "tl2gen": trunc(B._strip_ansi(r.gen_log), 1500)}
        for sig, what in r.problems:
            problems.append((sig, f"{label}: {what}", replay))
        p = pred.get(id(r))
        split = "--split-internal" in r.options
        if r.outcome == "nobuild":
            replay["go_build"] = trunc(r.build_log, 2000)
            # a known class is accepted only where the model's obligation predicts it for this very schema
            accepted = []
            for k, sig in r.classes:
                if p is None and k not in B.MESSAGE_ONLY_CLASSES:
                    continue
                if k in B.MESSAGE_ONLY_CLASSES:
                    pat = next(pt for kk, _, pt in B.CLASS_PATTERNS if kk == k)
                    errs = B.error_lines(r.build_log)
                    ok = bool(errs) and all(pat.search(e) for e in errs)     # nothing else is wrong with this package
                elif k == "d":
                    xs = re.findall(r"gen/internal/[^\s:]+\.go:\d+:\d+: (\w+) redeclared in this block", r.build_log)
                    helpers = lists_out[2] if lists_out else set()
                    ok = bool(xs) and not split and all(x in helpers or (x in p.get("heads", ()) and (x.endswith("Bytes") or x.startswith("Builtin"))) for x in xs)
                else:
                    ok = bool(p.get(k))
                if ok:
                    accepted.append((k, sig))
            if accepted and len(accepted) == len(r.classes):
                for k, sig in accepted:
                    kf_hits[sig] = kf_hits.get(sig, 0) + 1
                    ctx.violation(sig, f"{label}: tl2gen exit 0 but go build fails: {trunc(B.first_error_line(r.build_log), 200)}", replay)
            else:
                problems.append((f"C14:build:{label}", f"tl2gen exit 0 but go build fails: {trunc(B.first_error_line(r.build_log), 240)}", replay))
        if r.kind == "witness":
            want = r.job["expect"]
            got = [k for k, _ in r.classes]
            if r.outcome != "nobuild" or want not in got:
                mism.append(("corr:C14:names", f"witness of the refuted obligation ({want}) on the real generator", f"go build fails with class {want}",
                             f"{r.outcome} classes={got}"))
        # model obligations vs observed class (non-split units that were scanned)
        if p is not None and r.rc == 0:
            got = {k for k, _ in r.classes}
            pa, pb, pc, pd, pe = (bool(p.get(k)) for k in "abcde")
            why = None
            if ("a" in got) != pa:
                why = f"file-name obligation: model {'violated' if pa else 'holds'}, build class a {'seen' if 'a' in got else 'not seen'}"
            elif not pa:
                if ("b" in got) != pb:
                    why = f"constants obligation: model {'violated' if pb else 'holds'}, build class b {'seen' if 'b' in got else 'not seen'}"
                elif "c" in got and not pc:
                    why = "field/method clash in the build that the model does not predict"
                elif "e" in got and not pe:
                    why = "method declared twice in the build that the model does not predict"
                elif (pc or pd or pe) and not (got & {"c", "d", "e"}):
                    why = f"model predicts a clash in package internal (c={pc} d={pd} e={pe}) but the build shows none"
            if why:
                mism.append(("corr:C14:names", f"{label}: obligations vs go build", why, f"outcome={r.outcome} classes={sorted(got)}"))
        if r.pkg is not None:
            shutil.rmtree(r.pkg.dir, ignore_errors=True)

    if os.environ.get("VERIF_DEBUG"):
        for cn, op, m, g in mism[:60]:
            log(f"[mism] {cn} | {trunc(op, 220)} | model={trunc(m, 200)} | go={trunc(g, 200)}")
        log(f"[phases] {phases}")
    for sig, what, data in problems[:40]:
        ctx.violation(sig, what, data)
    if not ctx.violations:
        if not thm["ok"]:
            ctx.violation(f"{pid}:theorem", f"theorem no longer checks: {thm['failing_at']}", {"theorem_file": thm["props_file"], "failing_at": thm["failing_at"], "log": thm["log_tail"]}, no_input=True)
        if berr:
            ctx.violation(f"{pid}:tools", "cannot build tl2gen/verifdump from /repo: " + trunc(berr, 600), {"error": berr}, no_input=True)
        if overr:
            ctx.violation(f"{pid}:go-build", "overlay harness does not build/run: " + trunc(overr, 600), {"error": overr}, no_input=True)
        if ref_err:
            ctx.violation(f"{pid}:model-build", "reference model does not build/run: " + trunc(ref_err, 600), {"error": ref_err}, no_input=True)
        for cn, op, m, g in mism[:40]:
            ctx.violation(f"{pid}:corr:{trunc(op, 80)}", f"{cn}: model and implementation differ on {trunc(op, 160)}: model={trunc(m, 160)} go={trunc(g, 160)}",
                          {"correspondence": cn, "op": op, "model": m, "go": g}, no_input=True)

    kinds = {}
    for o in dops:
        kinds[o[1]] = kinds.get(o[1], 0) + 1
    for k, v in names_stats.items():
        kinds["names-" + k] = v
    for r in results:
        kinds[f"unit-{r.kind}"] = kinds.get(f"unit-{r.kind}", 0) + 1
    unit_samples = [{"unit": f"{r.name}/{r.optname}", "kind": r.kind, "blocks": r.job.get("blocks"), "outcome": r.outcome,
                     "classes": [k for k, _ in r.classes], "detail": trunc(B.first_error_line(r.build_log), 160) if r.outcome == "nobuild" else
                     (trunc(" / ".join(l for l in B._strip_ansi(r.gen_log).splitlines()[1:4]), 200) if r.outcome == "rejected" else "")}
                    for r in sorted(results, key=lambda r: (r.kind, r.name, r.optname))]
    i = len(dlines) // 2
    ctx.coverage.update({
        "obligations": thm["obligations"], "discharged": thm["discharged"],
        "checker_cmd": f"make -f Makefile.coq theories/{PROPS}.vo (coqc 8.16.1, full .vo build, in /verif/coq)",
        "trusted_base": ["Coq 8.16.1 kernel (vm_compute only in the *_refuted witnesses and Examples)",
                         "extraction with ExtrOcamlBasic only; OCaml 4.13.1; ocaml/conv.ml + ocaml/drv_build.ml",
                         "overlay harness overlay/internal/puregen/verif_build_test.go (Deconflicter ops; go/parser scan of the generated code)",
                         "translator overlay/cmd/verifdump (field names / masks of struct instances) and lib/build_lib.py, lib/checks/C14.py",
                         "the Go toolchain (`go build`) as the judge of 'compiles'",
                         "axioms: " + (", ".join(thm["axioms"]) if thm["axioms"] else "none (every theorem closed under the global context)")],
        "theorems": thm["statements"], "assumptions_per_theorem": thm["assumptions"],
        "evaluations": len(dlines) + len(mlines) + len(results),
        "distinct_nontrivial": len(set(dlines)) + len(set(mlines)) + len({(r.name, r.optname) for r in results}),
        "rule": "decon ops: random request streams on a fresh puregen.Deconflicter (repeats, names that look suffixed, seeded) and name functions, model vs Go; "
                "names ops: every constant / struct / file of each freshly generated package vs the model's go_names; "
                "units: (schema, option set) pairs run through the current tl2gen and, on exit 0, `go build ./gen/...` in a scratch module; all distinct",
        "op_kinds": kinds, "unit_outcomes": outcomes, "unit_stats": stats, "known_classes_hit": kf_hits,
        "correspondence": "corr:C14:decon + corr:C14:names", "correspondence_mismatches": len(mism), "oracle_failures": len(problems),
        "model_methods_seen_in_generated_code": sorted(seen_methods),
        "model_methods_never_seen": sorted(m_upper - seen_methods) if lists_out else None,
        "samples": ([{"op": trunc(dlines[i], 160), "model": trunc(d_model[i], 160) if d_model else None, "go": trunc(d_go[i], 160) if d_go else None}] if dlines else [])
                   + samples + unit_samples[:60] or [{"note": "nothing ran"}],
        "option_sets": B.option_sets("<ns>."), "phase_seconds": phases,
    })
    ctx.level = "proof"
    ctx.assumptions += ["partial: the theorems cover the naming mechanism (Deconflicter, struct scope) and refute the unprotected obligations; "
                        "that the emitted Go type-checks is observed by `go build` on the listed units, not proved",
                        "TL identifiers are ASCII (lexer alphabet): case mapping is bytewise",
                        "quick tier runs the units in priority order until a wall-clock budget; unit_stats.skipped_budget counts what did not fit"]
