"""C05 -- JSON round trip and validity of generated Go code."""
import random
import re
import threading
from concurrent.futures import ThreadPoolExecutor

from vlib import *
from gencommon import *
from json_lib import *

PROPS = "Props/C05"
KEY_OBJECT = re.compile(rb'[{,]\{"base64":"[A-Za-z0-9+/=]*"\}:')   # an object in key position (F9)


def run(ctx):
    quick = ctx.quick()
    with Lock():
        cres = run_genconsts()
        thm = check_theorems(PROPS)
        try:
            ref = build_refmodel(FAMILY)
            ref_err = None
        except RuntimeError as e:
            ref, ref_err = None, str(e)
    import time
    t0 = time.time()
    log(f"[C05] theorems+model ready")
    bins, berr, units = json_units(ctx, quick, 4 if quick else 16)
    log(f"[C05] {len(units)} units prepared in {time.time() - t0:.0f}s")
    nvals = 8 if quick else 32
    nrand = 2 if quick else 8
    stats = {"schemas": 0, "kernel_rejected": 0, "types": 0, "unmodelled_types": 0, "write_ops": 0, "roundtrip_ops": 0,
             "model_values": 0, "go_rand_values": 0, "nan_payload_values": 0, "budget_skips": 0, "model_enc_none": 0,
             "tl1_refused_by_reader": 0, "model_fuel": 0,
             "side_condition_hits": {v: 0 for v in DIAG_NAMES.values()}}
    mism, bad, samples, unit_errors, skipped_types = [], [], [], [], {}
    lock = threading.Lock()
    rngs = {u.name: random.Random(ctx.rng.getrandbits(64)) for u in units}

    def work(u):
        rng = rngs[u.name]
        if u.kernel_rejected:
            with lock:
                stats["kernel_rejected"] += 1
            return
        if u.error or not u.gen:
            with lock:
                unit_errors.append((u.name, u.error))
            return
        if ref is None:
            return
        ju = JUnit(u)
        prepare_inputs(ctx, ju, bins, ref, rng, nvals, nrand)
        if ju.error:
            with lock:
                unit_errors.append((u.name, ju.error))
            return
        inp = ju.inputs
        try:
            wfo = model_run(ref, ju, ["wf"])
        except RuntimeError as e:
            wfo = [str(e)]
        if wfo != ["ok true"]:   # the theorems are about well-formed annotated schemas: every kernel dump must be one
            with lock:
                stats["wf_false"] = stats.get("wf_false", 0) + 1
                unit_errors.append((u.name, f"wf_jschema is not true for the kernel dump: {wfo}"))
        try:
            mo = model_run(ref, ju, [f"jw1 {t} 1 {h}" for t, n, h, k in inp])
            dg = model_run(ref, ju, [f"diag {t} 1 {h}" for t, n, h, k in inp])
        except RuntimeError as e:
            with lock:
                unit_errors.append((u.name, str(e)))
            return
        rc, go, err = run_lines(u.gen.exe, [], [f"wj {n} 1 {h}" for t, n, h, k in inp], timeout=900)
        rc2, rt, err2 = run_lines(u.gen.exe, [], [f"rtj {n} 1 {h} {1 if ju.has_tl2.get(n) else 0}" for t, n, h, k in inp], timeout=900)
        if rc != 0 or rc2 != 0 or len(go) != len(inp) or len(rt) != len(inp):
            with lock:
                unit_errors.append((u.name, f"go driver failed: rc={rc},{rc2} {err[-200:]} {err2[-200:]}"))
            return
        umism, ubad, kf = [], [], []
        st = dict(ju.stats)
        st.update({"schemas": 1, "write_ops": 0, "roundtrip_ops": 0, "tl1_refused_by_reader": 0, "model_fuel": 0})
        hits = {}
        for (t, n, h, k), m, d, g, r in zip(inp, mo, dg, go, rt):
            op = f"{n} boxed {h}"
            if m == "badtl1" or g in ("eof", "reject"):
                # the TL1 reader refuses the input (length sanity, F6 of C01): both sides must agree
                st["tl1_refused_by_reader"] += 1
                if not (m == "badtl1" and g in ("eof", "reject")):
                    umism.append((u.name, "wj " + op, m, g))
                continue
            st["write_ops"] += 1
            mf = m.split(" ")
            # correspondence: the model's text is the generated writer's text, byte for byte
            if " ".join(mf[:2]) != g:
                umism.append((u.name, "wj " + op, " ".join(mf[:2]), g))
            # the tree-level recogniser and the RFC 8259 text recogniser of the model agree (theorem jvalid_text, instance)
            if mf[0] == "ok" and mf[2] != mf[3]:
                umism.append((u.name, "jvalid-vs-text " + op, m, ""))
            codes = [] if d in ("ok -", "badtl1") else d[3:].split(",")
            for c in codes:
                hits[DIAG_NAMES.get(c, c)] = hits.get(DIAG_NAMES.get(c, c), 0) + 1
            if k == "nan-payload-value":
                continue          # NaN payloads collapse by construction of the format; covered by the correspondence only
            # oracle, model-free: the property evaluated on the implementation's own outputs
            rf = r.split(" ")
            if rf[0] != "ok":
                continue
            st["roundtrip_ops"] += 1
            valid, jhex, reread, e1, ej, e2 = rf[1], rf[2], rf[3], rf[4], rf[5], rf[6]
            jtxt = bytes.fromhex(jhex) if jhex != "-" else b""
            fails = []
            if valid != "1":
                fails.append("invalid-json")
            if reread != "ok":
                fails.append("reread-rejected")
            else:
                if e1 != "1":
                    fails.append("tl1-differs")
                if ej != "1":
                    fails.append("json-differs")
                if e2 == "0":
                    fails.append("tl2-differs")
            if not fails:
                continue
            # stable signatures for the known causes (classification only; the verdict above is Go's own).  A failure is
            # attributed to a known cause only when the writer's text is the one the model predicts for this value
            same_text = " ".join(mf[:2]) == g
            if not same_text:
                sig = f"C05:roundtrip:{u.name}:{n}:{'+'.join(fails)}"
            elif KEY_OBJECT.search(jtxt) and ("invalid-json" in fails or "reread-rejected" in fails):
                sig = "C05:F9:non-utf8-dict-key"
            elif "4" in codes and valid == "1":
                sig = "C05:dict-key-escape-not-unescaped"
            elif "1" in codes and valid == "1" and reread == "ok":
                sig = "C05:negzero-float-omitted"
            else:
                sig = f"C05:roundtrip:{u.name}:{n}:{'+'.join(fails)}"
            ubad.append((u.name, "rtj " + op, f"{'+'.join(fails)} json={trunc(jtxt.decode('utf-8', 'replace'), 200)}", sig))
        with lock:
            for kk in st:
                if isinstance(st[kk], int):
                    stats[kk] = stats.get(kk, 0) + st[kk]
            for kk, vv in hits.items():
                stats["side_condition_hits"][kk] = stats["side_condition_hits"].get(kk, 0) + vv
            for n, why in ju.skipped.items():
                skipped_types[f"{u.name}:{n}"] = why
            bad.extend(ubad)
            mism.extend(umism)
            if len(samples) < 12 and inp:
                j = rng.randrange(len(inp))
                samples.append({"schema": u.name, "kind": inp[j][3], "op": trunc(f"wj {inp[j][1]} 1 {inp[j][2]}", 160),
                                "go": trunc(go[j], 140), "model": trunc(mo[j], 140), "roundtrip": trunc(rt[j], 60)})

    with ThreadPoolExecutor(max_workers=8) as ex:
        list(ex.map(work, units))
    log(f"[C05] ops done at {time.time() - t0:.0f}s")

    pid = ctx.pid
    seen = set()
    for name, op, what, sig in bad:
        if sig in seen:
            continue
        seen.add(sig)
        ctx.violation(sig, f"{name}: JSON write/read is not the identity: {trunc(op, 160)}: {trunc(what, 260)}", {"unit": name, "op": op, "go": what})
    if not ctx.violations:
        if cres.get("Prim"):
            ctx.violation(f"{pid}:tconst", "translator T-const failed: " + cres["Prim"], {"theorem": "coq/theories/Props/C05.v", "error": cres["Prim"]}, no_input=True)
        elif not thm["ok"]:
            ctx.violation(f"{pid}:theorem", f"theorem no longer checks: {thm['failing_at']}", {"theorem_file": thm["props_file"], "failing_at": thm["failing_at"], "log": thm["log_tail"]}, no_input=True)
        if berr:
            ctx.violation(f"{pid}:tools", "cannot build tl2gen/verifdump from /repo: " + trunc(berr, 600), {"error": berr}, no_input=True)
        if ref_err:
            ctx.violation(f"{pid}:model-build", "reference model does not build: " + trunc(ref_err, 600), {"error": ref_err}, no_input=True)
        for name, e in reportable_unit_errors(unit_errors, ctx)[:10]:
            ctx.violation(f"{pid}:unit:{name}", f"schema unit {name}: {trunc(e, 600)}", {"unit": name, "error": e}, no_input=True)
        for name, l, m, g in mism[:30]:
            ctx.violation(f"{pid}:corr:{name}:{trunc(l, 60)}", f"corr:C05:json {name}: model and generated code differ on {trunc(l, 140)}: model={trunc(m, 120)} go={trunc(g, 120)}",
                          {"correspondence": "corr:C05:json", "unit": name, "op": l, "model": m, "go": g}, no_input=True)
    ctx.coverage.update({
        "obligations": thm["obligations"], "discharged": thm["discharged"],
        "checker_cmd": f"make -f Makefile.coq theories/{PROPS}.vo (coqc 8.16.1, full .vo build, in /verif/coq)",
        "trusted_base": ["Coq 8.16.1 kernel", "translator overlay/cmd/verifdump (kernel dump -> schema IR, --instantiateConstants as the Go generator) and lib/json_lib.py (annotated IR file writer)",
                         "translator tools/genconsts (safeSet, hex, base64 markers of pkg/basictl)", "extraction ExtrOcamlBasic only; ocaml/conv.ml, ocaml/json/jschema_io.ml, ocaml/drv_json.ml",
                         "float <-> text: strconv.AppendFloat / ParseFloat are an oracle (texts taken from strconv on the Go side, op ffmt)",
                         "Go harness harness/go/gendrv (ops_json.go); comparison in lib/checks/C05.py",
                         "axioms: " + (", ".join(thm["axioms"]) if thm["axioms"] else "none (every theorem closed under the global context)")],
        "theorems": thm["statements"], "assumptions_per_theorem": thm["assumptions"],
        "evaluations": stats["write_ops"] + stats["roundtrip_ops"], "distinct_nontrivial": stats["model_values"] + stats["go_rand_values"] + stats["nan_payload_values"],
        "rule": "per schema (cases.tl with and without TL2, goldmaster, random schemas): type-directed wire values (strings over all bytes / broken UTF-8 / escaper specials, floats over special bit patterns) "
                "encoded by the model and FillRandom values from Go; each is read by the generated ReadTL1, written by WriteJSONGeneral and compared byte for byte with jprint (jsonw v); "
                "oracle on Go only: json.Valid, ReadJSONGeneral of the text, then WriteTL1/WriteJSON/WriteTL2 equal the original's; non-trivial = accepted by the generated TL1 reader",
        "stats": stats, "correspondence": "corr:C05:json", "correspondence_mismatches": len(mism), "oracle_failures": len(bad),
        "unmodelled": {"types_skipped": dict(list(skipped_types.items())[:40]),
                       "constructs": ["byte/bit/uint64 primitives and TL2-origin types", "bytes versions (CreateObjectBytes)", "JSONWriteContext Short/LegacyTypeNames/IsTL2 modes",
                                      "WrWithoutLong aliases of union constructors", "function results (C07)", "reading into a dirty object (C09)"]},
        "samples": samples or [{"note": "no ops ran"}],
        "schemas": [{"name": u.name, "options": u.options, "instances": len(u.ins or []), "error": trunc(u.error, 200) if u.error else None} for u in units],
    })
    ctx.assumptions += ["64-bit platform", "the templates are modelled, not verified: agreement shown on the listed schemas/values",
                        "kernel resolution trusted for repository schemas (the IR is dumped from the kernel)",
                        "strconv float formatting/parsing is an oracle", "NaN payloads collapse to the canonical NaN (text \"NaN\"): round trip stated up to that"]
