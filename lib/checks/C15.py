"""C15 -- code generation is deterministic.

Three parts:
  * theorems Props/C15.v (input walk, collect-then-sort, OutDir.Write order independence),
  * correspondence corr:C15:walk -- utils.WalkDeterministic (overlay harness, real directory trees) vs the
    extracted model, plus pairs of identical histories with the generated files listed in a different
    order run through the real OutDir.Write (its map iteration + worker pool) vs the model,
  * the deciding observation for everything the model does not cover (scheduler, map iteration inside the
    generators): the real tl2gen / tlgen binaries are run several times per output language with
    GOMAXPROCS in {1,2,16}, shuffled order of the input files, files vs directory arguments, and the
    output trees are compared byte by byte."""
import filecmp
import hashlib

from vlib import *
import outdir_lib as ol
from checks.C16 import rand_hist

PROPS = "Props/C15"
FAMILY = "outdir"


# ----------------------------------------------------------------------------- walk ops

def rand_tree(rng):
    dirs = ["a", "b", "a.b", "a-b", "sub", "A", "z.tl"]
    leaves = ["a.tl", "b.tl", "z.tl", "x.tl2", "n.txt", "a.tlx", "tl", ".tl", "q.tl", "a.b.tl"]
    entries = []
    paths = set()
    for _ in range(rng.randrange(0, 12)):
        d = rng.choice([0, 1, 1, 2, 2, 3])
        comps = [rng.choice(dirs) for _ in range(d)]
        if rng.random() < 0.8:
            p = "/".join(comps + [rng.choice(leaves)])
            kind = "f"
        else:
            p = "/".join(comps + [rng.choice(dirs)])
            kind = "d"
        # keep the tree consistent: no file where a directory is needed and vice versa
        anc = ["/".join(p.split("/")[:k]) for k in range(1, p.count("/") + 1)]
        if any((a, "f") in paths for a in anc) or (p, "f") in paths or (p, "d") in paths:
            continue
        paths.add((p, kind))
        for a in anc:
            paths.add((a, "d"))
        entries.append(f"{kind}:{p}" + (":-" if kind == "f" else ""))
    return entries, paths


def walk_op(rng):
    entries, paths = rand_tree(rng)
    ext = rng.choice([".tl", ".tl", ".tl2", ".txt"])
    cands = sorted({p for p, k in paths}) or ["a"]
    roots = []
    for _ in range(rng.randrange(1, 4)):
        r = rng.random()
        if r < 0.08:
            roots.append(rng.choice(["missing", "a/missing.tl"]))
        else:
            roots.append(rng.choice(cands))
    line = f"walk {ext} {','.join(roots)} {','.join(entries) or '-'}"
    files = sorted(p for p, k in paths if k == "f")
    exist = {p for p, k in paths}
    if any(r not in exist for r in roots):
        want = "err"
    else:
        got = []
        for r in roots:
            for f in files:
                if (f == r or f.startswith(r + "/")) and f.endswith(ext):
                    got.append(f)
        got.sort(key=lambda s: s.encode())
        want = "ok " + (",".join(got) or "-")
    return line, want


def shuffle_items(rng, line):
    f = line.split(" ")
    steps = []
    for s in ol.split(f[5], ";"):
        if s.startswith("g:"):
            g = s.split(":")
            items = ol.split(g[2], ",")
            rng.shuffle(items)
            s = f"g:{g[1]}:{','.join(items) or '-'}"
        steps.append(s)
    f[5] = ";".join(steps)
    return " ".join(f)


def gen_ops(ctx):
    rng = ctx.rng
    quick = ctx.quick()
    ops = []
    for _ in range(1500 if quick else 30000):
        line, want = walk_op(rng)
        ops.append((line, "walk", want))
    # the same history with the generated files in another order (model: list order; Go: map order + 16 workers)
    n = 0
    while n < (150 if quick else 3000):
        line, data = rand_hist(rng, "pure")
        l2 = shuffle_items(rng, line)
        if l2 == line:
            continue
        ops.append((line, "perm", len(ops) + 1))
        ops.append((l2, "perm", len(ops) - 1))
        n += 1
    return ops


def oracle(ctx, ops, go_out):
    bad = []
    for i, ((op, kind, data), out) in enumerate(zip(ops, go_out)):
        if kind == "walk":
            if out != data:
                bad.append((op, kind, f"{out}  (files with the extension under the roots, sorted: {data})", "C15:walk:not-the-sorted-file-list"))
        elif kind == "perm":
            other = go_out[data]
            if out != other and i < data:
                bad.append((op, kind, f"order of the generated files changes the result: {trunc(out, 200)} vs {trunc(other, 200)}",
                            "C15:outdir:order-dependent"))
    return bad


# ----------------------------------------------------------------------------- repeated runs of the real generators

def digest_tree(p):
    """{relative path: sha1} of a file or a directory tree (directories recorded with a trailing /)"""
    p = Path(p)
    if p.is_file():
        return {".": hashlib.sha1(p.read_bytes()).hexdigest()}
    res = {}
    for d, ds, fs in os.walk(p):
        rel = os.path.relpath(d, p)
        for x in ds:
            res[os.path.normpath(os.path.join(rel, x)) + "/"] = "dir"
        for x in fs:
            fp = os.path.join(d, x)
            res[os.path.normpath(os.path.join(rel, x))] = hashlib.sha1(Path(fp).read_bytes()).hexdigest()
    return res


def first_diff(a, b):
    la, lb = a.splitlines(), b.splitlines()
    for i, (x, y) in enumerate(zip(la, lb)):
        if x != y:
            return i + 1, x[:200], y[:200]
    return min(len(la), len(lb)) + 1, "<end>" if len(la) <= len(lb) else la[len(lb)][:200], "<end>" if len(lb) <= len(la) else lb[len(la)][:200]


def det_runs(ctx):
    """Returns (configs run, runs, list of violation dicts)."""
    rng = ctx.rng
    quick = ctx.quick()
    tl2gen, e1 = ol.build_tool(ctx, "tl2gen")
    tlgen, e2 = ol.build_tool(ctx, "tlgen")
    if not tl2gen or not tlgen:
        ctx.violation("C15:det:build", "generator binaries do not build: " + trunc(e1 or e2, 400), {"error": e1 or e2}, no_input=True)
        return 0, 0
    work = Path(ctx.scratch) / "det"
    work.mkdir()
    # schema sets, copied so that file and directory arguments name the same files
    sets = {
        "goldmaster": [ol.TLS / "goldmaster.tl", ol.TLS / "goldmaster2.tl", ol.TLS / "goldmaster3.tl"],
        "cases": [ol.TLS / "cases.tl"],
        "cases12": [ol.TLS / "cases.tl", ol.TLS / "cases.tl2"],
        "schema": [ol.TLS / "schema.tl"],
        "test12": [REPO / "cmd/tl2client/test.tl", REPO / "cmd/tl2client/test.tl2"],
    }
    # own corpus: generics (pair, triple, vector, Maybe, dictionary, tuple, nested) instantiated over 2-3 namespaces
    # in several combinations and referenced from different namespaces, spread over 5 files in 3 directory levels.
    # Repository schemas have no such instantiation; the placement of these instances is a namespace decision.
    shutil.copytree(VERIF / "corpus" / "C15" / "nsgen", work / "sch" / "nsgen")
    for name, files in sets.items():
        d = work / "sch" / name
        (d / "sub").mkdir(parents=True)
        for i, f in enumerate(files):
            # second file goes one level down: the directory argument has to recurse
            shutil.copy(f, (d / "sub" / f.name) if i == 1 else (d / f.name))
    meta = ["--schemaURL=https://example.org/s.tl", "--schemaCommit=abcdefgh", "--schemaTimestamp=301822800"]
    go_common = ["--language=go", "--basicPkgPath=github.com/VKCOM/tl/pkg/basictl", "--basicRPCPath=github.com/VKCOM/tl/pkg/rpc",
                 "--generateRPCCode", "--generateRandomCode", "--pkgPath=example.com/u/r/gen/tl"] + meta
    configs = [
        # (id, tool, args, schema set, output kind)
        ("tl2gen:go:split", tl2gen, go_common + ["--split-internal", "--tl2WhiteList=*", "--generateByteVersions=ch_proxy.,ab."], "goldmaster", "dir"),
        ("tl2gen:go:nosplit", tl2gen, go_common + ["--generateByteVersions=cases_bytes.", "--checkLengthSanity=false"], "cases", "dir"),
        ("tl2gen:go:tl2", tl2gen, go_common + ["--tl2WhiteList=*", "--split-internal"], "test12", "dir"),
        ("tl2gen:go:nsgen", tl2gen, go_common, "nsgen", "dir"),
        ("tl2gen:go:nsgen:split", tl2gen, go_common + ["--split-internal"], "nsgen", "dir"),
        ("tl2gen:go:nsgen:tl2", tl2gen, go_common + ["--tl2WhiteList=*"], "nsgen", "dir"),
        ("tl2gen:go:nsgen:split+tl2", tl2gen, go_common + ["--split-internal", "--tl2WhiteList=*", "--generateByteVersions=*"], "nsgen", "dir"),
        ("tl2gen:php:nsgen", tl2gen, ["--language=php", "--php-use-builtin-data-providers", "--php-serialization-bodies", "--php-generate-meta", "--php-generate-factory"], "nsgen", "dir"),
        ("tl2gen:rust:nsgen", tl2gen, ["--language=rust", "--tl2WhiteList=*"] + meta, "nsgen", "dir"),
        ("tl2gen:canonical:nsgen", tl2gen, ["--language=canonical"], "nsgen", "file"),
        ("tlgen:cpp:nsgen", tlgen, ["--language=cpp", "--cpp-generate-meta=true", "--cpp-generate-factory=true", "--schemaTimestamp=301822800"], "nsgen", "dir"),
        ("tlgen:php:nsgen", tlgen, ["--language=php", "--php-serialization-bodies", "--schemaTimestamp=301822800"], "nsgen", "dir"),
        ("tl2gen:php", tl2gen, ["--language=php", "--php-use-builtin-data-providers", "--php-serialization-bodies", "--php-generate-meta", "--php-generate-factory"], "cases", "dir"),
        ("tl2gen:tlo", tl2gen, ["--language=tlo", "--schemaTimestamp=301822800"], "goldmaster", "file"),
        ("tl2gen:canonical", tl2gen, ["--language=canonical"], "goldmaster", "file"),
        ("tl2gen:tljson.html", tl2gen, ["--language=tljson.html"] + meta, "goldmaster", "file"),
        ("tl2gen:rust", tl2gen, ["--language=rust", "--tl2WhiteList=*"] + meta, "goldmaster", "dir"),
        ("tlgen:cpp", tlgen, ["--language=cpp", "--cpp-generate-meta=true", "--cpp-generate-factory=true", "--schemaTimestamp=301822800"], "cases", "dir"),
        ("tlgen:php", tlgen, ["--language=php", "--php-serialization-bodies", "--php-generate-meta", "--php-generate-factory", "--schemaTimestamp=301822800"], "cases", "dir"),
    ]
    if not quick:
        configs += [
            ("tl2gen:go:schema", tl2gen, go_common + ["--split-internal"], "schema", "dir"),
            ("tl2gen:go:cases12", tl2gen, go_common + ["--tl2WhiteList=*"], "cases12", "dir"),
            ("tl2gen:php:schema", tl2gen, ["--language=php", "--php-use-builtin-data-providers"], "schema", "dir"),
            ("tl2gen:php:goldmaster", tl2gen, ["--language=php", "--php-use-builtin-data-providers"], "goldmaster", "dir"),
            ("tl2gen:rust:test12", tl2gen, ["--language=rust", "--tl2WhiteList=*"] + meta, "test12", "dir"),
            ("tlgen:cpp:goldmaster", tlgen, ["--language=cpp", "--schemaTimestamp=301822800"], "goldmaster", "dir"),
            ("tlgen:cpp:schema", tlgen, ["--language=cpp", "--schemaTimestamp=301822800"], "schema", "dir"),
            ("tl2gen:tlo:schema", tl2gen, ["--language=tlo", "--schemaTimestamp=301822800"], "schema", "file"),
        ]
    k = 6 if quick else 12   # a 50/50 map-order choice survives 6 runs with probability 1/32
    procs = [1, 2, 16] if quick else [1, 2, 3, 16]
    runs = 0
    stats = {}
    for cid, tool, args, sname, okind in configs:
        sdir = Path("sch") / sname
        files = sorted(str(p.relative_to(work)) for p in (work / sdir).rglob("*") if p.is_file())
        ref = None
        ref_cmd = None
        failed = False
        for i in range(k):
            gmp = procs[i % len(procs)]
            form = ["files", "shuffled", "dir"][i % 3] if i < 3 else rng.choice(["files", "shuffled", "dir", "dir+slash"])
            if form == "files":
                inputs = list(files)
            elif form == "shuffled":
                inputs = list(files)
                rng.shuffle(inputs)
                if inputs == files and len(files) > 1:
                    inputs.reverse()
            elif form == "dir":
                inputs = [str(sdir)]
            else:
                inputs = ["./" + str(sdir) + "/"]
            out = work / f"out-{cid.replace(':', '_').replace('.', '_')}-{i}"
            oarg = f"--outdir={out}" if okind == "dir" else f"--outfile={out}"
            argv = [str(tool)] + args + [oarg] + inputs
            env = goenv()
            env["GOMAXPROCS"] = str(gmp)
            rc, so, se = sh(argv, cwd=str(work), env=env, timeout=600)
            runs += 1
            if rc != 0 and i == 0:
                # the generator does not handle this schema at all: nothing to compare (not a determinism question)
                stats[cid] = {"skipped": "generator fails on this input: " + trunc((so + se).strip().splitlines()[-1] if (so + se).strip() else "", 120)}
                break
            if rc != 0:
                failed = True
                ctx.violation(f"C15:det:{cid}:generator-failed", f"{cid}: generator succeeded on the first run but exits {rc} for input form '{form}', GOMAXPROCS={gmp}: {trunc((so + se)[-300:], 300)}",
                              {"argv": argv, "cwd": "<scratch>/det", "GOMAXPROCS": gmp, "output": (so + se)[-2000:]})
                break
            dg = digest_tree(out) if okind == "dir" else {str(p.name)[len(out.name):] or ".": hashlib.sha1(p.read_bytes()).hexdigest()
                                                         for p in sorted(out.parent.glob(out.name + "*")) if p.is_file()}
            if ref is None:
                ref, ref_cmd, ref_out = dg, (argv, gmp), out
                stats[cid] = {"files": len([v for v in dg.values() if v != "dir"]), "runs": 0}
            elif dg != ref:
                diff = sorted(p for p in set(dg) | set(ref) if dg.get(p) != ref.get(p))
                p0 = diff[0]
                detail = {"config": cid, "differing_paths": diff[:20], "run_a": {"argv": ref_cmd[0], "GOMAXPROCS": ref_cmd[1]},
                          "run_b": {"argv": argv, "GOMAXPROCS": gmp}, "cwd": "scratch copy of the schemas: sch/<set>/ (2nd file under sub/)"}
                fa = (ref_out / p0) if okind == "dir" else Path(str(ref_out) + (p0 if p0 != "." else ""))
                fb = (out / p0) if okind == "dir" else Path(str(out) + (p0 if p0 != "." else ""))
                if fa.is_file() and fb.is_file():
                    keep = VERIF / "build" / "replay" / f"C15-{ctx.tier}-{ctx.seed}-files"
                    keep.mkdir(parents=True, exist_ok=True)
                    shutil.copy(fa, keep / ("a_" + fa.name))
                    shutil.copy(fb, keep / ("b_" + fb.name))
                    ln, xa, xb = first_diff(fa.read_text(errors="replace"), fb.read_text(errors="replace"))
                    detail.update({"file_a": str(keep / ("a_" + fa.name)), "file_b": str(keep / ("b_" + fb.name)),
                                   "first_difference": {"line": ln, "a": xa, "b": xb}})
                ctx.violation(f"C15:det:{cid}:{p0}", f"{cid}: two runs give different output ({len(diff)} paths differ, first {p0}; "
                              f"GOMAXPROCS {ref_cmd[1]} vs {gmp}, input form '{form}')", detail)
                break
            stats[cid]["runs"] += 1
        for o in work.glob(f"out-{cid.replace(':', '_').replace('.', '_')}-*"):
            if o.is_dir():
                shutil.rmtree(o, ignore_errors=True)
            else:
                o.unlink()
    ctx.notes["determinism_runs"] = {"configs": len(configs), "runs": runs, "runs_per_config": k, "GOMAXPROCS": procs,
                                     "input_forms": ["files in sorted order", "files shuffled", "directory (second file one level down)"]
                                     + ([] if quick else ["./dir/ spelling"]),
                                     "per_config": stats}
    return len(configs), runs


def post(ctx, ops, model_out, go_out):
    det_runs(ctx)


def run(ctx):
    standard_run(
        ctx, props=PROPS, family=FAMILY, consts=["Outdir"], go_runner=ol.go_runner, gen_ops=gen_ops, oracle=oracle,
        corr_name="corr:C15:walk", post=post,
        trusted=["overlay harness overlay/internal/puregen/verif_outdir_test.go (TestVerifOutdir: walk and hist ops), lib/outdir_lib.py, lib/checks/C15.py",
                 "byte comparison of output trees of the real binaries (sha1 per file)"],
        assumptions=["PARTIAL: the Go scheduler and map iteration order inside the generators are not modelled; determinism of the generators "
                     "themselves is observed on repeated runs (see determinism_runs), not proved",
                     "proved for all inputs: WalkDeterministic model independent of enumeration order and root order; "
                     "collect-then-sort independent of collection order iff keys unique; OutDir.Write model independent of the order of generated files",
                     "file trees of regular files and directories (no symlinks); path separator '/'"],
        rule="walk: one evaluation = WalkDeterministic on a random real directory tree (Go) vs the extracted model vs the sorted list computed by the check; "
             "perm: one evaluation = a history of generations through the real OutDir.Write, paired with the same history listing the files in another order; "
             "plus determinism_runs: repeated runs of tl2gen/tlgen per output language compared byte by byte")
