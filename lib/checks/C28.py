"""C28 -- the backward-compatibility linter is sound for TL1 wire compatibility (partial proof + per-instance oracle)."""
import re
import shutil

import json

from vlib import *
import lint_lib as L

PROPS = "Props/C28"
FAMILY = "lint"


def gen_pairs_module(ctx, chosen):
    """chosen: list of (index, old path, new path).  Generates Go code for both schemas of every pair with the real
    tl2gen binary, writes pairs_gen.go, builds harness/go/lintdrv.  Returns (binary | None, usable indices, log)."""
    mod = Path(ctx.scratch) / "lintdrv"
    if mod.exists():
        shutil.rmtree(mod)
    shutil.copytree(VERIF / "harness" / "go" / "lintdrv", mod)
    (mod / "go.mod").write_text((mod / "go.mod.tmpl").read_text().replace("@REPO@", str(REPO)))
    (mod / "go.mod.tmpl").unlink()
    shutil.copy(REPO / "go.sum", mod / "go.sum")
    tl2gen = Path(ctx.scratch) / "tl2gen.bin"
    rc, so, se = sh(["go", "build", "-o", str(tl2gen), "./cmd/tl2gen"], cwd=REPO, env=goenv(), timeout=900)
    if rc != 0:
        return None, [], "cannot build tl2gen: " + (so + se)[-500:]
    usable, skipped = [], 0
    for i, o, n in chosen:
        ok = True
        for tag, path in (("o", o), ("n", n)):
            out = mod / f"p{i}{tag}"
            rc, so, se = sh([str(tl2gen), "--language=go", f"--outdir={out}", f"--pkgPath=verifh/p{i}{tag}/tl",
                             "--basicPkgPath=github.com/VKCOM/tl/pkg/basictl", "--generateRandomCode", path], timeout=120)
            if rc != 0:
                ok = False
                break
        if ok:
            usable.append(i)
        else:
            skipped += 1
            for tag in "on":
                shutil.rmtree(mod / f"p{i}{tag}", ignore_errors=True)
    imports, inits = [], []
    for i in usable:
        imports += [f'fo{i} "verifh/p{i}o/factory"', f'mo{i} "verifh/p{i}o/meta"', f'fn{i} "verifh/p{i}n/factory"']
        inits.append(f"""	{{
		var items []item
		for _, it := range mo{i}.GetAllTLItems() {{
			items = append(items, item{{it.TLName(), it.IsFunction()}})
		}}
		pairs[{i}] = &pair{{items: items,
			createOld: func(n string) object {{ if o := fo{i}.CreateObjectFromName(n); o != nil {{ return o }}; return nil }},
			createNew: func(n string) object {{ if o := fn{i}.CreateObjectFromName(n); o != nil {{ return o }}; return nil }}}}
	}}""")
    (mod / "pairs_gen.go").write_text("package main\n\nimport (\n\t" + "\n\t".join(imports) + "\n)\n\nfunc init() {\n" + "\n".join(inits) + "\n}\n")
    rc, so, se = sh(["go", "build", "-o", "lintdrv", "."], cwd=mod, env=goenv(), timeout=1500)
    if rc != 0:
        return None, usable, "generated code does not build: " + (so + se)[-1500:]
    return mod / "lintdrv", usable, f"tl2gen refused {skipped} of {len(chosen)} pairs"


def gen_ops(ctx):
    rng = ctx.rng
    quick = ctx.quick()
    ctx._lint = {"go": [], "err": None, "enc": []}
    b, err = L.lint_harness(ctx)
    if not b:
        ctx._lint["err"] = err
        return []
    variant, probes = L.probe_variant(ctx)
    if variant is None:
        ctx._lint["err"] = probes
        return []
    ctx.notes["model_variant(bare,args,rep fixed?)"] = variant
    n = 90 if quick else 800
    pairs, kinds = [], []
    for i in range(n):
        s = L.Gen(rng).schema(ntypes=rng.randrange(2, 6), nfuns=rng.randrange(1, 3), chain=(i % 3 == 0), shared=(i % 4 == 1))
        if i % 5 != 0:   # explicit tags: appending a field must not move the (otherwise CRC32-derived) tag
            for c in s.combs:
                c.tag = rng.randrange(1, 1 << 32)
        r = rng.random()
        if i % 3 == 0 and r < 0.6:   # a bit that means something only two or more type levels below the edited mask
            k = rng.choice(["bit-reuse-deep", "bit-reuse-targ"])
            new = L.unsafe_edit(rng, s, k)
            k = "unsafe:" + k
        elif r < 0.5:
            new, ks = L.safe_edits(rng, s, rng.randrange(1, 5), strict_masks=True)
            k = ("safe:" + ks[0] if len(set(ks)) == 1 else f"safe:mixed-seq{len(ks)}") if ks else None
        elif r < 0.6:
            new, k = L.unsafe_edit(rng, s, "ty-bare"), "ty-bare"
        elif r < 0.66:
            new, k = L.unsafe_edit(rng, s, "ty-rep"), "ty-rep"
        elif r < 0.95:   # whatever else the linter lets through must be wire compatible too
            k = rng.choice([x for x in L.UNSAFE_KINDS if x not in ("ty-bare", "ty-rep")])
            new = L.unsafe_edit(rng, s, k)
            k = "unsafe:" + k
        else:
            new, k = s, "refl"
        if new is None or k is None:
            continue
        pairs.append((s.tl(), new.tl()))
        kinds.append(k)
    # a mask / nat source re-pointed between template argument #k and field #k (k = 0, 1, 2), nothing else changed
    for j in range(12 if quick else 120):
        k_, v_ = (0, 1, 2)[j % 3], L.MASK_SOURCE_VARIANTS[(j // 3) % len(L.MASK_SOURCE_VARIANTS)]
        pairs.append(L.mask_source_pair(rng, k_, v_))
        kinds.append("unsafe:mask-source-moved")
    items = [(k, "pair", o, p, None) for (o, p), k in zip(L.write_pairs(ctx, pairs), kinds)]
    ops, go, dropped = L.build_lint_ops(ctx, items, variant)
    if ops is None:
        ctx._lint["err"] = go
        return []
    ctx.notes["dropped_not_individually_valid"] = dropped
    ctx._lint["go"] = go
    # the pairs the REAL linter accepts -> generated code for both schemas
    acc = [(i, o) for i, (o, g) in enumerate(zip(ops, go)) if g == "accept"]
    want = 7 if quick else 40
    byk = {}
    for i, o in acc:
        byk.setdefault(o[1], []).append((i, o))
    chosen = [byk['unsafe:mask-source-moved'].pop(0) for _ in range(min(3, len(byk.get('unsafe:mask-source-moved', []))))]
    while len(chosen) < want and any(byk.values()):   # round robin over the kinds
        for k in sorted(byk, key=lambda k: (k != 'unsafe:mask-source-moved', not k.startswith(('ty-', 'unsafe:')), k)):   # the accepted-but-unsafe kinds first
            if byk[k] and len(chosen) < want:
                chosen.append(byk[k].pop(0))
    binp, usable, lg = gen_pairs_module(ctx, [(i, o[2]["old"], o[2]["new"]) for i, o in chosen])
    ctx.notes["generated_code"] = lg
    if not binp:
        ctx._lint["enc_err"] = lg
        return ops
    # one process per pair: a fatal error of generated code (FillRandom of a recursive type can overflow the stack,
    # findings F1/F7 of other properties) must not take the other pairs with it
    crashed = 0
    for i in usable:
        rc, out, err = run_lines(binp, [], [f"{i} {25 if quick else 100} {rng.randrange(1 << 30)}"], timeout=300)
        if rc != 0 or len(out) != 1:
            head = err.strip().split("\n")[0] if err.strip() else f"exit {rc}"
            if "stack overflow" in err or "goroutine stack exceeds" in err:
                crashed += 1
                continue
            ctx._lint["enc"].append((ops[i], f"diff crash {head}"))
        else:
            ctx._lint["enc"].append((ops[i], out[0]))
    ctx.notes["generated_code_stack_overflow_in_FillRandom_skipped"] = crashed
    return ops


def go_runner(ctx, lines):
    if ctx._lint["err"]:
        return None, ctx._lint["err"]
    return ctx._lint["go"], ""


def tags_of_dump(sx):
    return {m.group(1): int(m.group(2)) for m in re.finditer(r"\( c '(\S*) (\d+) ", sx)}


def tag_changed(op):
    """does some combinator of the old dump have another tag in the new dump"""
    toks = op.split(" ", 2)[2]
    depth, cut = 0, None
    for i, ch in enumerate(toks):   # the op line is "lint <variant> <old sexp> <new sexp>"
        if ch == "(":
            depth += 1
        elif ch == ")":
            depth -= 1
            if depth == 0:
                cut = i + 1
                break
    old, new = tags_of_dump(toks[:cut]), tags_of_dump(toks[cut:])
    return sorted(n for n, t in old.items() if n in new and new[n] != t)


def replay_text(data):
    """the failing pair itself (the scratch files are gone after the run)"""
    try:
        return f"{data['mode']} {data['old']} {data['new']} OLD={json.dumps(Path(data['old']).read_text())} NEW={json.dumps(Path(data['new']).read_text())}"
    except OSError:
        return f"{data['mode']} {data['old']} {data['new']}"


def oracle(ctx, ops, go_out):
    """accepted by the real linter => old values encode identically under the new schema and old bytes round-trip"""
    bad = []
    same = 0
    for (op, kind, data), r in ctx._lint["enc"]:
        if r.startswith("same"):
            same += 1
            continue
        if kind == "unsafe:mask-source-moved":
            sig = "C28:accepted-incompatible:mask-source-moved"
        elif kind == "ty-bare":
            sig = "C28:F2:bare-flag"
        elif kind == "ty-rep":
            sig = "C28:repeat-contents"
        elif tag_changed(op):
            sig = "C28:tag-changed"
            r += " [tags of " + ",".join(tag_changed(op)[:3]) + " differ]"
        else:
            sig = f"C28:encoding-differs:{kind}:{r.split(' ')[1] if ' ' in r else r}"
        bad.append((replay_text(data), kind, r, sig))
    if ctx._lint.get("enc_err"):
        bad.append(("generated-code harness", "harness", ctx._lint["enc_err"], "C28:harness"))
    ctx.notes["accepted_pairs_checked_on_generated_code"] = len(ctx._lint["enc"])
    ctx.notes["accepted_pairs_with_identical_encodings"] = same
    ctx.notes["generated_code_results"] = [f"{o[1]}: {trunc(r, 120)}" for o, r in ctx._lint["enc"]]
    return bad


def run(ctx):
    standard_run(
        ctx, props=PROPS, family=FAMILY, consts=[], go_runner=go_runner, gen_ops=gen_ops, oracle=oracle,
        corr_name="corr:C28:lint",
        trusted=["overlay harness overlay/cmd/tlgen/verif_lint_test.go (real runMain of tlgen in linter mode + S-expression dump)",
                 "harness/go/lintdrv (drives the Go code tl2gen generates for both schemas through factory/meta), "
                 "generator and oracle in lib/lint_lib.py, lib/checks/C28.py"],
        assumptions=["PARTIAL proof: the theorems are about one constructor's field list under an abstract encoder (per-field "
                     "value encoders, nested types, function results, the read side are abstracted); the step from 'lint accepts' "
                     "to wire compatibility of whole schemas is false today (F2, repetitions) and is checked per instance on "
                     "generated code",
                     "old values are produced by the old package's FillRandom, which by construction sets only field-mask bits "
                     "the old schema uses",
                     "only pairs both of whose schemas tl2gen accepts can be exercised on generated code",
                     "Go code is modelled, not verified: agreement is established on the pairs listed under op_kinds"],
        rule="random base schemas x (safe edit sequences | a bare-flag change | a repetition change | nothing), from VERIF_SEED; every "
             "pair goes through the real tlgen linter and the extracted Coq model (verdict + error class must agree); for a sample "
             "of the pairs the REAL linter accepts, Go code is generated from both schemas by tl2gen and old random values must "
             "encode to identical TL1 bytes and old bytes must be read and re-written unchanged by the new code")
