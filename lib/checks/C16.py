"""C16 -- output directory management is exact and safe
(internal/puregen/outdir.go OutDir.Write, internal/tlcodegen/tlgen.go Gen2.WriteToDir)."""
from vlib import *
import outdir_lib as ol

PROPS = "Props/C16"
FAMILY = "outdir"

GO_OK = b"package a\n"
GO_OK2 = b"package b\n"


def content_pool(name):
    if name.endswith(".go"):
        return [GO_OK, GO_OK2, b"zz"]
    return [b"", b"a", b"b", b"ab"]


def rand_hist(rng, variant):
    legacy = variant != "pure"
    out = rng.choice(["gen", "gen", "p/gen", "p/gen", "p/q/gen"])
    depth = out.count("/")
    parent = out.rsplit("/", 1)[0] if "/" in out else "."
    if legacy:
        marker = "tlgen2_version.txt"
    else:
        marker = rng.choice(["m.txt", "m.txt", "meta/meta.go", "VK/TL/f.php", "Cargo.toml", "a/m"])
    dirs = ["a", "b", "c", "a.b", "q.go", "meta"]
    leaves = ["a", "b", "c", "a.b", "d.txt", "e.h", "z.o", "q.go", "k.php", "y.o"]

    def rname():
        d = rng.choice([0, 0, 1, 1, 2])
        return "/".join([rng.choice(dirs) for _ in range(d)] + [rng.choice(leaves)])

    universe = sorted({rname() for _ in range(rng.randrange(3, 10))})
    esc = []
    r = rng.random()
    if r < 0.18:
        ups = rng.randrange(1, depth + 2)
        esc.append("/".join([".."] * ups + ["lib", "r.txt"]))
        if rng.random() < 0.3:
            esc.append("/".join([".."] * ups + ["lib", "s.go"]))
    elif r < 0.22:
        esc.append("..x/y.txt")
    elif r < 0.26:
        esc.append("a/../w.txt")
    elif r < 0.29:
        esc.append("../" + out.rsplit("/", 1)[-1] + "/back.txt")   # resolves back into the outdir
    universe += esc
    init = []
    kind = rng.choice(["fresh", "fresh", "empty", "emptydirs", "foreign", "foreign+marker", "noparent", "outfile",
                       "prevgen"])
    if kind != "noparent" and parent != ".":
        init.append(f"d:{parent}")
    if kind == "empty":
        init.append(f"d:{out}")
    elif kind == "emptydirs":
        init += [f"d:{out}/a/b", f"d:{out}/zz"]
    elif kind in ("foreign", "foreign+marker", "prevgen"):
        for _ in range(rng.randrange(1, 4)):
            n = rng.choice(universe[:len(universe) - len(esc)] + ["README", "x/y/z.txt", "z.o", "sub/k.o"])
            init.append(f"f:{out}/{n}:{ol.hx(rng.choice(content_pool(n)))}")
        if kind != "foreign":
            init.append(f"f:{out}/{marker}:{ol.hx(b'#' + rng.choice([b'', b'x']))}")
        if rng.random() < 0.3:
            init.append(f"d:{out}/emp/ty")
    elif kind == "outfile":
        init.append(f"f:{out}:61")
    # things next to the outdir that must survive
    for _ in range(rng.randrange(0, 3)):
        base = parent + "/" if parent != "." else ""
        if kind == "noparent" and base:
            break
        init.append(rng.choice([f"f:{base}keep.txt:6b", f"f:{base}gen2/m.txt:61", f"d:{base}genx/e",
                                f"f:{base}ge:62", f"f:other/{marker}:63"]))
    if esc and esc[0].startswith("../") and rng.random() < 0.8 and kind != "noparent":
        t = ol.norm_join(out, esc[0])
        if "/" in t:
            init.append(f"d:{t.rsplit('/', 1)[0]}")
    if esc and esc[0].startswith("..x") and rng.random() < 0.7 and kind not in ("noparent", "outfile"):
        init.append(f"d:{out}/..x")
    # drop init entries that contradict each other (file vs dir at the same place): first wins
    seen_files, seen_dirs, init2 = set(), set(), []
    for e in init:
        f = e.split(":")
        p = f[1]
        anc = [p.rsplit("/", k)[0] for k in range(1, p.count("/") + 1)]
        if any(a in seen_files for a in anc) or p in seen_files or (f[0] == "f" and p in seen_dirs) or (f[0] == "d" and p in seen_files):
            continue
        (seen_files if f[0] == "f" else seen_dirs).add(p)
        seen_dirs.update(anc)
        init2.append(e)
    steps, gens = [], []
    last = {}
    for si in range(rng.randrange(1, 6)):
        if si and rng.random() < 0.35:
            muts = []
            for _ in range(rng.randrange(1, 3)):
                k = rng.random()
                n = rng.choice(universe[:len(universe) - len(esc)] + ["foreign.txt", "new/dir/f", "z.o"])
                if k < 0.3:
                    muts.append(f"f:{out}/{n}:{ol.hx(rng.choice(content_pool(n)))}")
                elif k < 0.45:
                    muts.append(f"d:{out}/{rng.choice(['e1', 'a/e2', n])}")
                elif k < 0.6:
                    muts.append(f"x:{out}/{marker}")
                elif k < 0.7:
                    muts.append(f"x:{out}")
                elif k < 0.8:
                    muts.append(f"x:{out}/{n}")
                else:
                    muts.append(f"f:{'outside.txt' if parent == '.' else parent + '/outside.txt'}:{ol.hx(rng.choice([b'o', b'p']))}")
            steps.append("m:" + ",".join(muts))
            gens.append(None)
            continue
        names = [n for n in universe if rng.random() < 0.6]
        if not legacy and rng.random() < 0.9:
            names.append(marker)
        names = list(dict.fromkeys(names))
        rng.shuffle(names)
        gen = {}
        for n in names:
            if n in last and rng.random() < 0.6:
                gen[n] = last[n]
            else:
                gen[n] = rng.choice(content_pool(n))
        last.update(gen)
        mc = rng.choice([b"u", b"u", b"v"]) if legacy else b""
        steps.append(f"g:{ol.hx(mc)}:" + (",".join(f"{n}={ol.hx(c)}" for n, c in gen.items()) or "-"))
        g = {n: ol.hx(c) for n, c in gen.items()}
        if legacy:
            g[marker] = ol.hx(mc)
        gens.append(g)
    line = f"hist {variant} {out} {marker if not legacy else '_'} {','.join(init2) or '-'} {';'.join(steps)}"
    return line, {"variant": variant, "out": out, "marker": marker, "gens": gens, "keep_o": variant in ("legacycpp",)}


# ------------------------------------------------------------------ end-to-end scenarios with the real binaries

def e2e_ops(ctx):
    """Learn the file set of each (generator, options, schema) by one generation into a fresh
    directory; then the same generator is run through a history in ONE directory, and the model
    is given the learnt sets.  Returns ops; fills ol.E2E."""
    ops = []
    tl2gen, err = ol.build_tool(ctx, "tl2gen")
    tlgen, err2 = ol.build_tool(ctx, "tlgen")
    if not tl2gen or not tlgen:
        ctx.notes["e2e"] = "generator binaries do not build: " + trunc(err or err2, 300)
        ops.append(("hist e2e:build . m - -", "e2e", {"build_error": err or err2}))
        return ops
    env = goenv()
    A = [str(REPO / "internal/tlast/tls.tl")]
    B = [str(ol.TLS / "cases.tl")]
    C = [str(ol.TLS / "cpp.tl")]
    G = [str(ol.TLS / f) for f in ("goldmaster.tl", "goldmaster2.tl", "goldmaster3.tl")]

    def cmd(tool, args, schemas):
        return lambda out_abs: ([str(tool)] + args + [f"--outdir={out_abs}"] + schemas, env)

    go_in = ["--language=go", "--pkgPath=example.com/u/r/gen/tl", "--basicPkgPath="]
    go_rel = ["--language=go", "--pkgPath=example.com/u/r/gen/tl", "--basicPkgPath=example.com/u/r/lib/basictl"]
    php = ["--language=php", "--php-use-builtin-data-providers"]
    rust = ["--language=rust"]
    cpp = ["--language=cpp"]
    lphp = ["--language=php"]
    learnt = {}

    def learn(key, c, out, init, marker_legacy=None):
        if key in learnt:
            return learnt[key]
        top = Path(tempfile.mkdtemp(prefix="learn-", dir=ctx.scratch))
        root = top / "root"
        root.mkdir()
        for m in init:
            ol.apply_mut(root, m)
        before = set(p for p in root.rglob("*") if p.is_file())
        argv, e = c(str(ol.absp(root, out)))
        rc, so, se = sh(argv, env=e, timeout=300, cwd=str(top))
        items = None
        if rc == 0:
            items = {}
            o = ol.absp(root, out)
            for p in sorted(root.rglob("*")):
                if p.is_file() and p not in before:
                    items[os.path.relpath(p, o)] = ol.short(p.read_bytes())
        shutil.rmtree(top, ignore_errors=True)
        learnt[key] = (items, (so + se)[-400:])
        return learnt[key]

    def scenario(key, out, marker, init, plan, legacy_marker=False):
        """plan: list of ('g', learn-key, cmd) | ('m', muts)"""
        steps, gens, cmds = [], [], []
        for st in plan:
            if st[0] == "m":
                steps.append("m:" + ",".join(st[1]))
                gens.append(None)
                continue
            _, lk, c, linit = st
            items, log_ = learn(lk, c, out, linit)
            if items is None:
                ops.append((f"hist {key} . m - -", "e2e", {"build_error": f"learning run {lk} failed: {log_}"}))
                return
            items = dict(items)
            mc = "-"
            if legacy_marker:
                mc = items.pop("tlgen2_version.txt", "-")
            steps.append(f"g:{mc}:" + (",".join(f"{n}={t}" for n, t in items.items()) or "-"))
            g = dict(items)
            if legacy_marker:
                g["tlgen2_version.txt"] = mc
            gens.append(g)
            cmds.append(c)
        ol.E2E[key] = cmds
        line = f"hist {key} {out} {marker} {','.join(init) or '-'} {';'.join(steps)}"
        ops.append((line, "e2e", {"variant": key, "out": out, "marker": "tlgen2_version.txt" if legacy_marker else marker,
                                  "gens": gens, "keep_o": key.startswith("e2elc")}))

    gA, gB = cmd(tl2gen, go_in, A), cmd(tl2gen, go_in, B)
    base = ["d:p", "f:p/keep.txt:6b", "f:p/gen2/meta/meta.go:61"]
    scenario("e2e:go-alt", "p/gen", "meta/meta.go", base,
             [("g", "goA", gA, ["d:p"]), ("g", "goB", gB, ["d:p"]), ("g", "goA", gA, ["d:p"]), ("g", "goA", gA, ["d:p"]),
              ("m", ["f:p/gen/internal/foreign.go:7a7a", "d:p/gen/empty/dir", "f:p/outside.txt:6f"]), ("g", "goB", gB, ["d:p"])])
    scenario("e2e:go-foreign", "p/gen", "meta/meta.go", base + ["f:p/gen/README:616263", "d:p/gen/sub"],
             [("g", "goA", gA, ["d:p"]), ("m", ["x:p/gen/README"]), ("g", "goA", gA, ["d:p"]),
              ("m", ["x:p/gen/meta/meta.go"]), ("g", "goB", gB, ["d:p"])])
    rA, rB = cmd(tl2gen, go_rel, A), cmd(tl2gen, go_rel, B)
    rinit = ["d:r/lib/basictl", "f:r/other.txt:6f", "f:r/lib/mine.go:6d"]
    scenario("e2e:go-basictl-rel", "r/gen", "meta/meta.go", rinit,
             [("g", "relA", rA, rinit), ("g", "relB", rB, rinit), ("g", "relB", rB, rinit)])
    # a stale FILE where many generated files need a directory: every worker of OutDir.Write dies on its first
    # error while the producer still has items to send (finding: the process crashes instead of reporting the error)
    scenario("e2e:go-stale-file-blocks-dir", "p/gen", "meta/meta.go", base,
             [("g", "goB", gB, ["d:p"]), ("m", ["x:p/gen/internal", "f:p/gen/internal:78"]), ("g", "goB", gB, ["d:p"])])
    scenario("e2e:go-basictl-missing", "r/gen", "meta/meta.go", ["d:r", "f:r/other.txt:6f"],
             [("g", "relA", rA, rinit)])
    pA, pB = cmd(tl2gen, php, A), cmd(tl2gen, php, B)
    scenario("e2e:php-alt", "gen", "VK/TL/RpcFunctionFetcher.php", ["f:keep.txt:6b"],
             [("g", "phpB", pB, []), ("g", "phpA", pA, []), ("g", "phpB", pB, [])])
    if not ctx.quick():
        uA, uB = cmd(tl2gen, rust, A), cmd(tl2gen, rust, B)
        scenario("e2e:rust-alt", "gen", "Cargo.toml", ["f:keep.txt:6b"],
                 [("g", "rustB", uB, []), ("g", "rustA", uA, []), ("g", "rustB", uB, [])])
        gG = cmd(tl2gen, go_in + ["--split-internal"], G)
        scenario("e2e:go-split", "p/gen", "meta/meta.go", base,
                 [("g", "goG", gG, ["d:p"]), ("g", "goA", gA, ["d:p"]), ("g", "goG", gG, ["d:p"])])
    cC, cB = cmd(tlgen, cpp, C), cmd(tlgen, cpp, B)
    scenario("e2elc:cpp-alt", "gen", "_", ["f:keep.txt:6b"],
             [("g", "cppB", cB, []), ("m", ["f:gen/__common_namespace/types/x.o:6f", "f:gen/stale.txt:73", "f:gen/obj/y.o:6f"]),
              ("g", "cppC", cC, []), ("g", "cppB", cB, [])], legacy_marker=True)
    scenario("e2elc:cpp-foreign", "gen", "_", ["f:gen/main.cpp:6d"], [("g", "cppC", cC, [])], legacy_marker=True)
    lA, lB = cmd(tlgen, lphp, A), cmd(tlgen, lphp, B)
    scenario("e2elp:php-alt", "p/gen", "_", ["d:p", "f:p/keep.txt:6b"],
             [("g", "lphpB", lB, ["d:p"]), ("g", "lphpA", lA, ["d:p"]), ("g", "lphpA", lA, ["d:p"])], legacy_marker=True)
    return ops


def gen_ops(ctx):
    rng = ctx.rng
    quick = ctx.quick()
    ops = [("consts", "consts", None)]
    for variant, n in (("pure", 700 if quick else 12000), ("legacy", 200 if quick else 3000), ("legacycpp", 200 if quick else 3000)):
        for _ in range(n):
            line, data = rand_hist(rng, variant)
            ops.append((line, variant, data))
    ops += e2e_ops(ctx)
    return ops


def oracle(ctx, ops, go_out):
    raw = ol.RAW.get(id(ctx), go_out)
    bad = []
    stats = {"ok": 0, "refused": 0, "failed": 0, "not_rewritten": 0, "stale_removed": 0}
    for (op, kind, data), out in zip(ops, raw):
        if kind == "consts":
            continue
        if data and data.get("build_error"):
            bad.append((op, kind, data["build_error"], "C16:e2e-run-failed"))
            continue
        segs = out.split(" | ")
        complaints = []
        if not segs or not segs[0].startswith("init "):
            bad.append((op, kind, out, "C16:harness"))
            continue
        for s in segs:
            if s in ("panic", "hang", "ESCAPE") or s.startswith("harness"):
                complaints.append((s.split(" ")[0], f"generation ended with {s}"))
        prev = segs[0][5:]
        gens = data["gens"]
        for i, s in enumerate(segs[1:]):
            if " " not in s:
                break
            verdict, after = s.split(" ", 1)
            if verdict == "m":
                prev = after
                continue
            gen = gens[i]
            if gen is None:
                complaints.append(("protocol", "step kinds out of sync"))
                break
            stats[verdict] = stats.get(verdict, 0) + 1
            cs = ol.check_step(data["out"], data["marker"], data["keep_o"], prev, verdict, after, gen)
            for c in cs:
                complaints.append((c.split(":")[0].split(" (")[0][:60], f"step {i + 1} ({verdict}): {c}"))
            if verdict == "failed":
                bf, bd = ol.parse_dump(prev)
                o = data["out"]
                parent = o.rsplit("/", 1)[0] if "/" in o else "."
                env_ok = (parent == "." or parent in bd) and o not in bf
                files_in = [p for p in bf if ol.under(o, p)]
                refusable = files_in and ol.norm_join(o, data["marker"]) not in bf
                if env_ok and not refusable and ol.conflict_free(o, prev, gen):
                    complaints.append(("failed without cause", f"step {i + 1}: generation failed although nothing is in the way"))
            if verdict == "ok":
                af, _ = ol.parse_dump(after)
                bf, _ = ol.parse_dump(prev)
                stats["not_rewritten"] += sum(1 for p, v in af.items() if v[1] == "k" and ol.under(data["out"], p))
                stats["stale_removed"] += sum(1 for p in bf if ol.under(data["out"], p) and p not in af)
            prev = after
        for cat, text in complaints[:3]:
            vname = data["variant"] if kind == "e2e" else data["variant"].split(":")[0]
            bad.append((op, kind, text + "  [impl: " + trunc(out, 300) + "]", f"C16:{vname}:{cat}"))
    ctx.notes["oracle_stats"] = stats
    return bad


def run(ctx):
    standard_run(
        ctx, props=PROPS, family=FAMILY, consts=["Outdir"], go_runner=ol.go_runner, gen_ops=gen_ops, oracle=oracle,
        corr_name="corr:C16:fs",
        trusted=["translator tools/genconsts (marker file name of internal/tlcodegen/tlgen.go, package names of gengo.go)",
                 "overlay harnesses overlay/internal/puregen/verif_*_test.go, overlay/internal/tlcodegen/verif_outdir_legacy_test.go, "
                 "lib/outdir_lib.py (sandbox, dumps, comparison, property statement on dumps)",
                 "the model of os.Mkdir/MkdirAll/ReadFile/WriteFile/Remove/ReadDir on a tree of regular files and directories "
                 "(validated by the same correspondence run on a real Linux file system)"],
        assumptions=["regular files and directories only (no symlinks, permissions, concurrent foreign writers, disk errors)",
                     "the worker pool and Go map order of OutDir.Write are modelled as a sequential pass in list order; the "
                     "implementation is run with its real concurrency (16 workers) and must produce the model's tree",
                     "formatLint is outside the model: generated contents are taken after formatting (harness uses gofmt-stable or non-Go contents)",
                     "after an I/O failure only the verdict and 'nothing outside the outdir changed' are compared, not the partial tree",
                     "Go code is modelled, not verified: agreement is established on the operations listed under op_kinds"],
        rule="one evaluation = one history (initial tree + up to 5 generations/foreign modifications) run on the real "
             "OutDir.Write / Gen2.WriteToDir (overlay harness, temp dirs, mtimes reset before every generation) or the real tl2gen/tlgen "
             "binaries (kind e2e), and on the extracted Coq model; distinct = distinct history lines")
