"""C36 -- UDP transport delivers every message intact exactly once (pkg/rpc/udp).

Go side : overlay/pkg/rpc/udp/verif_udp_test.go drives the package's own multi-transport simulator
          (fuzz_transport.go) command by command and reports, per command, (a) a projection of the transport
          state, (b) the abstract events (what was cut / sent / delivered / lost / duplicated / acked) and,
          after the settle phase, (c) the data for the oracle.
Model   : ocaml/drv_udp.ml replays the events on the extracted Coq model (coq/theories/Udp/UdpModel.v), checks
          that every event is an enabled model step and prints the same projection; at `settle` it also runs
          the model's own fair completion and compares the final delivered messages / memory.
Oracle  : exactly-once + intact + in order (stream-like), monotone acked prefixes, memory bound, memory fully
          released, allocator balance of incoming buffers, no panic -- evaluated on Go's outputs only.
"""
from vlib import *

PROPS = "Props/C36"
FAMILY = "udp"
PKG = "pkg/rpc/udp"
F14 = "C36:restart:reservation-leak-on-reset"


# ------------------------------------------------------------------------------------------ generator

def gen_stale_resend(rng, mode):
    """Scripted scenario with random parameters: a stale resend request whose range has an already acknowledged chunk
    strictly inside it.  One-chunk messages M0..Mk-1 of a->b go out in separate datagrams; some before and some after
    Mj are lost, the last one overtakes Mj; the receiver asks for [0..k-2] again, then gets Mj and acknowledges it;
    the sender sees the ack of Mj and the (now stale) resend request in the same goWrite iteration.  Acks and resend
    requests are dropped / delayed / reordered independently of the data."""
    nt = rng.choice([2, 3, 4])
    a = rng.randrange(nt - 1)
    b = rng.randrange(a + 1, nt)
    k = rng.randrange(4, 9)
    n_ = lambda size: bytes([0x6e, a | (b << 4), size])
    w_ = lambda x: bytes([0x77, x])
    e_ = lambda x: bytes([0x65, x])
    t_ = lambda x, tid: bytes([0x74, x | (tid << 4)])
    cmds, pos = [], []

    def take(x):  # index of datagram x in the simulator's array (removal = swap with the last one)
        i = pos.index(x)
        pos[i] = pos[-1]
        pos.pop()
        return i

    for i in range(k):
        cmds += [n_(rng.choice([4, 4, 4, 8])), w_(a)]
        pos.append(i)
    last = k - 1
    j = rng.randrange(1, k - 2)
    others = [x for x in range(k) if x not in (j, last)]
    lost = [x for x in others if rng.random() < 0.8]
    if not any(x < j for x in lost):
        lost.append(rng.choice([x for x in others if x < j]))
    if not any(x > j for x in lost):
        lost.append(rng.choice([x for x in others if x > j]))
    for x in sorted(set(lost), key=lambda _: rng.random()):
        cmds.append(bytes([0x6c, b, take(x)]))
    for x in [x for x in others if x not in lost]:
        if rng.random() < 0.5:
            cmds += [bytes([0x72, b, take(x)]), e_(b)]
    # the last message overtakes Mj; the receiver notices the holes and asks for them
    cmds += [bytes([0x72, b, take(last)]), e_(b), w_(b), t_(b, 2), w_(b)]
    if rng.random() < 0.3:
        cmds += [t_(b, 2), w_(b)]            # a second, identical request
    cmds += [t_(b, 1), w_(b)]                # the pending ack timer goes off (acks went out with the request)
    # now the late Mj arrives and is acknowledged
    cmds += [bytes([0x72, b, take(j)]), e_(b), t_(b, 1), w_(b), w_(b)]
    # the sender reads what came back, in some order, possibly losing or duplicating one of the datagrams
    back = [bytes([0x72, a, rng.randrange(4)]) for _ in range(rng.randrange(2, 5))]
    if rng.random() < 0.15:
        back.insert(0, bytes([rng.choice([0x6c, 0x64]), a, rng.randrange(3)]))
    cmds += back + [e_(a)] * rng.randrange(2, 5)
    if rng.random() < 0.2:
        cmds.append(t_(a, 0))
    cmds += [w_(a)] * rng.randrange(1, 4)
    # a little random activity afterwards
    for _ in range(rng.randrange(0, 12)):
        x = rng.choice([a, b])
        cmds.append(rng.choice([w_(x), e_(x), bytes([0x72, x, rng.randrange(4)]), t_(x, rng.randrange(3))]))
    if mode == "r" and rng.random() < 0.3:
        cmds.insert(rng.randrange(len(cmds)), t_(a, 3))
    return cmds, "stale-resend"


def gen_run(rng, mode, quick):
    """One command string (list of commands, each a bytes object), mostly valid and structured."""
    nt = rng.choice([2, 2, 3, 3, 4, 5, 8, 16])
    profile = rng.choice(["mixed", "mixed", "lossy", "dups", "pressure", "pressure", "reorder", "burst", "junk",
                          "small", "small", "stale-resend", "stale-resend"])
    if profile == "stale-resend":
        return gen_stale_resend(rng, mode)
    # restart mode ("r") keeps the quick tier's command-string length in every tier: longer restart histories surface further
    # symptoms on the unchanged tree (stuck network, messages lost after restarts, the simulator's own progress panic) that are
    # not triaged yet -- see DESIGN.md 11.5
    n_cmds = rng.randrange(10, 140 if quick else 400)
    w = {"n": 4, "w": 7, "r": 7, "e": 5, "t": 3, "d": 1, "l": 1}
    if profile == "lossy":
        w["l"] = 4
    elif profile == "dups":
        w["d"] = 4
    elif profile == "reorder":
        w["w"] = 10
        w["r"] = 5
    elif profile == "burst":
        w["n"] = 10
    elif profile == "small":
        # many one-chunk messages written one by one, lossy in both directions, resend-request timers fire often:
        # acks and resend requests get lost, delayed and reordered independently of the data
        nt = rng.choice([2, 2, 3])
        w = {"n": 6, "w": 9, "r": 8, "e": 7, "t": 6, "d": 1, "l": 3}
    kinds = list(w)
    weights = [w[k] for k in kinds]
    sink = nt - 1
    cmds = []
    senders = [rng.randrange(max(1, sink)) for _ in range(rng.randrange(2, 5))]
    if profile == "pressure":
        # several senders into one receiver, big messages, many chunks in flight before they are read in random
        # order: exercises the reservation logic and the memory waiters queue
        for _ in range(rng.randrange(3, 10)):
            cmds.append(bytes([0x6e, rng.choice(senders) | (sink << 4), rng.choice([252, 252, 248, 200, 128, 64, 4])]))
        w = {"n": 2, "w": 10, "r": 9, "e": 5, "t": 3, "d": 1, "l": 1}
        kinds = list(w)
        weights = [w[k] for k in kinds]
    for _ in range(n_cmds):
        k = rng.choices(kinds, weights)[0]
        a = rng.randrange(nt)
        if profile == "pressure" and rng.random() < 0.8:
            a = sink if k in "rdl" else rng.choice(senders) if k in "wt" else a
        if k == "n":
            if profile == "pressure":
                # several senders into one receiver, big messages: exercises the memory waiters queue
                d = sink
                a = rng.choice(senders)
                size = rng.choice([252, 252, 248, 200, 128, 64, 4])
            elif profile == "small":
                a = rng.randrange(max(1, nt - 1))
                d = rng.randrange(a + 1, nt)
                size = rng.choice([4, 4, 4, 8, 12])
            else:
                d = rng.randrange(nt) if rng.random() < 0.2 else rng.randrange(a, nt)
                size = rng.choice([rng.randrange(256), rng.randrange(256), 4, 8, 28, 32, 56, 60, 252, 255, 0])
            cmds.append(bytes([0x6e, a | (d << 4), size]))
            if profile == "small" and rng.random() < 0.7:
                cmds.append(bytes([0x77, a]))   # its own datagram
        elif k == "t":
            timers = [0, 0, 1, 1, 2, 3] if mode == "r" else [0, 0, 1, 1, 2]
            if profile == "small":
                timers = timers + [2, 2, 1]
            tid = rng.choice(timers)
            if mode != "r" and rng.random() < 0.05:
                tid = rng.randrange(3, 16)  # ignored by the simulator without restarts
            cmds.append(bytes([0x74, a | (tid << 4)]))
        elif k in "we":
            cmds.append(bytes([ord(k), a | (rng.randrange(16) << 4 if rng.random() < 0.1 else 0)]))
        else:
            idx = 0 if (k == "r" and profile != "reorder" and rng.random() < 0.5) else rng.randrange(256)
            cmds.append(bytes([ord(k), a, idx]))
        if profile == "junk" and rng.random() < 0.1:
            cmds.append(bytes([rng.randrange(256) for _ in range(rng.randrange(1, 4))]))
    return cmds, profile


def gen_ops(ctx):
    import random as _random
    rng = ctx.rng
    quick = ctx.quick()
    quick_counts = {"d": 2000, "x": 400, "r": 600}
    ops = []
    runs = []

    def population(rng, counts, quick):
        order = [m for m, c in counts.items() for _ in range(c)]
        rng.shuffle(order)
        for mode in order:
            cmds, profile = gen_run(rng, mode, quick)
            seed = rng.randrange(1 << 32)
            run = {"mode": mode, "seed": seed, "cmds": cmds, "profile": profile, "first": len(ops)}
            ops.append((f"new {mode} {seed}", "new", run))
            for c in cmds:
                ch = chr(c[0]) if chr(c[0]) in "nwretdl" and len(c) >= 2 else "junk"
                ops.append((f"c {c.hex()}", f"{mode}:{ch}", run))
            ops.append(("settle", f"{mode}:settle", run))
            run["settle"] = len(ops) - 1
            if mode == "r":
                ops.append(("flush", "r:flush", run))
                run["flush"] = len(ops) - 1
            if rng.random() < (0.5 if quick else 0.2):
                # the unmodified fuzz target on the same command string (trailing pad: FuzzDyukov needs i+2 < len)
                ops.append((f"fuzz {mode} {(b''.join(cmds) + b'  ').hex()}", f"{mode}:fuzz", run))
                run["fuzz"] = len(ops) - 1
            run["last"] = len(ops) - 1
            runs.append(run)

    # every tier starts with exactly the quick tier's population for this seed (the restart mode "r" is explored only there:
    # longer / more restart histories surface untriaged symptoms on the unchanged tree, DESIGN.md 11.5); the thorough tier adds
    # 8000 + 1600 longer runs without restarts from a forked generator
    population(rng, quick_counts, True)
    counts = dict(quick_counts)
    if not quick:
        extra = {"d": 8000, "x": 1600}
        population(_random.Random(rng.getrandbits(64)), extra, False)
        for m, c in extra.items():
            counts[m] += c
    ctx._udp_runs = runs
    ctx.notes["runs"] = {m: counts[m] for m in counts}
    ctx.notes["modes"] = ("d = StreamLikeIncoming, no restarts (per-command correspondence with the Coq model + oracle); "
                          "x = not stream-like, no restarts (oracle only); r = regenerate timers enabled (oracle only)")
    return ops


# ------------------------------------------------------------------------------------------ Go side

def go_runner(ctx, lines):
    with open("/var/tmp/repo-mutate.lock", "a") as lk:
        # a consistent snapshot of /repo while compiling (other checks mutate /repo under this lock);
        # VERIF_REPO_LOCK_HELD=1: the caller already holds the lock (hand mutation of /repo)
        if os.environ.get("VERIF_REPO_LOCK_HELD") != "1":
            fcntl.flock(lk, fcntl.LOCK_SH)
        try:
            binary, err = build_overlay_test(PKG, {"verif_udp_test.go": VERIF / "overlay" / PKG / "verif_udp_test.go"},
                                             ctx.scratch, name="udp")
        finally:
            fcntl.flock(lk, fcntl.LOCK_UN)
    if not binary:
        return None, err
    rc, out, err = run_overlay_test(binary, "TestVerifUdp", lines, ctx.scratch, timeout=3000)
    if len(out) != len(lines):
        return None, f"overlay test exit {rc}, {len(out)} result lines for {len(lines)} ops: {err[-1500:]}"
    states, events, infos = [], [], []
    for o in out:
        p = o.split(" | ")
        if len(p) != 3:
            return None, f"malformed result line: {trunc(o)}"
        states.append(p[0])
        events.append(p[1])
        infos.append(p[2])
    (ctx.scratch / "udp.events").write_text("\n".join(events) + "\n")
    ctx._udp_infos = infos
    return states, ""


# ------------------------------------------------------------------------------------------ oracle

def parse_info(s):
    d = {}
    for tok in s.split(" "):
        if "=" in tok:
            k, v = tok.split("=", 1)
            d[k] = v
    return d


def parse_msgs(s):
    res = {}
    if s in ("-", ""):
        return res
    for part in s.split(";"):
        k, v = part.split(":", 1)
        res[k] = v.split(",") if v else []
    return res


def is_subsequence(a, b):
    it = iter(b)
    return all(x in it for x in a)


def check_settled(run, info, bad, phase):
    """Property evaluated on the implementation's own outputs after a settle phase."""
    mode = run["mode"]
    replay = f"mode={mode} seed={run['seed']} profile={run['profile']} cmds={b''.join(run['cmds']).hex()} bytes={','.join(c.hex() for c in run['cmds'])}"

    def fail(kind, what, sig=None):
        bad.append((replay, f"{mode}:{kind}", f"{phase}: {what}", sig or f"C36:{mode}:{kind}"))

    if "panic" in info:
        fail("panic", "panic: " + info["panic"])
        return
    if info.get("stuck") != "false" or info.get("quiescent") != "true":
        fail("stuck", f"network does not settle: stuck={info.get('stuck')} quiescent={info.get('quiescent')} iters={info.get('iters')}")
    sent, recv = parse_msgs(info.get("sent", "-")), parse_msgs(info.get("recv", "-"))
    for k in sorted(set(sent) | set(recv)):
        s, r = sent.get(k, []), recv.get(k, [])
        if mode == "d":
            if r != s:
                kind = ("lost" if len(r) < len(s) and is_subsequence(r, s) else
                        "duplicated-or-foreign" if len(r) > len(s) else
                        "reordered" if sorted(r) == sorted(s) else "corrupted")
                fail(kind, f"connection {k}: sent {s} received {r}")
        elif mode == "x":
            if sorted(r) != sorted(s):
                kind = "lost" if len(r) < len(s) else "duplicated-or-foreign" if len(r) > len(s) else "corrupted"
                fail(kind, f"connection {k}: sent {s} received {r}")
        else:
            # with restarts messages may be dropped, but nothing is delivered twice, corrupted or out of order
            if not is_subsequence(r, s):
                fail("duplicated-or-foreign", f"connection {k}: received {r} is not a subsequence of sent {s}")
    # acked prefixes never move backwards (per connection object)
    if info.get("ackp", "-") != "-":
        for tr in info["ackp"].split(";"):
            name, o, i = tr.split(":")
            for side, seq in (("outgoing.ackSeqNoPrefix", o), ("incoming.ackPrefix", i)):
                v = [int(x) for x in seq[2:].split(",") if x]
                if any(b < a for a, b in zip(v, v[1:])):
                    fail("ack-prefix-decreased", f"connection {name} {side}: {v}")
    # memory
    f14 = 0
    for ent in info.get("mem", "").split(","):
        t, mx, fin, lim, waiters, acc, pred = (int(x) for x in ent.split(":"))
        if mx > lim:
            fail("memory-limit", f"transport {t}: acquiredMemory reached {mx} > limit {lim}")
        if fin != 0 or waiters != 0:
            if mode == "r" and phase == "settle":
                continue  # judged after the flush phase (the peers of restarted connections have to hear from them)
            # F14 = exactly what resetGoReadUnlockedState fails to release (computed by the harness at every reset:
            # reserved range minus allocated message buffers), nothing else held, nobody waiting, no live buffer
            if (mode == "r" and pred > 0 and fin == pred and acc == 0 and waiters == 0
                    and int(info.get("inlive", "0")) == 0):
                f14 += fin
                continue
            fail("memory-not-released", f"transport {t}: acquiredMemory={fin} after settling; held by live connections: {acc}, "
                                        f"predicted by the known reset leak (F14): {pred}, waiters={waiters}")
    if f14:
        fail("reservation-leak", f"acquiredMemory keeps {f14} bytes = exactly the reserved-but-unallocated ranges of the connections "
                                 f"that were reset ({info.get('resets')} resets), no live buffer, no waiter, all idle", F14)
    if info.get("acct", "ok") != "ok":
        fail("accounting", "acquiredMemory != memory held by live connections + predicted reset leak "
                           f"(transport:step:acquired:held:predicted = {info['acct']})")
    # what was submitted after the restarts had settled must arrive
    if phase == "flush" and info.get("flushsent", "-") != "-":
        for ent in info["flushsent"].split(";"):
            k, dg = ent.split(":")
            if dg not in recv.get(k, []):
                fail("lost-after-restart", f"connection {k}: message {dg} submitted after the restarts settled was never delivered")
    if not (mode == "r" and phase == "settle"):
        if info.get("inlive") != "0":
            fail("incoming-buffer-leak", f"{info.get('inlive')} of {info.get('inalloc')} incoming message buffers neither handed to the handler nor deallocated")
    if info.get("badfree") != "0":
        fail("double-free", f"{info.get('badfree')} buffers released twice / unknown")


def oracle(ctx, ops, go_out):
    infos = ctx._udp_infos
    bad = []
    stats = {"queue_nonempty_steps": 0, "unacked_after_settle": 0, "outlive_after_settle": 0, "memory_high_water": 0,
             "messages_sent": 0, "settle_iterations_max": 0, "F14_hits": 0, "fuzzdyukov_premature_exit": 0}
    for run in ctx._udp_runs:
        panicked = False
        for i in range(run["first"], run["last"] + 1):
            if go_out[i].startswith("panic") and not panicked:
                panicked = True
                check_settled(run, {"panic": go_out[i][6:]}, bad, ops[i][0])
            if " q=" in go_out[i] and " q=- " not in go_out[i]:
                stats["queue_nonempty_steps"] += 1
        if panicked:
            continue
        for phase in ("settle", "flush"):
            if phase in run:
                info = parse_info(infos[run[phase]])
                n0 = len(bad)
                check_settled(run, info, bad, phase)
                stats["F14_hits"] += sum(1 for b in bad[n0:] if b[3] == F14)
                if phase == "settle":
                    stats["unacked_after_settle"] += int(info.get("unackedconns", 0) != "0")
                    stats["outlive_after_settle"] += int(info.get("outlive", "0") != "0")
                    stats["settle_iterations_max"] = max(stats["settle_iterations_max"], int(info.get("iters", 0)))
                    stats["messages_sent"] += sum(len(v) for v in parse_msgs(info.get("sent", "-")).values())
                    for ent in info.get("mem", "").split(","):
                        if ent:
                            stats["memory_high_water"] = max(stats["memory_high_water"], int(ent.split(":")[1]))
        if "fuzz" in run:
            v = infos[run["fuzz"]]
            if v != "fuzz=ok":
                if "sent but not received" in v and run["mode"] != "r":
                    # FuzzDyukov leaves its settle loop while a resend request is still pending (it does not look at
                    # AcksToSend.HaveHoles / resendRequestTimers); the harness loop above, which does, delivered everything
                    stats["fuzzdyukov_premature_exit"] += 1
                else:
                    check_settled(run, {"panic": "unmodified FuzzDyukov: " + v}, bad, "fuzz")
    ctx.notes["oracle_stats"] = stats
    # known finding first would hide fresh ones in the 40-entry window of standard_run: fresh ones first
    bad.sort(key=lambda b: b[3] == F14)
    return bad


def post(ctx, ops, model_out, go_out):
    if model_out and go_out:
        bad_runs = set()
        for i, (m, g) in enumerate(zip(model_out, go_out)):
            if m != g:
                bad_runs.add(id(ops[i][2]))
        ctx.coverage["traces_validated_against_impl"] = sum(
            1 for r in ctx._udp_runs if r["mode"] == "d" and id(r) not in bad_runs)
        for i, (m, g) in enumerate(zip(model_out, go_out)):
            if m != g:
                run = ops[i][2]
                ctx.notes["first_mismatch_replay"] = {
                    "mode": run["mode"], "seed": run["seed"], "index_in_run": i - run["first"],
                    "commands": [c.hex() for c in run["cmds"]], "model": trunc(m, 400), "go": trunc(g, 400)}
                break


def run(ctx):
    ctx.notes["claim"] = ("partial: the theorems are about the abstract protocol model; the 3000-line transport is tied to it by the "
                          "per-command correspondence only (not covered: uint32 wrap-around, handshake/generations/restarts, encryption, "
                          "timer/resend machinery beyond 'any sliced chunk may be (re)sent', non-stream-like reassembly, real concurrency)")
    standard_run(
        ctx, props=PROPS, family=FAMILY, consts=["Udp"], go_runner=go_runner, gen_ops=gen_ops, oracle=oracle,
        corr_name="corr:C36:udp", model_args=(str(ctx.scratch / "udp.events"),), post=post,
        trusted=["translator tools/genconsts (go/parser; simulator constants of pkg/rpc/udp/fuzz_transport.go, transport.go)",
                 "overlay harness overlay/pkg/rpc/udp/verif_udp_test.go (observes the simulator, reports abstract events) "
                 "and the comparison/oracle in lib/checks/C36.py",
                 "the simulator of pkg/rpc/udp/fuzz_transport.go itself (in-memory network, single-threaded stepping of goRead/goWrite)"],
        assumptions=["abstract protocol model: sequence numbers/offsets unbounded (no uint32 wrap), no handshake, generations, restarts, "
                     "encryption or datagram corruption; the sender's resend/timer machinery and the receiver's choice of acks (acks.go, C37) "
                     "are nondeterministic model steps; stream-like reassembly only",
                     "settle theorem: every submitted message is non-empty and not larger than the memory limit, window >= 1",
                     "the real transport's goroutines, sockets and wall-clock timers are exercised only through the simulator's single-threaded "
                     "step functions; real concurrency (data races, lock order) is outside the model and the simulator",
                     "Go code is modelled, not verified: agreement is established on the command strings listed under op_kinds"],
        rule="command strings generated from VERIF_SEED (submissions of various sizes, reader/writer/enc-header steps, timer expirations, "
             "loss, duplication, junk bytes), each followed by the simulator's settle phase; one operation = one simulator command; after every "
             "command of a mode-d run the Go state projection (acquiredMemory, memory waiters, per-connection prefix/reserved offset/"
             "delivered count, sender prefix/next) is compared with the extracted Coq model fed with the implementation's abstract events; "
             "distinct = distinct operation lines")
