"""C19 -- TL1 parser is total with in-range error positions (internal/tlast: tllexer.go, tlparser_code.go,
tlparser_typeref.go, tlparser_error.go)."""
import lex_lib


def run(ctx):
    lex_lib.run_check(ctx, 1, "Props/C19")
