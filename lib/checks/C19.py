"""C19 -- TL1 parser is total with in-range error positions (internal/tlast: tllexer.go, tlparser_code.go,
tlparser_typeref.go, tlparser_error.go).  Generators, harness runner and oracle are shared with C20: lib/lex_lib.py."""
import lex_lib

PROPS = "Props/C19"
FAMILY = "lex"


def run(ctx):
    lex_lib.run_check(ctx, 1, PROPS, FAMILY)
