"""C42 -- the weighted semaphore never over-admits and never loses wakeups
(internal/vkgo/pkg/semaphore/semaphore.go).

Correspondence corr:C42:sem: sequential histories (exhaustive up to a length, plus random longer ones) are
executed on the real Weighted semaphore with real goroutines, stepped deterministically by the in-package
overlay harness, and on the extracted Coq model; result of every step + (cur, size, queue, parked callers)
after every step must agree.  Oracle (model-free): over-admission, head-of-queue-left-fitting, accounting and
parked-caller checks on Go's own outputs; a monitor over the event logs of concurrent mixes run under -race.
"""
from vlib import *

PROPS = "Props/C42"
FAMILY = "sem"
PKG = "internal/vkgo/pkg/semaphore"
OVERLAY = {"verif_sem_test.go": str(VERIF / "overlay" / PKG / "verif_sem_test.go")}

SIG_F4 = "C42:head_blocked:cancel-front:weight0-head:size==cur"   # finding F4 (fixed in /repo 61b3423d): emitted again if the old guard `>` ever returns
SIG_DOOMED = "C42:parked-caller-fits:after-SetSize"   # finding F13

MAXI = (1 << 63) - 1


# --------------------------------------------------------------------------- generator

def alphabet(weights, tryw, relw, forces, sizes):
    return ([f"a{w}" for w in weights] + [f"t{w}" for w in tryw] + [f"r{w}" for w in relw]
            + [f"f{w}" for w in forces] + [f"s{w}" for w in sizes])


def enum_histories(L, base, xw):
    """All token sequences of length L; cancel / race tokens only for acquire ids that exist."""
    out = []

    def rec(pref, na):
        if len(pref) == L:
            out.append((pref, na))
            return
        for t in base:
            rec(pref + [t], na + (t[0] == "a"))
        for k in range(na):
            rec(pref + [f"c{k}"], na)
            for w in xw:
                rec(pref + [f"x{w}:{k}"], na)
    rec([], 0)
    return out


def with_cleanup(size0, pref, na, reverse=False):
    ks = range(na - 1, -1, -1) if reverse else range(na)
    return f"h {size0} " + " ".join(pref + [f"c{k}" for k in ks])


def gen_ops(ctx):
    rng = ctx.rng
    quick = ctx.quick()
    ops = []
    seen = set()

    def add(line, kind):
        if line not in seen:
            seen.add(line)
            ops.append((line, kind, None))

    # fixed witnesses: F4, F13 (parked caller after SetSize), the cancel/admit race, panics, wrap-around
    for l in ["h 1 a1 a1 a0 c1 t0 r0",
              "h 1 a2 s5 t1 c0",
              "h 2 a1 a2 a1 x1:1 c2",
              "h 2 a1 a2 a1 x1:2 c1",
              "h 2 a1 a2 x2:1",
              "h 1 a-1 t-1 r-1 f-1 s-1 a0 t0 c1",
              "h 1 a1 a1 r2 r0 c1",
              f"h -2 f{MAXI} t5 a1 c0",
              f"h {MAXI} a{MAXI} a1 f{MAXI} r{MAXI} c1",
              f"h 5 f{MAXI} f1 a1 t0 r1 c0",
              f"h 3 a1 s-{MAXI} a0 r1 s{MAXI} c1"]:
        add(l, "witness")
    full = alphabet((0, 1, 2), (0, 1, 2), (0, 1, 2), (1, 2), (0, 1, 2, 3))
    wide = alphabet((0, 1, 2, 3), (0, 1, 3), (0, 1, 3), (0, 1, 3), (-1, 0, 1, 2, 3, 4))
    red = alphabet((0, 1, 2), (1,), (1, 2), (1,), (1, 3))
    plan = []  # (label, L, alphabet, race weights, start sizes)
    if quick:
        plan = [("exh4", 4, full, (1, 2), (1, 2)),
                ("exh3w", 3, wide, (0, 1, 3), (0, 1, 2, 3)),
                ("exh5r", 5, red, (1,), (1,))]
        nrand = 15000
    else:
        plan = [("exh4", 4, full, (1, 2), (0, 1, 2, 3)),
                ("exh3w", 3, wide, (0, 1, 3), (0, 1, 2, 3)),
                ("exh5", 5, full, (1, 2), (2,)),
                ("exh5r", 5, red, (1,), (1, 2, 3)),
                ("exh6r", 6, alphabet((0, 1, 2), (), (1,), (1,), (2,)), (1,), (1,))]
        nrand = 200000
    for label, L, base, xw, size0s in plan:
        hs = enum_histories(L, base, xw)
        for size0 in size0s:
            for pref, na in hs:
                add(with_cleanup(size0, pref, na), label)
        ctx.notes.setdefault("exhaustive_families", {})[label] = (
            f"all {len(hs)} token sequences of length {L} over {len(base)} tokens + cancel/race tokens, "
            f"start sizes {list(size0s)}")
    # random longer histories (reverse clean-up order for half of them)
    for _ in range(nrand):
        L = rng.randrange(5, 11)
        pref, na = [], 0
        for _ in range(L):
            p = rng.random()
            if na and p < 0.22:
                pref.append(f"c{rng.randrange(na)}")
            elif na and p < 0.30:
                pref.append(f"x{rng.choice((0, 1, 2, 3))}:{rng.randrange(na)}")
            else:
                t = rng.choice(wide if rng.random() < 0.3 else full)
                na += t[0] == "a"
                pref.append(t)
        add(with_cleanup(rng.choice((0, 1, 2, 3, 4)), pref, na, reverse=rng.random() < 0.5), "rand")
    # concurrent mixes (supporting evidence; run on the -race binary)
    nmix = 30 if quick else 400
    for i in range(nmix):
        seed = rng.randrange(1 << 30)
        add(f"mix {seed} {rng.choice((4, 6, 8))} {40 if quick else 120} {rng.choice((3, 4, 5, 6))} {i % 2}", "mix")
    return ops


# --------------------------------------------------------------------------- implementation side

def go_runner(ctx, lines):
    seq = [l for l in lines if l.startswith("h ")]
    mix = [l for l in lines if l.startswith("mix ")]
    binseq, err = build_overlay_test(PKG, OVERLAY, ctx.scratch, name="semseq")
    if not binseq:
        return None, err
    binrace, err = build_overlay_test(PKG, OVERLAY, ctx.scratch, name="semrace", race=True)
    if not binrace:
        return None, err
    t0 = time.time()
    rc, out_seq, log = run_overlay_test(binseq, "TestVerifSemSeq", seq, ctx.scratch, timeout=3000)
    if rc != 0 or len(out_seq) != len(seq):
        return None, f"TestVerifSemSeq exit {rc}, {len(out_seq)}/{len(seq)} lines: {log[-600:]}"
    t1 = time.time()
    rc, out_mix, log = run_overlay_test(binrace, "TestVerifSemConc", mix, ctx.scratch, timeout=3000)
    races = log.count("WARNING: DATA RACE")
    if len(out_mix) != len(mix) or (rc != 0 and not races):
        return None, f"TestVerifSemConc exit {rc}, {len(out_mix)}/{len(mix)} lines: {log[-600:]}"
    ctx.notes["go_seconds"] = {"sequential": round(t1 - t0, 1), "concurrent_race": round(time.time() - t1, 1)}
    ctx.notes["race_detector_reports"] = races
    ctx.sem_logs = {}
    ctx.sem_race_log = log[-3000:] if races else ""
    res = []
    i = j = 0
    for l in lines:
        if l.startswith("h "):
            res.append(out_seq[i])
            i += 1
        else:
            head, _, tail = out_mix[j].partition(" # ")
            if races and j == 0:
                head = f"race-detected {races} " + head
            ctx.sem_logs[l] = tail
            res.append(head)
            j += 1
    return res, ""


# --------------------------------------------------------------------------- oracle (model-free)

OK_RES = {"a": {"F", "Q", "D", "P"}, "t": {"T0", "T1", "P"}, "r": {"K", "P"}, "f": {"K", "P"}, "s": {"K"},
          "c": {"E", "N"}, "x": {"KE", "KN", "PE", "PN"}}


def parse_step(s):
    f = s.split("|")
    if len(f) != 6:
        return None
    try:
        adm = () if f[1] == "-" else tuple(int(x) for x in f[1].split(","))
        q = () if f[4] == "-" else tuple((int(a), int(b)) for a, b in (x.split(":") for x in f[4].split(",")))
        d = () if f[5] == "-" else tuple(int(x) for x in f[5].split(","))
        return (f[0], adm, int(f[2]), int(f[3]), q, d)
    except ValueError:
        return None


def tok_arg(tok):
    a = tok[1:]
    k = None
    if ":" in a:
        a, k = a.split(":")
        k = int(k)
    return int(a), k


def in64(v):
    return -(1 << 62) < v < (1 << 62)


def check_step(tok, prev, step):
    """prev, step: parsed states.  Returns (problems, taints) for one step; problems is a list of
    (kind, detail).  Everything here is computed from the implementation's own output."""
    probs = []
    res, adm, cur, size, q, d = step
    _, _, pcur, psize, pq, _ = prev
    kind = tok[0]
    n, k = tok_arg(tok)
    if res not in OK_RES.get(kind, ()):
        return [("anomaly", f"unexpected result {res}")], True
    panic = "P" in res
    # never over-admits: something was admitted without force in this step => cur <= size afterwards
    # (admissions inside one critical section only raise cur, the size is fixed before the first of them)
    if (adm or res == "T1") and cur > size and in64(cur) and in64(size):
        probs.append(("overadmit", f"admitted {adm or 'try'} with cur={cur} > size={size}"))
    # barging: fast path / try only with an empty queue
    if res in ("F", "T1") and pq:
        probs.append(("barging", f"{res} while {len(pq)} waiters queued"))
    if panic or not all(in64(v) for v in (pcur, cur, n, size, psize)):
        return probs, True   # the no-lost-wakeup / accounting statements assume no panic and no int64 wrap-around
    # accounting: cur moves by exactly the admitted / forced / released weight
    w = dict(pq)
    if kind == "a" and res == "F":
        if len(adm) != 1:
            probs.append(("anomaly", f"fast path but returned ids {adm}"))
        w = {i: n for i in adm}
    try:
        delta = sum(w[i] for i in adm)
    except KeyError:
        probs.append(("anomaly", f"admitted id not queued before: {adm}"))
        delta = 0
    if kind == "t" and res == "T1":
        delta += n
    if kind == "f":
        delta += n
    if kind in ("r", "x"):
        delta -= n
    if kind == "s" and size != n:
        probs.append(("anomaly", f"size {size} after SetSize({n})"))
    if all(in64(v) for v in (pcur, cur, n, size)) and cur != pcur + delta:
        probs.append(("accounting", f"cur {pcur} -> {cur}, expected change {delta}"))
    return probs, False


def head_ok(st):
    _, _, cur, size, q, _ = st
    return not q or size - cur < q[0][1]


def seq_oracle(op, out, cache, pcache):
    """Returns list of (kind, detail, sig or None) for one history."""
    f = op.split(" ")
    size0 = int(f[1])
    toks = f[2:]
    steps = out.split(" ")
    if steps[0] != "ok" or len(steps) != len(toks) + 1:
        return [("anomaly", "malformed output line", None)]
    bad = []
    prev_s = f"-|-|0|{size0}|-|-"
    tainted = False
    weights = []
    for i, tok in enumerate(toks):
        cur_s = steps[i + 1]
        if tok[0] == "a":
            weights.append(tok_arg(tok)[0])
        key = (tok, prev_s, cur_s)
        r = cache.get(key)
        if r is None:
            prev = pcache.get(prev_s) or pcache.setdefault(prev_s, parse_step(prev_s))
            cur = pcache.get(cur_s) or pcache.setdefault(cur_s, parse_step(cur_s))
            if cur is None or prev is None:
                r = ([("anomaly", f"unparsable step {cur_s}")], True, None, None)
            else:
                probs, taint = check_step(tok, prev, cur)
                r = (probs, taint, (head_ok(prev), head_ok(cur)), cur)
            cache[key] = r
        probs, taint, hk, cur = r
        for kind, detail in probs:
            bad.append((kind, f"step {i} ({tok}): {detail}", None))
        tainted = tainted or taint
        if cur is None:
            break
        if not tainted and hk[0] and not hk[1]:
            _, _, c, sz, q, _ = cur
            sig = SIG_F4 if tok[0] in "cx" and q[0][1] == 0 and c == sz else None
            bad.append(("head_blocked", f"step {i} ({tok}): waiter {q[0][0]} of weight {q[0][1]} left at the head "
                                        f"with cur={c} size={sz}", sig))
        if cur[5] and not tainted:
            # parked ("doomed") callers must not fit; report the step that makes one fit
            prevp = pcache[prev_s]
            fit = [j for j in cur[5] if j < len(weights) and weights[j] <= cur[3]]
            if fit and all(weights[j] > prevp[3] for j in prevp[5] if j < len(weights)):
                sig = SIG_DOOMED if tok[0] == "s" else None
                bad.append(("parked_fits", f"step {i} ({tok}): Acquire #{fit[0]} of weight {weights[fit[0]]} is parked "
                                           f"outside the queue although size={cur[3]}", sig))
        prev_s = cur_s
    return bad


def mix_monitor(op, head, tail):
    bad = []
    if head != "ok mix cur=0 q=0 stuck=0":
        bad.append(("mix-final", head))
    if "stuck=1" in head or not tail:
        return bad
    f = dict(x.split("=", 1) for x in tail.split(" ") if "=" in x)
    size0 = int(f["size0"])
    plain = f["plain"] == "true"
    if plain and int(f["maxheld"]) > size0:
        bad.append(("mix-overadmit", f"{f['maxheld']} held at once with size {size0}"))
    evs = [tuple(e.split(",")) for e in f.get("ev", "").split(";") if e]
    holds, resizes = [], []
    for w, kind, n, inv, ret, ok, rinv, rret in evs:
        rec = (kind, int(n), int(inv), int(ret), ok == "1", int(rinv), int(rret))
        (resizes if kind == "s" else holds).append(rec)
    resizes.sort(key=lambda r: r[2])
    good = [h for h in holds if h[4]]
    for a in good:
        if a[0] == "f":
            continue
        _, n, inv, ret, _, _, _ = a
        held = sum(b[1] for b in good if b is not a and b[3] < inv and b[5] > ret)
        last = size0
        cands = []
        for r in resizes:
            if r[3] < inv:
                last = r[1]
            elif r[2] < ret:
                cands.append(r[1])
        if held + n > max([last] + cands):
            bad.append(("mix-overadmit", f"admission of {n} at [{inv},{ret}] while {held} was certainly held, "
                                         f"size at most {max([last] + cands)}"))
    return bad


def oracle(ctx, ops, go_out):
    bad, counts = [], {}
    seen_sig = set()
    cache, pcache = {}, {}
    for (op, kind, _), out in zip(ops, go_out):
        if kind == "mix":
            res = [(k, d, None) for k, d in mix_monitor(op, out, ctx.sem_logs.get(op, ""))]
            if out.startswith("race-detected"):
                res.append(("data-race", ctx.sem_race_log[-1500:], None))
        else:
            res = seq_oracle(op, out, cache, pcache)
        for k, detail, sig in res:
            ck = k + (":known-signature" if sig else "")
            counts[ck] = counts.get(ck, 0) + 1
            sig = sig or f"C42:{k}:{trunc(op, 90)}"
            if sig in seen_sig:
                continue
            seen_sig.add(sig)
            if len(bad) < 40 or sig in (SIG_F4, SIG_DOOMED):
                bad.append((op, k, f"{detail} :: {trunc(out, 200)}", sig))
    ctx.notes["oracle_hits_by_kind"] = counts
    ctx.notes["oracle_distinct_transitions"] = len(cache)
    # known-finding signatures first so that they can never crowd out anything else
    bad.sort(key=lambda b: b[3] not in (SIG_F4, SIG_DOOMED))
    return bad[:40]


def post(ctx, ops, model_out, go_out):
    if go_out is None:
        return
    blocked = sum(1 for (op, kind, _), out in zip(ops, go_out)
                  if kind != "mix" and (" Q|" in out or " D|" in out))
    agree = sum(1 for a, b in zip(model_out or [], go_out) if a == b)
    ctx.coverage["distinct_nontrivial"] = blocked + sum(1 for o in ops if o[1] == "mix")
    ctx.coverage["traces_validated_against_impl"] = agree
    ctx.coverage["transitions"] = ctx.notes.get("oracle_distinct_transitions", 0)


def run(ctx):
    standard_run(
        ctx, props=PROPS, family=FAMILY, consts=[], go_runner=go_runner, gen_ops=gen_ops, oracle=oracle,
        corr_name="corr:C42:sem", post=post,
        trusted=["in-package overlay harness overlay/internal/vkgo/pkg/semaphore/verif_sem_test.go (real goroutines; "
                 "stepping by a context whose Done()/Err() methods report to the harness; state read under the semaphore's own mutex)",
                 "comparison, oracle and concurrent-mix monitor in lib/checks/C42.py; Go race detector for the concurrent mixes"],
        assumptions=["sync.Mutex critical sections are atomic and channel close/receive is a happens-before edge "
                     "(the model has one step per critical section; Go memory model not modelled)",
                     "values below 2^62 in absolute value for the theorems (int64 wrap-around is modelled and exercised, "
                     "C42_no_overadmit_needs_bounded shows the bound is needed)",
                     "no call panics (negative argument, Release of more than held) for the no-lost-wakeup theorems",
                     "the model runs the current cancel-path guard (code_guard: s.size >= s.cur); the old guard survives only in the historical lemmas",
                     "Go code is modelled, not verified: agreement is established on the histories listed under op_kinds"],
        rule="one evaluation = one history (4..15 critical sections) run on the real semaphore and on the extracted model, "
             "compared after every step; all history lines are distinct; non-trivial = histories in which at least one Acquire "
             "blocked (queued or parked) on the real semaphore, plus the concurrent mixes; transitions = distinct "
             "(operation, state before, state after) triples seen on the real semaphore; exhaustive families are complete enumerations, "
             "'rand' and 'mix' derive from VERIF_SEED")
