"""C29 -- the backward-compatibility linter accepts the documented safe schema evolutions."""
import json

from vlib import *
import lint_lib as L

PROPS = "Props/C29"
# A field appended under a free mask bit whose NAME equals a non-namespaced type name mentioned by an old field of the
# same combinator (`int`, `t1`) is refused by the real linter although nothing changes on the wire (finding, see the
# refutation theorem C29_refuted_field_named_like_type).  Flip to True once it is registered in known_findings.json
# under the sig prefix "C29:field-named-like-unqualified-type".
REPORT_NAME_COLLISION = True
FAMILY = "lint"


def gen_ops(ctx):
    rng = ctx.rng
    quick = ctx.quick()
    ctx._lint = {"go": [], "err": None, "cli": []}
    b, err = L.lint_harness(ctx)
    if not b:
        ctx._lint["err"] = err
        return []
    variant, probes = L.probe_variant(ctx)
    if variant is None:
        ctx._lint["err"] = probes
        return []
    ctx.notes["model_variant(bare,args,rep fixed?)"] = variant
    items = []
    proto, cor, inc = L.sample_pairs()
    for f in cor:
        items.append((f"sample:correct:{f.stem}", "pair", str(proto), str(f), None))
        items.append((f"sample:correct:{f.stem}", "direct", str(proto), str(f), None))
    items.append(("sample:refl:prototype", "pair", str(proto), str(proto), None))
    items.append(("sample:refl:prototype", "direct", str(proto), str(proto), None))
    for f in (inc if not quick else inc[:6]):
        items.append((f"sample:refl:{f.stem}", "direct", str(f), str(f), None))
    n = 110 if quick else 1500
    pairs, kinds = [], []
    for i in range(n):
        s = L.Gen(rng).schema(chain=(i % 5 == 4), shared=(i % 3 == 0))   # shared: one inner type fed by several masks
        if i % 4 == 0:
            pairs.append((s.tl(), s.tl()))
            kinds.append("refl")
        new, ks = L.safe_edits(rng, s, rng.randrange(1, 7))
        if ks:
            pairs.append((s.tl(), new.tl()))
            kinds.append("safe:" + ks[0] if len(set(ks)) == 1 else f"safe:mixed-seq{len(ks)}")
    # appended field names that collide with pieces of type names the combinator mentions
    for i in range(40 if quick else 500):
        s = L.Gen(rng).schema(ntypes=rng.randrange(1, 5), nfuns=rng.randrange(0, 3), namespaced=True)
        if i % 5 == 4:
            new = L.unqualified_collision_edit(rng, s)
            k = "namecoll:unqualified-type-name"
        else:
            new = L.name_collision_edit(rng, s)
            k = "safe:field-named-like-namespaced-type"
        if new is not None:
            pairs.append((s.tl(), new.tl()))
            kinds.append(k)
    for (o, p), k in zip(L.write_pairs(ctx, pairs), kinds):
        items.append((k, "pair", o, p, None))
    ops, go, dropped = L.build_lint_ops(ctx, items, variant)
    if ops is None:
        ctx._lint["err"] = go
        return []
    ctx.notes["dropped_not_individually_valid"] = dropped
    # the real binary on the samples and a few random pairs
    samp = [o for o in ops if o[1].startswith("sample") and o[2]["mode"] == "pair"]
    rnd_ = [o for o in ops if not o[1].startswith("sample")]
    if quick:   # one process start per pair: a handful in the quick tier, all samples in the thorough one
        samp = samp[:: max(1, len(samp) // 3)][:3]
    sel = samp + rnd_[:: max(1, len(rnd_) // (6 if quick else 40))]
    for o in sel:
        ctx._lint["cli"].append((o, L.cli_verdict(ctx, o[2]["old"], o[2]["new"])))
    ctx._lint["go"] = go
    return ops


def go_runner(ctx, lines):
    if ctx._lint["err"]:
        return None, ctx._lint["err"]
    return ctx._lint["go"], ""


def replay_text(data):
    """the failing pair itself (the scratch files are gone after the run)"""
    try:
        return f"{data['mode']} {data['old']} {data['new']} OLD={json.dumps(Path(data['old']).read_text())} NEW={json.dumps(Path(data['new']).read_text())}"
    except OSError:
        return f"{data['mode']} {data['old']} {data['new']}"


def oracle(ctx, ops, go_out):
    """every documented safe evolution (and every schema against itself) must be accepted"""
    bad = []
    idx = {id(o): g for o, g in zip(ops, go_out)}
    for (op, kind, data), out in zip(ops, go_out):
        if kind.startswith("namecoll:"):
            # Wire-safe, yet the real linter (unchanged tree) refuses it: the old field's type name is looked up among
            # the NEW combinator's field names.  Reported to the coordinator as a finding of C29; until it is listed
            # in known_findings.json the acceptance requirement is not applied to this class (REPORT_NAME_COLLISION),
            # the correspondence with the model (which reproduces the refusal) is.
            if REPORT_NAME_COLLISION and out != "accept":
                bad.append((replay_text(data), kind, out, "C29:field-named-like-unqualified-type:" + out.replace(" ", ":")))
            continue
        if out != "accept":
            k = kind if kind.startswith("sample") else kind.split(":")[0] + ":" + (kind.split(":")[1] if ":" in kind else "")
            bad.append((replay_text(data), kind, out, f"C29:not-accepted:{k}:{out.replace(' ', ':')}"))
    for o, v in ctx._lint["cli"]:
        hv = idx[id(o)]
        if v.replace(" -", "") != hv:
            bad.append((f"cli {o[2]['old']} {o[2]['new']}", "cli", f"binary says {v}, in-process runMain says {hv}", "C29:cli-differs"))
    ctx.notes["cli_cross_checked"] = len(ctx._lint["cli"])
    return bad


def run(ctx):
    standard_run(
        ctx, props=PROPS, family=FAMILY, consts=[], go_runner=go_runner, gen_ops=gen_ops, oracle=oracle,
        corr_name="corr:C29:safe",
        trusted=["overlay harness overlay/cmd/tlgen/verif_lint_test.go (calls the real runMain of tlgen in linter mode; prints the two "
                 "combinator lists CheckBackwardCompatibility receives as S-expressions)",
                 "schema/edit generator lib/lint_lib.py and the oracle in lib/checks/C29.py"],
        assumptions=["both schemas of a pair are accepted by tlgen on their own (pairs where one is not are dropped and counted)",
                     "the S-expression dump is produced by a second parse + GenerateCode of the same files, mirroring runMain",
                     "Go code is modelled, not verified: agreement is established on the pairs listed under op_kinds"],
        rule="samples of the repository first (prototype.tl vs correct-changes/*, every sample against itself), then random base "
             "schemas x random sequences (length 1..6) of the documented safe edits, generated from VERIF_SEED; every pair is run "
             "through the real tlgen linter and through the extracted Coq model of it; verdict and error class must agree, and "
             "the real verdict must be 'accept'; distinct = distinct (old,new) dumps")
