"""C33 -- TL primitive codecs are exact (pkg/basictl)."""
from vlib import *

PROPS = "Props/C33"
FAMILY = "prim"


def hx(b):
    return b.hex() if b else "-"


def unhx(s):
    return b"" if s == "-" else bytes.fromhex(s)


def gen_ops(ctx):
    """Returns list of (op, kind, data).  kind drives the implementation-side oracle."""
    rng = ctx.rng
    ops = []
    quick = ctx.quick()

    def content(n):
        return bytes(rng.getrandbits(8) for _ in range(n)) if n < 4096 else rng.randbytes(n)

    # --- TL1 strings: every length in a dense range + boundaries
    dense = 1100 if quick else 6000
    lens = list(range(0, dense + 1)) + [65535, 65536, 65789, 65790, 65791, 70000]
    if not quick:
        lens += [(1 << 24) - 2, (1 << 24) - 1, 1 << 24, (1 << 24) + 1]
    strs = {}
    for l in lens:
        s = content(l)
        strs[l] = s
        ops.append((f"str1_w {hx(s)}", "w", s))
    # --- all truncations of small and boundary strings
    trunc_lens = list(range(0, 40 if quick else 300)) + [252, 253, 254, 255, 256, 257]
    ctx.notes["truncation_lengths"] = f"0..{trunc_lens[-7]} + 252..257, every proper prefix"
    # headers written by a python transcription of the documented layout (only to build reader inputs)
    def enc(s):
        l = len(s)
        if l <= 253:
            b = bytes([l]) + s
        elif l < (1 << 24):
            b = bytes([254]) + l.to_bytes(3, "little") + s
        else:
            b = bytes([255]) + l.to_bytes(7, "little") + s
        return b + b"\0" * (-len(b) % 4)
    for l in lens:
        if l > 70000 and quick:
            continue
        b = enc(strs[l])
        rest = content(rng.randrange(0, 6))
        ops.append((f"str1_rw {hx(b + rest)}", "rt", (strs[l], rest, b)))
    for l in trunc_lens:
        b = enc(content(l))
        for k in range(len(b)):
            ops.append((f"str1_r {hx(b[:k])}", "eof", None))
    # --- reader: every first byte x header shapes, random tails (accept => canonical)
    for b0 in range(256):
        for tail in (0, 1, 2, 3, 4, 7, 8, 12, 300):
            t = bytearray(content(tail))
            if rng.random() < 0.5:  # make small length headers likelier to be consistent
                for i in range(min(len(t), 8)):
                    if rng.random() < 0.6:
                        t[i] = 0 if i else rng.choice([0, 1, 2, 4, 254])
            ops.append((f"str1_rw {hx(bytes([b0]) + bytes(t))}", "canon", None))
    # --- non-minimal forms and bad padding (must be rejected, not EOF)
    for l in list(range(0, 254)):
        body = content(l)
        m = bytes([254]) + l.to_bytes(3, "little") + body
        m += b"\0" * (-len(m) % 4)
        ops.append((f"str1_r {hx(m + b'xxxx')}", "reject", "non-minimal medium"))
    for l in [0, 1, 253, 254, 255, 256, 1000, 65535, 65536] + ([(1 << 24) - 1] if not quick else []):
        body = content(l)
        m = bytes([255]) + l.to_bytes(7, "little") + body
        m += b"\0" * (-len(m) % 4)
        ops.append((f"str1_r {hx(m + b'xxxx')}", "reject", "non-minimal huge"))
    for l in list(range(0, 24)) + [253, 254, 255, 256, 257, 258]:
        b = bytearray(enc(content(l)))
        hdr = 1 if l <= 253 else 4
        pad = len(b) - hdr - l
        for i in range(pad):
            for v in (1, 0x80, 0xff):
                c = bytearray(b)
                c[hdr + l + i] = v
                ops.append((f"str1_r {hx(bytes(c) + b'yyyy')}", "reject", "non-zero padding"))
    # huge header with absurd length and little data: EOF, no allocation
    for l in [1 << 24, (1 << 40) + 5, (1 << 56) - 1]:
        ops.append((f"str1_r {hx(bytes([255]) + l.to_bytes(7, 'little') + b'abc')}", "eof", None))
    # --- TL2 sizes
    dense2 = 70000 if quick else 200000
    sizes = list(range(0, dense2)) + [(1 << 31) - 1, 1 << 31, (1 << 32) - 1, 1 << 32, 1 << 62, (1 << 63) - 1]
    for n in sizes:
        ops.append((f"size2_w {n}", "s2w", n))
    for n in list(range(0, 600)) + [65789, 65790, 65791, 1 << 32, (1 << 63) - 1] + [rng.randrange(1 << 63) for _ in range(300)]:
        rest = content(rng.randrange(0, 4))
        # minimal form
        if n < 254:
            m = bytes([n])
        elif n < 254 + 65536:
            m = bytes([254]) + (n - 254).to_bytes(2, "little")
        else:
            m = bytes([255]) + n.to_bytes(8, "little")
        ops.append((f"size2_rw {hx(m + rest)}", "s2rt", (n, rest, m)))
        for k in range(len(m)):
            ops.append((f"size2_r {hx(m[:k])}", "eof", None))
        # non-minimal 9-byte form is accepted for every representable value
        ops.append((f"size2_rw {hx(bytes([255]) + n.to_bytes(8, 'little') + rest)}", "s2huge", (n, rest)))
    for n in [1 << 63, (1 << 63) + 1, (1 << 64) - 1]:
        ops.append((f"size2_r {hx(bytes([255]) + n.to_bytes(8, 'little'))}", "reject", "size above MaxInt"))
    for b0 in range(256):
        for tail in (0, 1, 2, 3, 8, 9):
            ops.append((f"size2_rw {hx(bytes([b0]) + content(tail))}", "s2any", None))
    # --- TL2 strings
    for l in [0, 1, 253, 254, 255, 300, 65789, 65790, 65791]:
        s = content(l)
        ops.append((f"str2_w {hx(s)}", "none", None))
    # --- bit vectors
    for n in range(0, 201 if quick else 1200):
        v = "".join(rng.choice("01") for _ in range(n)) or "-"
        ops.append((f"bitvec_w {v}", "bvw", v))
        # python packing only to build reader inputs
        bs = bytearray((n + 7) // 8)
        for i, c in enumerate(v if v != "-" else ""):
            if c == "1":
                bs[i // 8] |= 1 << (i % 8)
        rest = content(rng.randrange(0, 3))
        ops.append((f"bitvec_r {n} {hx(bytes(bs) + rest)}", "bvr", (v, rest)))
        if n and len(bs) > 0:
            ops.append((f"bitvec_r {n} {hx(bytes(bs[:-1]))}", "eof", None))
    # garbage in the unused high bits of the last byte must be ignored by the reader
    for n in (1, 3, 9, 15):
        ops.append((f"bitvec_r {n} {'ff' * ((n + 7) // 8)}", "none", None))
    # --- fixed-width and Bool
    for _ in range(200):
        k = rng.randrange(0, 12)
        ops.append((f"nat_r {hx(content(k))}", "none", None))
        ops.append((f"long_r {hx(content(k))}", "none", None))
    for t in [0x997275b5, 0xbc799737, 0, 1, 0xffffffff]:
        ops.append((f"bool1_r {0xbc799737} {0x997275b5} {hx(t.to_bytes(4, 'little') + b'zz')}", "none", None))
    ops.append((f"bool1_r {0xbc799737} {0x997275b5} 0102", "eof", None))
    return ops


def oracle(ctx, ops, go_out):
    """The property evaluated on the implementation's own outputs (no model involved)."""
    bad = []
    for (op, kind, data), out in zip(ops, go_out):
        f = out.split(" ")
        ok = True
        if out.startswith("panic") or out.startswith("variant-mismatch"):
            ok = False
        elif kind == "rt":
            s, rest, b = data
            ok = f[0] == "ok" and len(f) == 4 and unhx(f[1]) == s and unhx(f[2]) == rest and unhx(f[3]) + rest == b + rest
        elif kind == "eof":
            ok = out == "eof"
        elif kind == "reject":
            ok = out == "reject"
        elif kind == "canon":
            if f[0] == "ok":
                inp = unhx(op.split(" ")[1])
                ok = unhx(f[3]) + unhx(f[2]) == inp and len(unhx(f[3])) % 4 == 0
        elif kind == "s2w":
            n = data
            b = unhx(f[1])
            want = 1 if n < 254 else (3 if n < 254 + 65536 else 9)
            ok = f[0] == "ok" and len(b) == want == int(f[2])
        elif kind == "s2rt":
            n, rest, m = data
            ok = f[0] == "ok" and int(f[1]) == n and unhx(f[2]) == rest and unhx(f[3]) == m
        elif kind == "s2huge":
            n, rest = data
            ok = f[0] == "ok" and int(f[1]) == n and unhx(f[2]) == rest
        elif kind == "s2any":
            if f[0] == "ok":
                inp = unhx(op.split(" ")[1])
                consumed = inp[:len(inp) - len(unhx(f[2]))]
                # accepted => value re-encodes to the consumed bytes unless the 9-byte form was used
                ok = unhx(f[3]) == consumed or (consumed[:1] == b"\xff" and len(consumed) == 9)
        elif kind == "bvr":
            v, rest = data
            ok = f[0] == "ok" and f[1] == v and unhx(f[2]) == rest
        elif kind == "bvw":
            v = data if data != "-" else ""
            b = unhx(f[1])
            ok = f[0] == "ok" and len(b) == (len(v) + 7) // 8 and all(
                ((b[i // 8] >> (i % 8)) & 1) == int(c) for i, c in enumerate(v)) and all(
                (b[-1] >> j) == 0 for j in ([len(v) % 8] if len(v) % 8 else []))
        if not ok:
            bad.append((op, kind, out))
    return bad


def go_runner(ctx, lines):
    godrv, goerr = build_go_harness("primdrv", ctx.scratch)
    if not godrv:
        return None, goerr
    rc, out, err = run_lines(godrv, [], lines)
    if rc != 0:
        return None, f"driver exit {rc}: {err[-500:]}"
    return out, ""


def run(ctx):
    standard_run(
        ctx, props=PROPS, family=FAMILY, consts=["Prim"], go_runner=go_runner, gen_ops=gen_ops, oracle=oracle,
        corr_name="corr:C33:prim",
        trusted=["translator tools/genconsts (go/parser; constants of pkg/basictl/basictl.go)",
                 "Go harness harness/go/primdrv and the comparison/oracle in lib/checks/C33.py"],
        assumptions=["64-bit platform (int = 64 bit)",
                     "Go code is modelled, not verified: agreement is established on the operations listed under op_kinds"],
        rule="operations generated from VERIF_SEED; every op is run on pkg/basictl (Go, rebuilt from /repo) and on the extracted Coq model; "
             "distinct = distinct operation lines; all are non-trivial (each exercises a codec on a different input)")
