"""C11 -- wire formats match an independent reference codec.

The extracted Coq model is the reference (no code shared with /repo).  The check is the union of
the C01 (values) and C02 (byte strings) projections restricted to RANDOM schemas (TL1), the TL2 projection
lib/tl2_lib.c11_tl2_leg (Tl2 reference model; C03/C13 carry its theorems), and the leg corr:C11:resolution
(kernel dump of the schema IR against the independent derivation lib/indep_ir.py), re-checking Props/C11.v."""
import copy

from vlib import *
from gencommon import build_tools
import checks.C01 as c01
import checks.C02 as c02


def run(ctx):
    import indep_ir
    import randschema
    n = 6 if ctx.quick() else 20
    with Lock():
        check_theorems("Props/C11")     # builds Tl1Resolve.vo (imported by Props/C11.v) before the checker is extracted
    leg = indep_ir.ResolutionLeg(ctx)   # corr:C11:resolution
    leg.build()
    # TL2 projection (lib/tl2_lib.c11_tl2_leg, the Tl2 reference model against generated Go): runs beside the TL1 legs on a
    # copy of the context with its own generator, seeded from ctx.rng BEFORE the TL1 legs draw from it (runs stay reproducible)
    import random
    import threading
    import traceback
    import tl2_lib
    ctx2 = copy.copy(ctx)
    ctx2.rng = random.Random(ctx.rng.getrandbits(64))
    ctx2.scratch = ctx.scratch / "tl2leg"      # own directory: both sides name their random schema units rs<i>
    ctx2.scratch.mkdir(exist_ok=True)
    tl2_out = {}

    def tl2_leg():
        try:
            tl2_out["res"] = tl2_lib.c11_tl2_leg(ctx2)
        except Exception as e:  # noqa
            tl2_out["err"] = f"{e!r}\n{traceback.format_exc()}"
    tl2_thread = threading.Thread(target=tl2_leg, name="c11-tl2-leg")
    tl2_thread.start()
    c01.run(ctx, props="Props/C11", random_only=True, nrand=n, leg=leg)
    cov1 = copy.deepcopy(ctx.coverage)
    c02.run(ctx, props="Props/C11", random_only=True, nrand=n, gen_cls=randschema.GenR, leg=leg)
    cov2 = ctx.coverage
    ctx.coverage = cov2
    bins, berr = build_tools(ctx.scratch, which=("verifdump",))
    if not berr:
        leg.run_extra(bins["verifdump"], 150 if ctx.quick() else 800)
    leg.report_violations(ctx)
    leg.report_evidence(ctx)
    tl2_thread.join()
    if "res" in tl2_out:
        tl2_ops, tl2_results, tl2_viol = tl2_out["res"]
        for v in tl2_viol:
            ctx.violation(v["sig"], v["what"], v["data"], no_input=v["no_input"])
        ctx.coverage["tl2_leg_ops"] = len(tl2_ops)
        ctx.coverage["tl2_leg_violations"] = len(tl2_viol)
    else:
        ctx.coverage["tl2_leg_ops"] = 0
        ctx.violation("C11:tl2:leg-crashed", "TL2 leg (tl2_lib.c11_tl2_leg) failed: " + trunc(tl2_out.get("err", "no result"), 400),
                      {"error": tl2_out.get("err")}, no_input=True)
    ctx.coverage["evaluations"] = cov1.get("evaluations", 0) + cov2.get("evaluations", 0)
    ctx.coverage["distinct_nontrivial"] = cov1.get("distinct_nontrivial", 0) + cov2.get("distinct_nontrivial", 0)
    ctx.coverage["values_projection"] = {k: cov1.get(k) for k in ("stats", "correspondence", "correspondence_mismatches", "oracle_failures", "schemas")}
    ctx.coverage["samples"] = (cov1.get("samples") or [])[:6] + (cov2.get("samples") or [])[:6]
    ctx.coverage["rule"] = ("random schemas only (lib/randschema.py GenR; IR obtained from the real kernel by the verifdump translator and compared with the "
                            "independent derivation lib/indep_ir.py, see coverage.resolution): "
                            "(a) model-generated and FillRandom values read/re-written by generated Go and by the reference; "
                            "(b) valid, mutated and random byte strings: verdict, consumed length, re-written bytes compared")
    ctx.coverage["trusted_base"] = list(ctx.coverage.get("trusted_base") or []) + [
        "lib/indep_ir.py (independent IR derivation + lockstep comparison), ocaml/drv_tl1iso.ml (extracted Tl1IsoModel.ir_iso)"]
    ctx.assumptions = sorted(set(ctx.assumptions + [
        "the reference's IR is the kernel's dump; on every random schema it is compared with an IR derived independently from the schema text "
        "(corr:C11:resolution, sound by C11_isomorphic_ir_same_codec); conventions of that derivation (instance = constant nat arguments + type arguments, "
        "nat parameters in depth-first argument order, map-backed dictionary heuristic) are stated in lib/indep_ir.py"]))
