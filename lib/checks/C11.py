"""C11 -- wire formats match an independent reference codec.

The extracted Coq model is the reference (no code shared with /repo).  The check is the union of
the C01 (values) and C02 (byte strings) projections restricted to RANDOM schemas (TL1; the TL2
projections are run by C03/C13 whose model carries the TL2 layout), re-checking Props/C11.v."""
import copy

from vlib import *
import checks.C01 as c01
import checks.C02 as c02


def run(ctx):
    n = 6 if ctx.quick() else 60
    c01.run(ctx, props="Props/C11", random_only=True, nrand=n)
    cov1 = copy.deepcopy(ctx.coverage)
    c02.run(ctx, props="Props/C11", random_only=True, nrand=n)
    cov2 = ctx.coverage
    ctx.coverage = cov2
    ctx.coverage["evaluations"] = cov1.get("evaluations", 0) + cov2.get("evaluations", 0)
    ctx.coverage["distinct_nontrivial"] = cov1.get("distinct_nontrivial", 0) + cov2.get("distinct_nontrivial", 0)
    ctx.coverage["values_projection"] = {k: cov1.get(k) for k in ("stats", "correspondence", "correspondence_mismatches", "oracle_failures", "schemas")}
    ctx.coverage["samples"] = (cov1.get("samples") or [])[:6] + (cov2.get("samples") or [])[:6]
    ctx.coverage["rule"] = ("random schemas only (lib/randschema.py; IR obtained from the real kernel by the verifdump translator): "
                            "(a) model-generated and FillRandom values read/re-written by generated Go and by the reference; "
                            "(b) valid, mutated and random byte strings: verdict, consumed length, re-written bytes compared")
    ctx.assumptions = sorted(set(ctx.assumptions + ["type resolution (kernel) is shared between the reference's IR and the generator: the IR is dumped from the kernel, not re-derived independently"]))
