"""C17 -- the runtime registry (meta / factory) of generated Go code is consistent with the schema."""
from reg_lib import *

PROPS = "Props/C17"


def annotation_unit(ctx):
    """fixed unit: TL1 and TL2 functions (and one plain type) carrying 2-3 annotations in EVERY order"""
    import itertools
    d = Path(ctx.scratch) / "ann_orders"
    d.mkdir(exist_ok=True)
    lines, n = [], 0
    for a, b in itertools.permutations(ANN_POOL, 2):
        lines.append(f"@{a} @{b} ao.p{n} x:int => Int;")
        n += 1
    triples = list(itertools.permutations(ANN_POOL, 3))
    ctx.rng.shuffle(triples)
    for t in triples[:24] + [("write", "read", "any"), ("write", "kphp", "internal"), ("readwrite", "internal", "any")]:
        lines.append("".join(f"@{a} " for a in t) + f"ao.t{n} x:int y:string => String;")
        n += 1
    lines.append("@write @audit @any ao.custom x:int => Int;")       # an annotation the generator does not know, in the middle
    lines.append("@write @kphp ao.annotatedType x:int = ao.AnnotatedType;")
    (d / "s.tl").write_text(randschema.HEADER + "\n".join(lines) + "\n")
    l2, m = ["ao2.item = x:int32 y:string;"], 0
    for a, b in list(itertools.permutations(ANN_POOL, 2))[::2]:
        l2.append(f"@{a} @{b} ao2.f{m}#{0x700 + m:08x} id:int32 => ao2.item;")
        m += 1
    for t in triples[24:34]:
        l2.append("".join(f"@{a} " for a in t) + f"ao2.g{m}#{0x700 + m:08x} id:int32 v:ao2.item => ao2.item;")
        m += 1
    (d / "s.tl2").write_text("\n".join(l2) + "\n")
    return ("ann_orders", [d / "s.tl", d / "s.tl2"], ["--tl2WhiteList=*"], "*", True)


def text_annotations(files):
    """combinator name -> declared annotations, parsed from the schema TEXT (independent of the kernel and the generator)"""
    import re
    res = {}
    for f in files:
        for line in Path(f).read_text(errors="replace").splitlines():
            m = re.match(r"^((?:@\w+\s+)+)([A-Za-z_][\w.]*)", line.split("//")[0].strip())
            if m:
                res[m.group(2)] = re.findall(r"@(\w+)", m.group(1))
    return res


def specs_for(ctx, fam):
    quick = ctx.quick()
    # --split-internal: items are registered twice (namespace packages' metamini.go and package meta); the driver links both
    split = ("cases_split", [TLS / "cases.tl"], ["--tl2WhiteList=*", "--split-internal"], "*", True)
    return repo_corpus(quick) + [annotation_unit(ctx), split] + rand_specs(ctx, 3, prefix="rg", verifdump=fam.bins.get("verifdump"))


def le32(tag):
    return int(tag).to_bytes(4, "little").hex()


def run(ctx):
    fam = Family(ctx, PROPS, "corr:C17:meta")
    fam.prepare(specs_for(ctx, fam))
    nvals = 4 if ctx.quick() else 12
    skipped = {}

    def work(u, rng):
        if not fam.usable(u):
            return
        ins = u.ins
        anns = ins[0].get("allAnnotations") or []
        annarg = ",".join(anns) if anns else "-"
        rc, chk, err = fam.model(u, ["regcheck"])
        want = "ok wf=true meta=true anns=true names=true tags=true"
        if not chk or not chk[0].startswith(want):
            with fam.lock:
                fam.unit_errors.append((u.name, f"registry well-formedness checks of the model fail on the kernel dump: {chk} {err[-300:]}"))
            return
        # ---- lookups: every name / tag the kernel knows (registered or not) + near misses
        names = sorted({x["tlName"] for x in ins if x.get("tlName")})
        fake = set()
        for n in names:
            fake.add(n + "x")
            fake.add(n[:-1])
            fake.add(n.swapcase() if rng.random() < 0.3 else n.upper())
            if "." in n:
                fake.add(n.split(".", 1)[1])
        fake = sorted(f for f in fake if f and f not in names and " " not in f)
        rng.shuffle(fake)
        tags = sorted({x["tag"] for x in ins})
        ftags = {0, 1, 0xffffffff}
        for t in tags:
            ftags.add((t + 1) & 0xffffffff)
            ftags.add(t ^ 0x80000000)
            ftags.add(int.from_bytes(t.to_bytes(4, "little"), "big"))
        ftags = sorted(t for t in ftags if t not in tags or t == 0)
        rng.shuffle(ftags)
        lines = ["regcount"]
        lines += [f"regname {n} {annarg}" for n in names]
        lines += [f"regtag {t} {annarg}" for t in tags]
        nreal = len(lines)
        lines += [f"regname {n} {annarg}" for n in fake[:200]] + [f"regtag {t} {annarg}" for t in ftags[:200]]
        rc1, mo, e1 = fam.model(u, lines)
        rc2, go, e2 = run_lines(u.gen.exe, [], lines)
        if rc1 != 0 or rc2 != 0:
            with fam.lock:
                fam.unit_errors.append((u.name, f"driver failed: model rc={rc1} go rc={rc2} {e1[-200:]} {e2[-300:]}"))
            return
        fam.compare(u, lines[:nreal], mo[:nreal], go[:nreal], "lookup-known")
        fam.compare(u, lines[nreal:], mo[nreal:], go[nreal:], "lookup-unknown")
        # ---- model-free oracle on Go's own answers
        rc, ordered, err = run_lines(u.gen.exe, [], ["regitems"])
        onames = ordered[0].split(" ")[1:] if ordered and ordered[0].startswith("ok") else []
        if len(set(onames)) != len(onames):
            fam.oracle_fail(u, f"C17:dup-name:{u.name}", "duplicate names in GetAllTLItems()", {"items": onames})
        # third lookup path: every element of the ordered list must be the item the model finds under that name
        by_model = {l.split(" ")[1]: m for l, m in zip(lines, mo) if l.startswith("regname ")}
        il = [f"regidx {i} {annarg}" for i in range(len(onames))]
        io = run_lines_resilient(u.gen.exe, [], il, timeout=600)
        fam.compare(u, il, [by_model.get(n, "none") for n in onames], io, "lookup-ordered-list")
        if getattr(u, "ns_pkgs", None):
            fam.add(split_units_linking_namespace_packages=1)
        items = {}
        bytop = {x["tlName"]: x for x in ins if x.get("topLevel") and x["kind"] in ("struct", "union")}
        declared = text_annotations(u.files)
        for n, decl in declared.items():     # translator tie: the dump's raw annotation lists are the schema text's
            if n in bytop and sorted(set(decl)) != sorted(set(bytop[n].get("annotations") or [])):
                with fam.lock:
                    fam.unit_errors.append((u.name, f"kernel dump lists annotations {bytop[n].get('annotations')} for {n}, the schema text declares {decl}"))
        fam.add(items_with_2plus_annotations=sum(1 for n, decl in declared.items() if n in bytop and len(set(decl)) >= 2),
                items_with_unsorted_annotations=sum(1 for n, decl in declared.items() if n in bytop and decl != sorted(decl)))
        for x in bytop.values():
            if x["kind"] == "struct" or (x.get("hasTL2") and not x.get("isMaybe")):
                if x["tlName"] not in onames:
                    fam.oracle_fail(u, f"C17:missing:{u.name}:{x['tlName']}", "top-level type of the schema is not registered", {"name": x["tlName"]})
        for l, g in zip(lines, go):
            if not g.startswith("ok ") or l == "regcount":
                if l.split(" ")[0] == "regname" and l.split(" ")[1] in onames and g.startswith("panic"):
                    fam.oracle_fail(u, f"C17:lookup:{u.name}:{l.split(' ')[1]}", f"looking the item up / creating its object panics: {g[:120]}", {"op": l, "go": g})
                elif l.split(" ")[0] == "regname" and l.split(" ")[1] in onames:
                    fam.oracle_fail(u, f"C17:lost:{u.name}:{l.split(' ')[1]}", f"item listed by GetAllTLItems is not found by name: {g}", {"op": l, "go": g})
                continue
            f = g.split(" ")
            kv = dict(p.split("=", 1) for p in f[3:])
            op, arg = l.split(" ")[0], l.split(" ")[1]
            name, tag = f[1], int(f[2], 16)
            items[name] = (tag, kv)
            sig = f"C17:lookup:{u.name}:{name}"
            if op == "regname" and name != arg:
                fam.oracle_fail(u, sig, f"lookup by name {arg} returned item {name}", {"op": l, "go": g})
            if op == "regtag" and tag != int(arg):
                fam.oracle_fail(u, sig, f"lookup by tag {arg} returned item with tag {tag:#x}", {"op": l, "go": g})
            if kv["namert"] != "same" or (tag != 0 and kv["tagrt"] != "same") or (tag == 0 and kv["tagrt"] != "none"):
                fam.oracle_fail(u, sig, f"by-name / by-tag lookups do not return the same item (tagrt={kv['tagrt']}, by tag CreateObject -> {kv['factag']}, CreateFunction -> {kv['facfn']})", {"op": l, "go": g})
            if (kv["fn"] != "none") != (kv["fun"] == "true") or (kv["facfn"] != "none") != (kv["fun"] == "true"):
                fam.oracle_fail(u, sig, "IsFunction disagrees with CreateFunction", {"op": l, "go": g})
            x = bytop.get(name)    # the schema's own statement about this item (kernel dump), independent of the Coq model
            if x is None:
                fam.oracle_fail(u, sig, "registered item is not a top-level type of the schema", {"op": l, "go": g})
            else:
                decl = declared.get(name, x.get("annotations") or [])     # the schema text's own list when the combinator is found there
                want_ann = "".join("1" if a in decl else "0" for a in anns) or "-"
                want = (x["tag"], str(bool(x.get("isFunction"))).lower(), str(not x.get("originTL2")).lower(), str(bool(x.get("hasTL2"))).lower(), f"{want_ann}/{len(anns)}")
                got = (tag, kv["fun"], kv["tl1"], kv["tl2"], kv["ann"])
                if want != got:
                    fam.oracle_fail(u, sig, f"item flags (tag, function, TL1, TL2, annotations) {got} differ from the schema's {want}", {"op": l, "go": g, "schema": want})
            if "!" in g or "?" in kv["ann"] or "unexpected" in g or kv["factag"] == "panic" or kv.get("box", "ok") != "ok":
                fam.oracle_fail(u, sig, "factory and meta disagree", {"op": l, "go": g})
        if sorted(items) != sorted(onames):
            fam.oracle_fail(u, f"C17:listing:{u.name}", "GetAllTLItems and the lookups disagree on the set of items",
                            {"only_listed": sorted(set(onames) - set(items))[:20], "only_found": sorted(set(items) - set(onames))[:20]})
        tagseen = {}
        for n, (t, kv) in items.items():
            if t != 0 and t in tagseen:
                fam.oracle_fail(u, f"C17:dup-tag:{u.name}:{t:08x}", f"items {tagseen[t]} and {n} share tag {t:#x}", {})
            tagseen[t] = n
        fam.add(schemas=1, items=len(items), functions=sum(1 for t, kv in items.values() if kv["fun"] == "true"),
                annotated=sum(1 for t, kv in items.values() if "1" in kv["ann"]), tag0=sum(1 for t, kv in items.values() if t == 0))
        # ---- boxed encodings start with the reported tag
        tops = [t for t in toplevel_objects(ins) if t[1] in items and items[t[1]][1]["tl1"] == "true"]
        for t in toplevel_objects(ins):
            if t[1] in items and items[t[1]][1]["tl1"] != "true":
                with fam.lock:
                    skipped.setdefault("no TL1 code (TL2-origin type)", []).append(f"{u.name}:{t[1]}")
        san = "1" if u.san else "0"
        vg = ValueGen(ins, rng)
        enc_lines = []
        for tid, name, x in tops:
            for _ in range(nvals):
                try:
                    v = vg.top(tid)
                except Budget:
                    fam.add(budget_skips=1)
                    break
                enc_lines.append(f"enc {san} {tid} {name} 1 | {vtext(v)}")
        rc, eo, err = fam.model(u, enc_lines)
        box = []
        for l, o in zip(enc_lines, eo):
            if o.startswith("ok "):
                f = l.split(" ")
                box.append((f"regbox {f[2]} {f[3]} {o[3:]} -", "box-model-value"))
        tid_of = {name: tid for tid, name, x in tops}
        for l, o in go_random_values(fam, u, [name for tid, name, x in tops], nvals, rng):
            name = l.split(" ")[1]
            box.append((f"regbox {tid_of[name]} {name} {o[3:]} {l.split(' ')[2]}", "box-go-random-value"))
        for kind in ("box-model-value", "box-go-random-value"):
            bl = [b[0] for b in box if b[1] == kind]
            if not bl:
                continue
            # in rounds (one op per item and round): an item whose object kills the process on read / Reset
            # (recursive types, F39 / F7: owned by C08 / C18) is dropped after the first crash
            by_name = {}
            for l in bl:
                by_name.setdefault(l.split(" ")[2], []).append(l)
            done, go_of = [], {}
            alive = list(by_name)
            rnd = 0
            while alive:
                cur = [by_name[n][rnd] for n in alive if rnd < len(by_name[n])]
                if not cur:
                    break
                out = run_lines_resilient(u.gen.exe, [], cur, timeout=600, max_restarts=60)
                dead = set()
                for l, o in zip(cur, out):
                    done.append(l)
                    go_of[l] = o
                    if o.startswith("crash"):
                        dead.add(l.split(" ")[2])
                for n in dead:
                    with fam.lock:
                        skipped.setdefault("object crashes the process on read/Reset (recursive type, F39/F7)", []).append(f"{u.name}:{n}")
                alive = [n for n in alive if n not in dead]
                rnd += 1
            bl = done
            go = [go_of[l] for l in bl]
            mo = fam.model_resilient(u, bl)
            fam.compare(u, bl, mo, go, kind)
            for l, g in zip(bl, go):
                if not g.startswith("ok "):
                    continue   # reader refusals (F6) are owned by C01
                f = g.split(" ")
                name = l.split(" ")[2]
                x = ins[int(l.split(" ")[1])]
                if f[3] != le32(int(f[2], 16)):
                    fam.oracle_fail(u, f"C17:boxed-tag:{u.name}:{name}", f"boxed encoding starts with {f[3]} but the object reports tag {f[2]}", {"op": l, "go": g})
                if x["kind"] == "struct" and (f[1] != name or int(f[2], 16) != items[name][0]):
                    fam.oracle_fail(u, f"C17:obj-name:{u.name}:{name}", f"object created for {name} reports {f[1]} {f[2]}", {"op": l, "go": g})
                if x["kind"] == "union" and f[1] not in [ins[v]["tlName"] for v in x["variants"]]:
                    fam.oracle_fail(u, f"C17:obj-name:{u.name}:{name}", f"union object reports a name that is not one of its variants: {f[1]}", {"op": l, "go": g})

    fam.run_units(work)
    fam.report(
        "registry inconsistent",
        "per schema (repository schemas under several generator options + random schemas with annotated functions, incl. annotations unknown to the generator): "
        "EXHAUSTIVE over every TL name and tag of the kernel dump (registered or not) + near-miss names/tags: lookup by name / by tag, item flags, annotation accessors, "
        "CreateObject/CreateFunction through meta and factory; then for every TL1 item, values (model-generated and FillRandom) are read boxed and the reported "
        "TLName/TLTag and the first 4 written bytes compared with the model",
        extra_cov={"skipped_constructs": {k: sorted(v)[:40] for k, v in skipped.items()} or "none",
                   "not_modelled": ["order of GetAllTLItems() (order of the generator's type list; lookups do not depend on it)",
                                    "HasUnionTypesInArguments/Result, long adapters (CreateFunctionLong)"]},
        assumptions=["FillRandom crashes on recursive types (F7) are left to C18; reader refusals of written values (F6) to C01"])
