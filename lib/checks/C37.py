"""C37 -- UDP acknowledgement bookkeeping is exact (pkg/rpc/udp/acks.go, AcksToSend).

Implementation side: the real AcksToSend driven through the add-only overlay test
overlay/pkg/rpc/udp/verif_acks_test.go (package udp, build tag verif).  Model side: the extracted
Coq model Acks/AcksModel.v.  Oracle: set semantics computed here from the operation list and
evaluated on Go's own dumps (state invariant, represented set, ack/nack headers)."""
import re
from vlib import *

PROPS = "Props/C37"
FAMILY = "acks"
M32 = 1 << 32
OVERLAY_SRC = VERIF / "overlay" / "pkg" / "rpc" / "udp" / "verif_acks_test.go"


# --------------------------------------------------------------------------- set semantics (intervals)

def union_add(iv, f, t):
    """iv: sorted tuple of disjoint, non-adjacent closed intervals; returns iv U [f..t] in the same form."""
    if f > t:
        return iv
    res = []
    placed = False
    for a, b in iv:
        if b + 1 < f:
            res.append((a, b))
        elif t + 1 < a:
            if not placed:
                res.append((f, t))
                placed = True
            res.append((a, b))
        else:
            f, t = min(f, a), max(t, b)
    if not placed:
        res.append((f, t))
    return tuple(res)


def subset(iv, f, t):
    return any(a <= f and t <= b for a, b in iv)


def disjoint(iv, f, t):
    return all(b < f or t < a for a, b in iv)


_mask_cache = {}


def canon_of_mask(mask):
    r = _mask_cache.get(mask)
    if r is None:
        res, i, m = [], 0, mask
        while m:
            if m & 1:
                j = i
                while (m >> 1) & 1:
                    m >>= 1
                    j += 1
                res.append((i, j))
                i = j
            m >>= 1
            i += 1
        r = _mask_cache[mask] = tuple(res)
    return r


# --------------------------------------------------------------------------- operations

def gen_ops(ctx):
    """(op line, kind, data); data = expected canonical set (tuple of intervals), a list of them for
    seqx, or None for kinds that are only compared with the model (inputs excluded by the theorems)."""
    rng = ctx.rng
    quick = ctx.quick()
    ops = []

    # --- exhaustive: every sequence of <= 3 ranges over 0..D-1 as its own line, every sequence of 4 through seqx
    D = 8 if quick else 9
    dom = [(f, t) for f in range(D) for t in range(f, D)]
    rmask = {r: (1 << (r[1] + 1)) - (1 << r[0]) for r in dom}

    def exhaustive(p0, depth, xdepth):
        """all sequences of length <= depth as `seq`; if xdepth, all of length depth+1 as `seqx`."""
        pm = (1 << p0) - 1
        n = 0

        def rec(seq_txt, mask, k):
            nonlocal n
            ops.append((f"seq {p0}{seq_txt}", "exh", canon_of_mask(mask)))
            n += 1
            if k == depth:
                if xdepth:
                    ops.append((f"seqx {D} {p0}{seq_txt}", "exhx", [canon_of_mask(mask | rmask[r]) for r in dom]))
                    n += len(dom)
                return
            for r in dom:
                rec(f"{seq_txt} {r[0]} {r[1]}", mask | rmask[r], k + 1)
        rec("", pm, 0)
        return n

    nseq = exhaustive(0, 3, True)
    for p0 in (1, 3, 6):
        nseq += exhaustive(p0, 2, True)
    ctx.notes["exhaustive_part"] = (f"all sequences of <= 4 ranges over 0..{D - 1} from the empty state, all of <= 3 ranges from "
                               f"ackPrefix 1, 3, 6: {nseq} histories ({len(dom)} ranges in the domain)")

    # --- stateful histories: reset + adds, state and headers dumped after every add
    def history(kind, p0, adds):
        iv = union_add((), 0, p0 - 1)
        ops.append((f"reset {p0}", kind, iv))
        for f, t in adds:
            iv = union_add(iv, f, t)
            ops.append((f"add {f} {t}", kind, iv))

    def rand_range(lo, hi, maxlen):
        f = rng.randint(lo, hi)
        return f, min(hi, f + min(rng.randrange(maxlen + 1), rng.randrange(maxlen + 1)))

    nh = 400 if quick else 20000
    for _ in range(nh):
        p0 = rng.choice([0, 0, 0, rng.randrange(0, 12)])
        maxlen = rng.choice([0, 1, 3, 8, 20])
        history("rand60", p0, [rand_range(0, 60, maxlen) for _ in range(rng.randrange(5, 41))])
    # many short ranges: more than MaxAckSet ranges / singles (header truncation)
    for _ in range(12 if quick else 300):
        hi = rng.choice([250, 400, 700])
        maxlen = rng.choice([0, 1, 2, 4])
        history("many", rng.choice([0, 0, 5]), [rand_range(0, hi, maxlen) for _ in range(rng.randrange(120, 260))])
    # few long ranges: ack set truncated inside a range
    for _ in range(20 if quick else 400):
        history("long", rng.choice([0, 7]), [rand_range(0, 5000, rng.choice([60, 200, 1000])) for _ in range(rng.randrange(3, 14))])
    # near the top of the domain: to <= 2^32-2, from/to/prefix close to 2^32
    top = M32 - 2
    for _ in range(300 if quick else 10000):
        lo = top - rng.choice([8, 20, 60])
        adds = []
        for _ in range(rng.randrange(3, 30)):
            c = rng.random()
            if c < 0.75:
                adds.append(rand_range(lo, top, rng.choice([0, 1, 3, 10])))
            elif c < 0.85:
                adds.append(rand_range(0, 6, 3))
            elif c < 0.93:
                adds.append((rng.randrange(0, 4), rng.randint(lo, top)))     # drives ackPrefix up to ~2^32
            else:
                adds.append((rng.randint(1, 40), rng.randint(lo - 50, top)))  # one huge range
        p0 = rng.choice([0, 0, 1, lo - 1, lo + 2, top, top + 1])
        history("high", p0, adds)

    # --- inputs excluded by the theorems (model/implementation agreement only, no set oracle):
    # ackTo = 2^32-1 makes ackTo+1 wrap to 0; ackFrom > ackTo is not a range
    # the witnesses of C37_wrap_excluded_*_refuted, replayed on the Go code
    ops.append((f"seq 0 0 {M32 - 1}", "wrap-excluded", None))
    ops.append((f"seq 0 2 3 5 {M32 - 1}", "wrap-excluded", None))
    for _ in range(300 if quick else 5000):
        adds = []
        for _ in range(rng.randrange(1, 8)):
            c = rng.random()
            if c < 0.4:
                adds.append((rng.choice([0, 1, 5, M32 - 3, M32 - 2, M32 - 1]), M32 - 1))
            else:
                adds.append(rand_range(0, 12, 4) if rng.random() < 0.6 else rand_range(M32 - 10, M32 - 1, 4))
        ops.append((f"seq {rng.choice([0, 0, 3, M32 - 1])} " + " ".join(f"{f} {t}" for f, t in adds), "wrap-excluded", None))
    for _ in range(300 if quick else 5000):
        adds = []
        for _ in range(rng.randrange(1, 10)):
            f, t = rand_range(0, 14, 5)
            adds.append((t, f) if rng.random() < 0.35 else (f, t))
        ops.append((f"seq {rng.choice([0, 0, 2])} " + " ".join(f"{f} {t}" for f, t in adds), "inverted-excluded", None))
    return ops


# --------------------------------------------------------------------------- oracle

def max_ack_set():
    m = re.search(r"^const\s+MaxAckSet\s*=\s*(\d+)\s*$", (REPO / "pkg/rpc/udp/acks.go").read_text(), re.M)
    return int(m.group(1)) if m else None


_dump_re = re.compile(r"ok p=(\d+) r=(\S+) ack=([^;\s]+);([^;\s]+);(\S+) nack=(\S+)")


def _ranges(s):
    if s == "-":
        return []
    return [tuple(int(x) for x in r.split("-")) for r in s.split(",")]


def analyse(dump, maxack, cache):
    """-> (represented set as canonical intervals | None, list of broken clauses).  Everything is judged
    against the set that the dumped state itself represents; equality of that set with the recorded
    ranges is checked by the caller."""
    r = cache.get(dump)
    if r is not None:
        return r
    m = _dump_re.fullmatch(dump)
    if not m:
        r = (None, ["unparsable"])
        cache[dump] = r
        return r
    probs = []
    p = int(m.group(1))
    try:
        rs = _ranges(m.group(2))
        ack_p = None if m.group(3) == "-" else int(m.group(3))
        ack_r = _ranges(m.group(4))
        ack_s = [] if m.group(5) == "-" else [int(x) for x in m.group(5).split(",")]
        nack = _ranges(m.group(6))
    except ValueError:
        r = (None, ["unparsable"])
        cache[dump] = r
        return r
    # invariant: prefix + sorted, disjoint, non-adjacent, non-empty ranges above the prefix, no number >= 2^32-1
    lo = p
    inv = p < M32
    for f, t in rs:
        if not (lo < f <= t < M32 - 1):
            inv = False
        lo = t + 1
    if not inv:
        probs.append("invariant")
    iv = union_add((), 0, p - 1)
    for f, t in rs:
        iv = union_add(iv, f, t)
    # ack header acknowledges only members
    if ack_p is not None and not subset(iv, 0, ack_p):
        probs.append("ack-prefix-not-member")
    for f, t in ack_r:
        if f > t or not subset(iv, f, t):
            probs.append("ack-range-not-member")
    if any(not subset(iv, x, x) for x in ack_s):
        probs.append("ack-set-not-member")
    if maxack is not None and len(ack_s) > maxack:
        probs.append("ack-set-too-long")
    # resend request names only non-members
    for f, t in nack:
        if f > t:
            probs.append("nack-range-inverted")
        elif not disjoint(iv, f, t):
            probs.append("nack-requests-member")
    if maxack is not None and len(nack) > maxack:
        probs.append("nack-too-long")
    r = (iv, probs)
    cache[dump] = r
    return r


def oracle(ctx, ops, go_out):
    """The property evaluated on the implementation's own outputs (no model involved)."""
    maxack = max_ack_set()
    cache = {}
    bad = []
    hist = []          # replay of the current stateful history as one seq line
    seen = set()

    def judge(replay_op, kind, dump, expected):
        if dump.startswith("panic"):
            return bad.append((replay_op, kind, dump))
        if expected is None:
            return
        iv, probs = analyse(dump, maxack, cache)
        if iv is not None and iv != expected:
            probs = probs + ["set-differs-from-union-of-recorded-ranges"]
        if probs and len(bad) < 20000:
            key = (replay_op, probs[0])
            if key not in seen:
                seen.add(key)
                bad.append((replay_op, kind + ":" + "+".join(sorted(set(probs))), dump))

    for (op, kind, data), out in zip(ops, go_out):
        w = op.split(" ", 1)
        if w[0] == "seqx":
            parts = out.split(" | ")
            f = op.split(" ")
            d = int(f[1])
            exts = [(a, b) for a in range(d) for b in range(a, d)]
            if len(parts) != len(exts):
                bad.append((op, kind, trunc(out, 200)))
                continue
            base = " ".join(f[2:])
            for (a, b), dump, exp in zip(exts, parts, data):
                judge(f"seq {base} {a} {b}", kind, dump, exp)
        elif w[0] == "reset":
            hist = [w[1]]
            judge(op, kind, out, data)
        elif w[0] == "add":
            hist.append(w[1])
            judge("seq " + " ".join(hist), kind, out, data)
        else:
            judge(op, kind, out, data)
    bad.sort(key=lambda b: b[0].count(" "))   # shortest replay first
    return bad


# --------------------------------------------------------------------------- wiring

def post(ctx, ops, model_out, go_out):
    """count histories (one dump = state + both headers after one AddAckRange history), not lines"""
    dumps = 0
    distinct = set()
    hist = ()
    for op, kind, data in ops:
        w = op.split(" ")
        if w[0] == "seqx":
            d = int(w[1])
            dumps += d * (d + 1) // 2
            base = " ".join(w[2:])
            for a in range(d):
                for b in range(a, d):
                    distinct.add(hash(f"{base} {a} {b}"))
        elif w[0] == "reset":
            hist = (w[1],)
            dumps += 1
            distinct.add(hash(" ".join(hist)))
        elif w[0] == "add":
            hist = hist + (w[1], w[2])
            dumps += 1
            distinct.add(hash(" ".join(hist)))
        else:
            dumps += 1
            distinct.add(hash(" ".join(w[1:])))
    ctx.coverage["operation_lines"] = len(ops)
    ctx.coverage["evaluations"] = dumps
    ctx.coverage["distinct_nontrivial"] = len(distinct)
    if go_out is not None:
        ctx.coverage["dumps_compared"] = sum(o.count(" | ") + 1 for o in go_out)
    # a mismatching stateful line is only replayable with its history: attach it as one seq line
    if go_out is not None and model_out is not None:
        hist = []
        todo = [v for v in ctx.violations if v["data"].get("correspondence") and v["data"].get("op", "").startswith("add ")]
        for (op, kind, data), m, g in zip(ops, model_out, go_out):
            if not todo:
                break
            w = op.split(" ", 1)
            if w[0] == "reset":
                hist = [w[1]]
            elif w[0] == "add":
                hist.append(w[1])
                if m != g:
                    for v in todo:
                        if v["data"]["op"] == op and v["data"]["model"] == m and v["data"]["go"] == g:
                            v["data"]["replay_as"] = "seq " + " ".join(hist)
                            v["what"] += " [history: seq " + trunc(" ".join(hist), 200) + "]"
                            todo.remove(v)
                            break


def go_runner(ctx, lines):
    binp, err = build_overlay_test("pkg/rpc/udp", {"verif_acks_test.go": OVERLAY_SRC}, ctx.scratch, name="udp_acks")
    if not binp:
        return None, err
    rc, out, log_ = run_overlay_test(binp, "TestVerifAcks", lines, ctx.scratch, timeout=240 if ctx.quick() else 3000)
    if rc != 0:
        return None, f"overlay test exit {rc}: {log_[-800:]}"
    return out, ""


def run(ctx):
    standard_run(
        ctx, props=PROPS, family=FAMILY, consts=["Acks"], go_runner=go_runner, gen_ops=gen_ops, oracle=oracle,
        corr_name="corr:C37:acks", post=post,
        trusted=["translator tools/genconsts (go/parser; MaxAckSet of pkg/rpc/udp/acks.go)",
                 "overlay harness overlay/pkg/rpc/udp/verif_acks_test.go (in-package test, injected with go test -overlay) "
                 "and the comparison/oracle in lib/checks/C37.py"],
        assumptions=["theorems cover ranges with ackFrom <= ackTo <= 2^32-2 (ackTo = 2^32-1 makes ackTo+1 wrap; shown to break "
                     "the property in C37_wrap_excluded_*; such inputs are only compared model-vs-Go)",
                     "Go code is modelled, not verified: agreement is established on the operations listed under op_kinds",
                     "headers are read from a fresh EncHeader / ResendRequest after BuildAck / BuildNegativeAck"],
        rule="operations generated from VERIF_SEED; every line is run on the real AcksToSend (in-package overlay test, rebuilt "
             "from /repo) and on the extracted Coq model; a seqx line stands for one history per range of the domain; "
             "evaluations = histories whose final state and both headers were dumped and compared (a stateful add line is the history "
             "since the last reset); distinct = distinct (initial prefix, range sequence) histories, counted by hashing; all are "
             "non-trivial (each dumps state and both headers after an AddAckRange history)")
