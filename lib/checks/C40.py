"""C40 -- RPC request/response extras are transmitted unchanged (pkg/rpc/rpc_format.go)."""
import struct

from vlib import *
from frame_lib import *

PROPS = "Props/C40"
FAMILY = "frame"
GO = GoSide()

U64 = (1 << 64) - 1
U32 = (1 << 32) - 1

TAG_DEST_ACTOR = 0x7568aabd
TAG_DEST_FLAGS = 0xe352035e
TAG_DEST_ACTOR_FLAGS = 0xf0a5acf7
TAG_TL2 = 0x30324c54
TAG_REQ_RESULT_HEADER = 0x8cc84ce1
TAG_REQ_ERROR = 0xb527877d
TAG_RESULT_ERROR = 0x7ae432f5
TAG_RESULT_ERROR_WRAPPED = 0x7ae432f6
REQ_WRAPPERS = (TAG_DEST_ACTOR, TAG_DEST_FLAGS, TAG_DEST_ACTOR_FLAGS, TAG_TL2)
RESP_SPECIAL = (TAG_REQ_RESULT_HEADER, TAG_REQ_ERROR, TAG_RESULT_ERROR, TAG_RESULT_ERROR_WRAPPED)

REQ_FIELD_BITS = [9, 15, 16, 18, 19, 20, 21, 23, 25, 26, 28, 29, 30]
REQ_TRUE_BITS = [0, 1, 2, 3, 4, 6, 8, 14, 27]          # bit 7 (no_result) is handled separately
REQ_UNDEF_BITS = [5, 10, 11, 12, 13, 17, 22, 24, 31]
RESP_FIELD_BITS = [0, 1, 2, 3, 4, 5, 6, 14, 27]


def r64(rng):
    r = rng.random()
    if r < 0.2:
        return rng.choice([0, 1, U64, 1 << 63, (1 << 63) - 1, U64 - 1, 255, 256])
    if r < 0.5:
        return U64 - rng.randrange(0, 1000)          # small negative int64
    return rng.getrandbits(64)


def r32(rng):
    r = rng.random()
    if r < 0.25:
        return rng.choice([0, 1, U32, 1 << 31, (1 << 31) - 1, 1000])
    if r < 0.5:
        return U32 - rng.randrange(0, 1000)          # small negative int32
    return rng.getrandbits(32)


def rstr(rng, long_ok=True):
    r = rng.random()
    if r < 0.2:
        n = 0
    elif r < 0.7:
        n = rng.randrange(1, 20)
    elif r < 0.97 or not long_ok:
        n = rng.choice([252, 253, 254, 255, 256, 257, 300])
    else:
        n = rng.choice([1000, 65535, 65536, 70000])
    r2 = rng.random()
    if r2 < 0.3:
        return bytes(rng.choice(b"abcxyz019_") for _ in range(n))
    return rng.randbytes(n)


def rflags(rng, field_bits, other_bits):
    r = rng.random()
    if r < 0.08:
        return 0
    if r < 0.16:
        f = 0
        for b in field_bits + other_bits:
            f |= 1 << b
        return f
    if r < 0.35:
        return 1 << rng.choice(field_bits + other_bits)
    f = 0
    p = rng.choice([0.15, 0.5, 0.85])
    for b in field_bits + other_bits:
        if rng.random() < p:
            f |= 1 << b
    return f


def rdict(rng, val):
    n = rng.choice([0, 0, 1, 2, 3, 5])
    d = {}
    for _ in range(n):
        d[rstr(rng, long_ok=False)[:rng.choice([0, 1, 3, 300])]] = val(rng)
    return d


class ReqExtra:
    def __init__(self, rng=None, sparse=False):
        z = rng is None
        lazy = (lambda p: (not z) and (not sparse or rng.random() < p))
        self.flags = 0 if z else rflags(rng, REQ_FIELD_BITS, REQ_TRUE_BITS + REQ_UNDEF_BITS)
        self.requester = r64(rng) if lazy(0.5) else 0
        self.wait_shards = rdict(rng, r64) if lazy(0.5) else {}
        self.wait_binlog_pos = r64(rng) if lazy(0.5) else 0
        self.sfk = [rstr(rng) for _ in range(rng.choice([0, 1, 2, 4]))] if lazy(0.5) else []
        self.ifk = [r64(rng) for _ in range(rng.choice([0, 1, 2, 5]))] if lazy(0.5) else []
        self.sf = rstr(rng) if lazy(0.5) else b""
        self.int_forward = r64(rng) if lazy(0.5) else 0
        self.timeout = r32(rng) if lazy(0.5) else 0
        self.compression = r32(rng) if lazy(0.5) else 0
        self.delay = (rng.choice([0, 0x7FF8000000000001, 0x7FF0000000000000, 0x8000000000000000, 0x3FF0000000000000, 0xFFF8000000000000])
                      if rng.random() < 0.4 else rng.getrandbits(64)) if lazy(0.5) else 0
        if lazy(0.5):
            self.pq = ("P", r64(rng), r64(rng)) if rng.random() < 0.5 else ("C", r64(rng), r64(rng), r64(rng), r64(rng))
        else:
            self.pq = ("P", 0, 0)
        self.trace = (rng.choice([0, 4, 8, 12, 0xFF, 0xF3, rng.getrandbits(32)]), r64(rng), r64(rng), r64(rng), rstr(rng, False)) if lazy(0.5) else (0, 0, 0, 0, b"")
        self.ec = rstr(rng) if lazy(0.5) else b""

    def tokens(self):
        ws = ",".join(f"{sub(k)}:{v}" for k, v in sorted(self.wait_shards.items())) or "-"
        return " ".join([
            str(self.flags), str(self.requester), ws, str(self.wait_binlog_pos),
            ",".join(sub(s) for s in self.sfk) or "-", ",".join(map(str, self.ifk)) or "-",
            sub(self.sf), str(self.int_forward), str(self.timeout), str(self.compression), str(self.delay),
            ":".join(map(str, self.pq)),
            f"{self.trace[0]}:{self.trace[1]}:{self.trace[2]}:{self.trace[3]}:{sub(self.trace[4])}",
            sub(self.ec)])

    def norm_tokens(self):
        """what the receiver must see: fields whose flag bit is clear are at their zero value"""
        f = self.flags
        n = ReqExtra()
        n.flags = f
        bit = lambda i: (f >> i) & 1
        n.requester = self.requester if bit(9) else 0
        n.wait_shards = self.wait_shards if bit(15) else {}
        n.wait_binlog_pos = self.wait_binlog_pos if bit(16) else 0
        n.sfk = self.sfk if bit(18) else []
        n.ifk = self.ifk if bit(19) else []
        n.sf = self.sf if bit(20) else b""
        n.int_forward = self.int_forward if bit(21) else 0
        n.timeout = self.timeout if bit(23) else 0
        n.compression = self.compression if bit(25) else 0
        n.delay = self.delay if bit(26) else 0
        n.pq = self.pq if bit(28) else ("P", 0, 0)
        if bit(29):
            m = self.trace[0]
            n.trace = (m, self.trace[1], self.trace[2], self.trace[3] if (m >> 2) & 1 else 0, self.trace[4] if (m >> 3) & 1 else b"")
        else:
            n.trace = (0, 0, 0, 0, b"")
        n.ec = self.ec if bit(30) else b""
        return n.tokens()


class RespExtra:
    def __init__(self, rng=None, sparse=False):
        z = rng is None
        lazy = (lambda p: (not z) and (not sparse or rng.random() < p))
        self.flags = 0 if z else rflags(rng, RESP_FIELD_BITS, [7, 8, 13, 15, 26, 28, 31])
        self.binlog_pos = r64(rng) if lazy(0.5) else 0
        self.binlog_time = r64(rng) if lazy(0.5) else 0
        self.pid = (r32(rng), r32(rng), r32(rng)) if lazy(0.5) else (0, 0, 0)
        self.request_size = r32(rng) if lazy(0.5) else 0
        self.response_size = r32(rng) if lazy(0.5) else 0
        self.failed = r32(rng) if lazy(0.5) else 0
        self.compression = r32(rng) if lazy(0.5) else 0
        self.stats = rdict(rng, lambda r: rstr(r, False)) if lazy(0.5) else {}
        self.shards = rdict(rng, r64) if lazy(0.5) else {}
        self.epoch = r64(rng) if lazy(0.5) else 0
        self.view = r64(rng) if lazy(0.5) else 0

    def tokens(self):
        return " ".join([
            str(self.flags), str(self.binlog_pos), str(self.binlog_time), ":".join(map(str, self.pid)),
            str(self.request_size), str(self.response_size), str(self.failed), str(self.compression),
            ",".join(f"{sub(k)}:{sub(v)}" for k, v in sorted(self.stats.items())) or "-",
            ",".join(f"{sub(k)}:{v}" for k, v in sorted(self.shards.items())) or "-",
            str(self.epoch), str(self.view)])

    def norm_tokens(self, mask):
        f = self.flags & mask
        bit = lambda i: (f >> i) & 1
        n = RespExtra()
        n.flags = f
        n.binlog_pos = self.binlog_pos if bit(0) else 0
        n.binlog_time = self.binlog_time if bit(1) else 0
        n.pid = self.pid if bit(2) else (0, 0, 0)
        n.request_size = self.request_size if bit(3) else 0
        n.response_size = self.response_size if bit(3) else 0
        n.failed = self.failed if bit(4) else 0
        n.compression = self.compression if bit(5) else 0
        n.stats = self.stats if bit(6) else {}
        n.shards = self.shards if bit(14) else {}
        n.epoch = self.epoch if bit(27) else 0
        n.view = self.view if bit(27) else 0
        return n.tokens()


def rbody(rng, forbidden, minlen=4):
    while True:
        r = rng.random()
        if r < 0.5:
            n = rng.randrange(minlen, 40)
        elif r < 0.985:
            n = rng.randrange(40, 400)
        else:
            n = rng.choice([1000, 4096, 70000])
        b = rng.randbytes(n)
        if n < 4 or struct.unpack("<I", b[:4])[0] not in forbidden:
            return b


def rerr(rng):
    code = rng.choice([0, 1, U32, U32 - 3999, U32 - 2999, 5, 1 << 31]) if rng.random() < 0.6 else rng.getrandbits(32)
    return (code, rstr(rng))


def err_tok(e):
    return "-" if e is None else f"{e[0]}:{sub(e[1])}"


def gen_ops(ctx):
    rng = ctx.rng
    quick = ctx.quick()
    ops = []
    n = 900 if quick else 9000

    def req_fields(kind):
        e = ReqExtra(rng, sparse=rng.random() < 0.3)
        if kind == "rt":
            e.flags &= ~(1 << 7)
        if rng.random() < 0.3:  # fields of clear bits carry values, fields of set bits are zero/empty
            z = ReqExtra()
            z.flags = e.flags
            if rng.random() < 0.5:
                e = z
        qid = r64(rng)
        actor = rng.choice([0, 0, 1, U64, r64(rng)])
        tl2 = rng.choice([0, 1])
        body = rbody(rng, REQ_WRAPPERS)
        return qid, actor, tl2, body, e

    # ---- requests: preparePacket -> wire -> ParseInvokeReq
    for i in range(n):
        qid, actor, tl2, body, e = req_fields("req")
        line = f"req {qid} {actor} {tl2} {hx(body)} {e.tokens()}"
        ops.append((line, "request", {"want": f"{qid} {actor} {tl2} {struct.unpack('<I', body[:4])[0]} {hx(body)} {e.norm_tokens()}"}))
    # every single flag bit and every pair of field bits
    singles = [1 << b for b in range(32)] + [(1 << a) | (1 << b) for a in REQ_FIELD_BITS for b in REQ_FIELD_BITS if a < b]
    for f in singles if quick else singles * 3:
        qid, actor, tl2, body, e = req_fields("req")
        e2 = ReqExtra(rng)
        e2.flags = f
        line = f"req {qid} {actor} {tl2} {hx(body)} {e2.tokens()}"
        ops.append((line, "request-bits", {"want": f"{qid} {actor} {tl2} {struct.unpack('<I', body[:4])[0]} {hx(body)} {e2.norm_tokens()}"}))
    # bodies outside the theorem's premise: empty / short / starting with a wrapper tag (model == Go only)
    for i in range(60 if quick else 400):
        qid, actor, tl2, body, e = req_fields("req")
        r = rng.random()
        if r < 0.3:
            body = rng.randbytes(rng.randrange(0, 4))
        else:
            body = struct.pack("<I", rng.choice(REQ_WRAPPERS)) + rng.randbytes(rng.choice([0, 4, 8, 12, 40, 200]))
        ops.append((f"req {qid} {actor} {tl2} {hx(body)} {e.tokens()}", "request-outside-premise", None))

    # ---- responses: prepareResponseBody -> wire -> RpcReqResultHeader.ReadTL1 + parseResponseExtra
    for i in range(n):
        e = RespExtra(rng, sparse=rng.random() < 0.3)
        qid = r64(rng)
        mask = rflags(rng, RESP_FIELD_BITS, [8, 9, 13, 15, 26, 28, 31]) if rng.random() < 0.7 else U32 & ~(1 << 7)
        if rng.random() < 0.03:
            mask |= 1 << 7
        tl2 = rng.choice([0, 1])
        err = rerr(rng) if rng.random() < 0.3 else None
        body = rbody(rng, RESP_SPECIAL, minlen=0 if tl2 else 4)
        line = f"resp {qid} {mask} {tl2} {hx(body)} {err_tok(err)} {e.tokens()}"
        if mask & (1 << 7):
            want = "noresult"
        elif err is not None:
            code = err[0] if err[0] != 0 else U32 - 3999
            want = f"{qid} E:{code}:{sub(err[1])}:. {e.norm_tokens(mask)}"
        else:
            want = f"{qid} B:{hx(body)} {e.norm_tokens(mask)}"
        ops.append((line, "response-error" if err else "response", {"want": want}))
    for i in range(60 if quick else 400):  # outside the premise
        e = RespExtra(rng)
        tl2 = rng.choice([0, 1])
        r = rng.random()
        if r < 0.3:
            body = rng.randbytes(rng.randrange(0, 4))
        else:
            body = struct.pack("<I", rng.choice(RESP_SPECIAL + (TAG_TL2,))) + rng.randbytes(rng.choice([0, 4, 8, 12, 16, 40, 200]))
        ops.append((f"resp {r64(rng)} {U32 & ~(1 << 7)} {tl2} {hx(body)} - {e.tokens()}", "response-outside-premise", None))

    # ---- full round trip through one HandlerContext: the response mask is the parsed request's flags
    for i in range(n // 2):
        qid, actor, tl2, body, e = req_fields("rt")
        re_ = RespExtra(rng, sparse=rng.random() < 0.3)
        err = rerr(rng) if rng.random() < 0.3 else None
        rbody_ = rbody(rng, RESP_SPECIAL, minlen=0 if tl2 else 4)
        line = f"rt {qid} {actor} {tl2} {hx(body)} {e.tokens()} {hx(rbody_)} {err_tok(err)} {re_.tokens()}"
        reqs = f"{qid} {actor} {tl2} {struct.unpack('<I', body[:4])[0]} {hx(body)} {e.norm_tokens()}"
        if err is not None:
            code = err[0] if err[0] != 0 else U32 - 3999
            resps = f"{qid} E:{code}:{sub(err[1])}:. {re_.norm_tokens(e.flags)}"
        else:
            resps = f"{qid} B:{hx(rbody_)} {re_.norm_tokens(e.flags)}"
        ops.append((line, "roundtrip", {"want_req": reqs, "want_resp": resps}))

    # ---- end to end: ONE real rpc.Client and ONE real rpc.Server over loopback; sequences of calls whose
    # Responses are recycled through PutResponse/GetResponse; response extras drawn independently per call
    ALL_RESP = 0
    for b in RESP_FIELD_BITS:
        ALL_RESP |= 1 << b

    def e2e_call(mode, path=None, tl2_=None, req_mask=None, resp_flags=None):
        """path: d direct answer | l longpoll answered after FinishLongpoll | e longpoll answered by SendEmptyResponse |
        c longpoll cancelled by the caller"""
        if path is None:
            path = rng.choice("dddddllllleeec")
        qid, actor, tl2, body, e = req_fields("rt")
        if tl2_ is not None:
            tl2 = tl2_
        e.flags &= ~(1 << 7)
        if e.flags & (1 << 23):     # the client refuses negative / unflagged custom timeouts and clears zero ones
            e.timeout = rng.randrange(100000, 1 << 31)
        else:
            e.timeout = 0
        re_ = RespExtra(rng, sparse=rng.random() < 0.3)
        if mode == "none":
            if rng.random() < 0.5:
                re_.flags = 0
            else:
                e.flags &= ~re_.flags
                e.flags &= ~(1 << 23)
                e.timeout = 0
        elif mode == "full":
            e.flags |= ALL_RESP
            e.flags &= ~((1 << 7) | (1 << 23))
            e.timeout = 0
            re_ = RespExtra(rng)
            re_.flags = ALL_RESP
        elif mode == "zero":
            z = RespExtra()
            z.flags = re_.flags or ALL_RESP
            re_ = z
            e.flags |= z.flags
            e.flags &= ~((1 << 7) | (1 << 23))
            e.timeout = 0
        if req_mask is not None:      # sweeps over the response bits: request asks for req_mask, handler sets resp_flags
            e.flags = (e.flags & ~ALL_RESP & ~((1 << 7) | (1 << 23))) | req_mask
            e.timeout = 0
            re_ = RespExtra(rng)
            re_.flags = resp_flags
        err = rerr(rng) if rng.random() < 0.3 else None
        # (an empty body without error in the empty-response path is answered with ErrLongpollNoEmptyResponse by design)
        rb = rbody(rng, RESP_SPECIAL, minlen=0 if tl2 and path != "e" else 4)
        toks = f"{path} {qid} {actor} {tl2} {hx(body)} {e.tokens()} {hx(rb)} {err_tok(err)} {re_.tokens()}"
        seen = f"{actor} {tl2} {struct.unpack('<I', body[:4])[0]} {hx(body)} {e.norm_tokens()}"
        if path == "c":
            got = "cancelled"
        elif err is not None:
            code = err[0] if err[0] != 0 else U32 - 3999
            got = f"E:{code}:{sub(err[1])}:. {re_.norm_tokens(e.flags)}"
        else:
            got = f"B:{hx(rb)} {re_.norm_tokens(e.flags)}"
        return toks, seen + " => " + got, path

    for i in range(120 if quick else 1200):
        k = rng.randrange(2, 7)
        r = rng.random()
        if r < 0.4:
            modes = [("full", "none")[j % 2] for j in range(k)]
        elif r < 0.6:
            modes = [("zero", "none", "full")[j % 3] for j in range(k)]
        else:
            modes = [rng.choice(["none", "full", "zero", "random", "random"]) for _ in range(k)]
        calls = [e2e_call(m) for m in modes]
        line = f"e2e {k} " + " ".join(c[0] for c in calls)
        ops.append((line, "end-to-end", {"want": "ok " + " ; ".join(c[1] for c in calls),
                                         "modes": [f"{m}/{c[2]}" for m, c in zip(modes, calls)]}))
    # the longpoll paths for every response bit, both ways (request asks for one bit and the handler sets all; request
    # asks for all and the handler sets one), both body formats; and random flag words on both sides
    sweep = []
    for path in ("l", "e"):
        for tl2 in (0, 1):
            for b in RESP_FIELD_BITS:
                sweep.append((path, tl2, 1 << b, ALL_RESP))
                sweep.append((path, tl2, ALL_RESP, 1 << b))
            sweep.append((path, tl2, ALL_RESP, ALL_RESP))
            sweep.append((path, tl2, 0, ALL_RESP))
            for _ in range(6 if quick else 60):
                sweep.append((path, tl2, rflags(rng, RESP_FIELD_BITS, []), rflags(rng, RESP_FIELD_BITS, [7, 8, 13, 15, 26, 28, 31])))
    for j in range(0, len(sweep), 6):
        calls = [e2e_call("sweep", path=p_, tl2_=t_, req_mask=m_, resp_flags=f_) for p_, t_, m_, f_ in sweep[j:j + 6]]
        line = f"e2e {len(calls)} " + " ".join(c[0] for c in calls)
        ops.append((line, "end-to-end-longpoll-bits", {"want": "ok " + " ; ".join(c[1] for c in calls),
                                                        "modes": [f"sweep/{c[2]}" for c in calls]}))
    # what the longpoll record saves (reflection on the real structs vs the model's hctx_fields)
    ops.append(("lpfields actorID requestExtraFieldsmask reqTag bodyFormatTL2 noResult queryID RequestExtra", "longpoll-saved-fields",
                {"want": "ok actorID=1 requestExtraFieldsmask=1 reqTag=1 bodyFormatTL2=1 noResult=1 queryID=0 RequestExtra=0"}))

    # ---- arbitrary / malformed wire bytes to the parsers (model == Go; no panic)
    def le32(v):
        return struct.pack("<I", v)

    def le64(v):
        return struct.pack("<Q", v)

    def wire_extra(e):
        """flags only extras (no field bits) are enough to build wrapper combinations by hand"""
        return le32(e)

    combos = []
    tailb = rng.randbytes(12)
    A = le32(TAG_DEST_ACTOR) + le64(77)
    Fl = le32(TAG_DEST_FLAGS) + wire_extra(1 | 2)
    AF = le32(TAG_DEST_ACTOR_FLAGS) + le64(78) + wire_extra(4)
    M = le32(TAG_TL2)
    parts = {"A": A, "F": Fl, "X": AF, "M": M}
    import itertools
    for k in range(0, 4):
        for seq in itertools.product("AFXM", repeat=k):
            combos.append(le64(5) + b"".join(parts[c] for c in seq) + tailb)
    for w in combos:
        ops.append((f"preq {hx(w)}", "parse-request-wrappers", None))
    for i in range(200 if quick else 2000):
        # mutate a valid request wire: truncate, flip, splice
        e = ReqExtra(rng, sparse=True)
        w = bytearray(le64(r64(rng)))
        if rng.random() < 0.7:
            w += le32(TAG_DEST_ACTOR_FLAGS) + le64(r64(rng))
        else:
            w += le32(TAG_DEST_FLAGS)
        w += le32(e.flags & ~((1 << 15) | (1 << 18) | (1 << 19) | (1 << 28) | (1 << 29)))
        w += rng.randbytes(rng.randrange(0, 80))
        r = rng.random()
        if r < 0.4:
            w = w[:rng.randrange(0, len(w) + 1)]
        elif r < 0.7 and len(w):
            w[rng.randrange(0, len(w))] ^= 1 << rng.randrange(0, 8)
        ops.append((f"preq {hx(bytes(w))}", "parse-request-mutated", None))
    for i in range(100 if quick else 1000):
        ops.append((f"preq {hx(rng.randbytes(rng.randrange(0, 64)))}", "parse-request-random", None))
    # responses
    R = le32(TAG_REQ_RESULT_HEADER) + le32(1) + le64(9)
    specials = [le32(TAG_REQ_ERROR) + le32(5) + b"\x03abc", le32(TAG_RESULT_ERROR) + le64(1) + le32(U32) + b"\x00\x00\x00\x00",
                le32(TAG_RESULT_ERROR_WRAPPED) + le32(7) + b"\x01z\x00\x00" + b"rest", M + b"body", b"bodybody", b"", M]
    for k in range(0, 3):
        for s in specials:
            for tl2 in (0, 1):
                ops.append((f"presp {tl2} {hx(le64(3) + R * k + s)}", "parse-response-combos", None))
    for i in range(200 if quick else 2000):
        w = bytearray(le64(r64(rng)))
        if rng.random() < 0.7:
            w += le32(TAG_REQ_RESULT_HEADER) + le32(rng.getrandbits(32) & ~((1 << 6) | (1 << 14)))
        w += rng.choice([b"", le32(TAG_REQ_ERROR), le32(TAG_RESULT_ERROR), le32(TAG_RESULT_ERROR_WRAPPED), M])
        w += rng.randbytes(rng.randrange(0, 80))
        r = rng.random()
        if r < 0.4:
            w = w[:rng.randrange(0, len(w) + 1)]
        elif r < 0.7 and len(w):
            w[rng.randrange(0, len(w))] ^= 1 << rng.randrange(0, 8)
        ops.append((f"presp {rng.choice([0, 1])} {hx(bytes(w))}", "parse-response-mutated", None))
    return ops


def oracle(ctx, ops, go_out):
    bad = []
    for i, ((op, kind, data), out) in enumerate(zip(ops, go_out)):
        ok = True
        why = ""
        if out.startswith("panic") or out.startswith("driver-error"):
            ok, why = False, "panic"
        elif kind in ("request", "request-bits"):
            f = out.split(" ", 2)
            ok = len(f) == 3 and f[0] == "ok" and f[2] == data["want"]
            why = "parsed request (query id, actor, body format, extra, body) differs from what was sent"
        elif kind in ("response", "response-error"):
            if data["want"] == "noresult":
                ok = out == "noresult"
            else:
                f = out.split(" ", 2)
                ok = len(f) == 3 and f[0] == "ok" and f[2] == data["want"]
            why = "parsed response (query id, result/error, extra under the request's mask) differs from what was sent"
        elif kind == "roundtrip":
            ok = out.startswith("ok ")
            if ok:
                rest = out.split(" ", 2)[2]
                ok = rest.startswith(data["want_req"] + " ok ")
                if ok:
                    r2 = rest[len(data["want_req"]) + 4:].split(" ", 1)
                    ok = len(r2) == 2 and r2[1] == data["want_resp"]
            why = "request/response round trip through one handler context"
        elif kind == "longpoll-saved-fields":
            ok = out == data["want"]
            why = "a member of HandlerContext that the response depends on is not part of handlerContextFields, i.e. it is lost between StartLongpoll and FinishLongpoll"
        elif kind in ("end-to-end", "end-to-end-longpoll-bits"):
            ok = out == data["want"]
            why = "a caller of a real client saw something else than what the handler set for that call (or the handler saw something else than what the caller sent)"
            if not ok and out.startswith("ok "):
                got, want = out[3:].split(" ; "), data["want"][3:].split(" ; ")
                for j, (g, w) in enumerate(zip(got, want)):
                    if g != w:
                        why += f"; first differing call: #{j} of {len(want)} (modes {','.join(data['modes'])})"
                        break
        if not ok:
            bad.append((op, kind, out, f"C40:oracle:{kind}:{why}"))
    return bad


def post(ctx, ops, model_out, go_out):
    """evidence that the end-to-end calls really went through the client's Response pool"""
    reused = 0
    calls = 0
    paths = {}
    for (op, kind, data), side in zip(ops, GO.side):
        if kind in ("end-to-end", "end-to-end-longpoll-bits"):
            calls += len(data["modes"])
            for m in data["modes"]:
                paths[m[-1]] = paths.get(m[-1], 0) + 1
            d = kv(side)
            if "pooled_response_reused_total" in d:
                reused = max(reused, int(d["pooled_response_reused_total"]))
    ctx.notes["end_to_end"] = {"calls_on_one_client": calls, "calls_that_got_the_previous_pooled_Response": reused,
                               "calls_by_path(d direct, l longpoll+FinishLongpoll, e longpoll+SendEmptyResponse, c longpoll cancelled)": paths}
    if calls and reused * 2 < calls:
        ctx.violation("C40:e2e:pool-not-exercised", f"only {reused} of {calls} end-to-end calls reused a pooled Response: the recycle path is not exercised",
                      {"calls": calls, "reused": reused}, no_input=True)


def run(ctx):
    with Lock():
        heal_extract()
    standard_run(
        ctx, props=PROPS, family=FAMILY, consts=["Frame", "Prim"], go_runner=GO.runner, gen_ops=gen_ops, oracle=oracle,
        corr_name="corr:C40:hdr", post=post,
        trusted=["translator tools/genconsts (go/parser; TLTag methods of the generated types, maxPacketLen, packetOverhead, tlerrorcodes.Unknown)",
                 "Go harness overlay/pkg/rpc/verif_frame_test.go and the comparison/oracle in lib/checks/C40.py",
                 "flag-bit assignment of the generated ReadTL1/WriteTL1 is transcribed by hand into the model; it is exercised bit by bit by the correspondence"],
        assumptions=["the first 4 bytes of the user body are not a wrapper tag (requests: rpcDestActor/rpcDestFlags/rpcDestActorFlags/rpcTL2Marker; TL1 responses: reqResultHeader and the three error tags) and the body has at least 4 bytes (TL1 responses, all requests)",
                     "strings shorter than 2^56 bytes, vectors and maps shorter than 2^32 elements",
                     "handler errors are *rpc.Error values (the errors.As branch of prepareResponseBody); error code 0 is replaced by tlerrorcodes.Unknown by design",
                     "Go code is modelled, not verified: agreement is established on the operations listed under op_kinds"],
        rule="operations generated from VERIF_SEED; every op calls the real preparePacket/ParseInvokeReq/prepareResponseBody/parseResponseExtra (rebuilt from /repo with the overlay harness) and the extracted Coq model; "
             "e2e ops run sequences of calls on one real Client/Server pair, answered directly or through the longpoll path "
             "(StartLongpoll, then FinishLongpoll+SendLongpollResponse / SendEmptyResponse / cancel); "
             "distinct = distinct operation lines")
