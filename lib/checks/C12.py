"""C12 -- generated code agrees with the dynamic interpreter (internal/pure/onthefly)."""
import random
import threading
from concurrent.futures import ThreadPoolExecutor

from vlib import *
from gencommon import *
import obj_lib

PROPS = "Props/C12"
FAMILY = "tl1"        # the model is C01's (dec1/enc1); reused through build_refmodel("tl1")
F6_SIG = "C12:F6:length-sanity-check-only-in-generated-code"


def hx(b):
    return b.hex() if b else "-"


def reaches(ins, tid, pred):
    seen, todo = set(), [tid]
    while todo:
        t = todo.pop()
        if t in seen or t < 0:
            continue
        seen.add(t)
        x = ins[t]
        if pred(x):
            return True
        if x["kind"] == "struct":
            todo += [f["type"] for f in x["fields"]]
        elif x["kind"] == "union":
            todo += list(x.get("variants") or [])
        elif x["kind"] in ("array", "dict"):
            todo.append(x["elem"]["type"])
    return False


def tl2_sig(u, name, g, i):
    """stable signature of a TL2 disagreement, by the schema feature the type reaches"""
    tid = next((x["id"] for x in u.ins if x.get("tlName") == name and x.get("topLevel") and not x.get("natParams")), None)
    if tid is not None and reaches(u.ins, tid, lambda x: x["kind"] == "struct" and any(f.get("isBit") for f in x["fields"])):
        return f"C12:F18:tl2-true-typed-field-under-mask:{name}"        # `x:fm.b?true`: generated = mask bit only, interpreter = bit + object
    if g.startswith("ok") and i.startswith("ok") and tid is not None and reaches(u.ins, tid, lambda x: x["kind"] in ("array", "dict")):
        return f"C12:F19:tl2-written-bytes-differ:{name}"         # both accept, the TL2 bytes written differ
    if tid is not None and g.split(" ")[0] != i.split(" ")[0] and reaches(u.ins, tid, lambda x: x["kind"] == "array" and x.get("isTuple")):
        return f"C12:F22:tl2-tuple-count-mismatch:{name}"             # TL2 element count != declared tuple size: one accepts, the other rejects
    return f"C12:tl2:{u.name}:{name}"


def run_lines_e(exe, args, lines, **kw):
    """run_lines that maps no input lines to no output lines"""
    if not lines:
        return 0, [], ""
    return run_lines(exe, args, lines, **kw)


def run(ctx):
    quick = ctx.quick()
    with Lock():
        cres = run_genconsts()
        thm = check_theorems(PROPS)
        try:
            ref, ref_err = build_refmodel(FAMILY), None
        except RuntimeError as e:
            ref, ref_err = None, str(e)
    bins, berr = build_tools(ctx.scratch)
    otf, oerr = obj_lib.build_otf(ctx.scratch)
    if otf is None:
        berr = (berr or "") + " interpreter overlay harness: " + oerr[-1500:]
    units = []
    if not berr:
        import randschema
        specs = repo_corpus(quick) + randschema.make_specs(ctx, 6 if quick else 50)
        units = prepare_units(ctx, specs, bins, driver_files=obj_lib.DRIVER_FILES)
    nvals = 8 if quick else 80
    nmut = 6 if quick else 60
    stats = {"schemas": 0, "types": 0, "types_unsupported_by_interpreter": 0, "tl1_valid_inputs": 0, "tl1_mutated_inputs": 0,
             "tl1_mutated_skipped_sanity_dependent": 0, "tl1_three_way_equal": 0, "tl2_valid_inputs": 0, "tl2_mutated_inputs": 0, "tl2_two_way_equal": 0,
             "f6_sanity_only_in_generated": 0, "kernel_rejected": 0, "go_fillrandom_values": 0, "budget_skips": 0,
             "verdicts_tl1": {}, "verdicts_tl2": {}}
    mism, bad, samples, unit_errors, unsupported = [], [], [], [], []
    distinct = set()     # distinct (schema, format, type, input) accepted by both implementations with identical re-written bytes
    lock = threading.Lock()
    rngs = {u.name: random.Random(ctx.rng.getrandbits(64)) for u in units}

    def work(u):
        rng = rngs[u.name]
        if u.kernel_rejected:
            with lock:
                stats["kernel_rejected"] += 1
            return
        if u.error or not u.gen:
            with lock:
                unit_errors.append((u.name, u.error))
            return
        if ref is None or otf is None:
            return
        rc, items, err = run_lines(u.gen.exe, [], ["items"])
        info = {x.split(",")[0]: x.split(",") for x in items[0][3:].split(";")} if items and items[0].startswith("ok ") else {}
        tops = [t for t in toplevel_objects(u.ins) if t[1] in info]
        load = "load " + (u.whitelist if u.whitelist else "-") + " " + " ".join(str(f) for f in u.files)
        oscr = ctx.scratch / f"otf_{u.name}"
        sup, first = obj_lib.run_otf(otf, oscr, load, ["sup"])
        if sup is None:
            with lock:
                unit_errors.append((u.name, first))
            return
        supported = {}
        for p in sup[0][3:].split(" ; ") if sup[0].startswith("ok ") else []:
            n, _, v = p.partition("=")
            supported[n] = v
        uerr, ubad, umism, uunsup = [], [], [], []
        udist = set()
        s_ = {k: 0 for k in stats if not k.startswith("verdicts")}
        s_["schemas"] = 1
        vt1, vt2 = {}, {}
        for tid, name, x in tops:
            if supported.get(name, "0:not listed") != "1":
                uunsup.append({"unit": u.name, "type": name, "why": supported.get(name, "not a top-level instance of the interpreter's kernel")})
        tops = [t for t in tops if supported.get(t[1]) == "1"]
        s_["types"] = len(tops)
        s_["types_unsupported_by_interpreter"] = len(uunsup)
        san = "1" if u.san else "0"
        vg = ValueGen(u.ins, rng)
        tags = [x["tag"] for x in u.ins if x.get("tag")]
        # ---- valid TL1 encodings: model writer on type-directed values + Go FillRandom
        enc_lines = []
        for tid, name, x in tops:
            for _ in range(nvals):
                try:
                    v = vg.top(tid)
                except Budget:
                    s_["budget_skips"] += 1
                    break
                for boxed in (0, 1):
                    if x["kind"] == "union" and not boxed:
                        continue
                    enc_lines.append(f"enc 0 {tid} {name} {boxed} | {vtext(v)}")
        rc, enc_out, err = run_lines_e(ref, [str(u.ir_path)], enc_lines)
        if rc != 0 or len(enc_out) != len(enc_lines):
            with lock:
                unit_errors.append((u.name, f"model driver failed (enc): rc={rc} {err[-300:]}"))
            return
        valid = []   # (tid, name, boxed, hex, kind)
        for l, o in zip(enc_lines, enc_out):
            if o.startswith("ok ") and len(o) < 40000:
                f = l.split(" ")
                valid.append((f[2], f[3], f[4], o[3:], "valid-model-value"))
        rl = [f"ofill {name} {rng.getrandbits(48)}" for tid, name, x in tops for _ in range(2)]
        rout = run_lines_resilient(u.gen.exe, [], rl, timeout=600, max_restarts=40)
        tid_of = {name: tid for tid, name, x in tops}
        for l, o in zip(rl, rout):
            if o.startswith("ok ") and len(o) < 40000:
                name = l.split(" ")[1]
                valid.append((str(tid_of[name]), name, "1", o[3:], "valid-go-random-value"))
                s_["go_fillrandom_values"] += 1
        # ---- mutated TL1 inputs.  The interpreter allocates `count` values before reading a single element (resize) and the
        #      sanity-free readers loop `count` times over zero-size elements, so a mutated 4-byte count costs gigabytes / minutes.
        #      Safe inputs: truncations of valid encodings (counts unchanged), and mutations on which the strict model (san = 1)
        #      does not answer eof (every count read then passed count*4 <= remaining length)
        cand, mutated = [], []
        for tid, name, boxed, h, k in valid:
            if rng.random() < nmut / max(1, nvals):
                b = b"" if h == "-" else bytes.fromhex(h)
                if rng.random() < 0.4:
                    mutated.append((tid, name, boxed, hx(b[:rng.randrange(len(b) + 1)]), "truncated"))
                else:
                    cand.append((tid, name, boxed, hx(mutate_bytes(rng, b, tags)), "mutated"))
        c1 = [f"rw1 1 {tid} {name} {boxed} {h}" for tid, name, boxed, h, k in cand]
        m1 = run_lines_e(ref, [str(u.ir_path)], c1)[1] if cand else []
        for c, a in zip(cand, m1):
            if a.startswith("eof"):
                s_["tl1_mutated_skipped_sanity_dependent"] += 1
            else:
                mutated.append(c)
        inputs = valid + mutated
        lines = [f"rw1 {san} {tid} {name} {boxed} {h}" for tid, name, boxed, h, k in inputs]
        lines0 = [f"rw1 0 {tid} {name} {boxed} {h}" for tid, name, boxed, h, k in inputs]
        rc1, mo, err1 = run_lines_e(ref, [str(u.ir_path)], lines)
        mo0 = run_lines_e(ref, [str(u.ir_path)], lines0)[1] if u.san else mo
        go = run_lines_resilient(u.gen.exe, [], lines, timeout=900, max_restarts=10)
        it, _ = obj_lib.run_otf(otf, oscr, load, lines)
        if rc1 != 0 or it is None or len(mo) != len(lines) or len(go) != len(lines) or len(it) != len(lines):
            with lock:
                unit_errors.append((u.name, f"driver failed: model rc={rc1} {err1[-200:]} lines model {len(mo)} go {len(go)} interp {len(it or [])} of {len(lines)}"))
            return
        f6 = []
        for inp, l, m, m_0, g, i in zip(inputs, lines, mo, mo0, go, it):
            name, kind = inp[1], inp[4]
            s_["tl1_valid_inputs" if kind.startswith("valid") else "tl1_mutated_inputs"] += 1
            vt1[g.split(" ")[0]] = vt1.get(g.split(" ")[0], 0) + 1
            if g == i:
                if m == g:
                    s_["tl1_three_way_equal"] += 1
                    if g.startswith("ok"):
                        udist.add((u.name, 1, name, inp[3]))
                else:
                    umism.append((u.name, l, m, g))
            elif u.san and g == m and i == m_0 and m != m_0:
                f6.append((l, g, i))      # the interpreter is the generated code without CheckLengthSanity (F6 inputs)
                s_["f6_sanity_only_in_generated"] += 1
            else:
                ubad.append((u.name, l, f"generated={trunc(g, 70)} interpreter={trunc(i, 70)} model={trunc(m, 70)}",
                             f"C12:tl1:{u.name}:{name}", f"TL1 ({kind}): generated code and interpreter differ"))
        # ---- TL2: generated vs interpreter (two-way, no model)
        if u.whitelist:
            cl = [f"oconv2 {name} {h}" for tid, name, boxed, h, k in valid if boxed == "1" and info.get(name, [""] * 5)[4] == "true"]
            cl = cl[:max(40, len(cl) // 2)]
            co = run_lines_resilient(u.gen.exe, [], cl, timeout=600)
            # the same value written as TL2 by both: generated TL1 -> object -> TL2 vs interpreter TL1 -> value -> TL2
            ci, _ = obj_lib.run_otf(otf, oscr, load, ["c12 " + l.split(" ", 1)[1] for l in cl])
            if ci is None or len(ci) != len(cl):
                uerr.append((u.name, f"TL2 conversion on the interpreter failed: {len(ci or [])} of {len(cl)}"))
            else:
                for l, g, i in zip(cl, co, ci):
                    name = l.split(" ")[1]
                    s_["tl2_value_written_by_both"] = s_.get("tl2_value_written_by_both", 0) + 1
                    if g == i:
                        s_["tl2_value_written_equal"] = s_.get("tl2_value_written_equal", 0) + 1
                    elif g.startswith("ok"):
                        ubad.append((u.name, l, f"generated={trunc(g, 80)} interpreter={trunc(i, 80)}",
                                     tl2_sig(u, name, g, i), "TL2 bytes written for the same value differ"))
            t2 = []
            for l, o in zip(cl, co):
                if o.startswith("ok "):
                    name = l.split(" ")[1]
                    t2.append((name, o[3:], "valid"))
                    if rng.random() < 0.5:
                        b = b"" if o[3:] == "-" else bytes.fromhex(o[3:])
                        t2.append((name, hx(mutate_bytes(rng, b, [])), "mutated"))
            gl = [f"orw2 {name} {h}" for name, h, k in t2]
            il = [f"rw2 {name} {h}" for name, h, k in t2]
            g2 = run_lines_resilient(u.gen.exe, [], gl, timeout=900, max_restarts=10)
            i2, _ = obj_lib.run_otf(otf, oscr, load, il)
            if i2 is None or len(g2) != len(gl) or len(i2) != len(il):
                uerr.append((u.name, f"TL2 drivers failed: go {len(g2)} interp {len(i2 or [])} of {len(gl)}"))
            else:
                for (name, h, k), l, g, i in zip(t2, gl, g2, i2):
                    s_["tl2_valid_inputs" if k == "valid" else "tl2_mutated_inputs"] += 1
                    vt2[g.split(" ")[0]] = vt2.get(g.split(" ")[0], 0) + 1
                    if g == i:
                        s_["tl2_two_way_equal"] += 1
                        if g.startswith("ok"):
                            udist.add((u.name, 2, name, h))
                    else:
                        ubad.append((u.name, l, f"generated={trunc(g, 80)} interpreter={trunc(i, 80)}",
                                     tl2_sig(u, name, g, i), f"TL2 ({k}): generated code and interpreter differ"))
        with lock:
            for k in s_:
                stats[k] = stats.get(k, 0) + s_[k]
            for k, v in vt1.items():
                stats["verdicts_tl1"][k] = stats["verdicts_tl1"].get(k, 0) + v
            for k, v in vt2.items():
                stats["verdicts_tl2"][k] = stats["verdicts_tl2"].get(k, 0) + v
            distinct.update(udist)
            unit_errors.extend(uerr)
            bad.extend(ubad)
            mism.extend(umism)
            unsupported.extend(uunsup)
            for l, g, i in f6[:2]:
                ctx.violation(F6_SIG, f"{u.name}: generated reader refuses what the interpreter (no CheckLengthSanity) accepts: {trunc(l, 110)} -> generated {g}, interpreter {trunc(i, 60)}",
                              {"unit": u.name, "op": l, "go": g, "interpreter": i})
            if len(samples) < 12 and lines:
                j = rng.randrange(len(lines))
                samples.append({"schema": u.name, "kind": inputs[j][4], "op": trunc(lines[j], 200), "generated": trunc(go[j], 100), "interpreter": trunc(it[j], 100), "model": trunc(mo[j], 100)})

    with ThreadPoolExecutor(max_workers=6) as ex:
        list(ex.map(work, units))

    pid = ctx.pid
    for name, l, g, sig, what in bad:      # known findings do not use up the report budget of fresh violations
        if len(ctx.violations) >= 30:
            break
        ctx.violation(sig, f"{name}: {what}: {trunc(l, 150)} -> {g}", {"unit": name, "op": l, "outputs": g})
    if not ctx.violations:
        if cres.get("Prim"):
            ctx.violation(f"{pid}:tconst", "translator T-const failed: " + cres["Prim"], {"theorem": "coq/theories/Props/C12.v", "error": cres["Prim"]}, no_input=True)
        elif not thm["ok"]:
            ctx.violation(f"{pid}:theorem", f"theorem no longer checks: {thm['failing_at']}", {"theorem_file": thm["props_file"], "failing_at": thm["failing_at"], "log": thm["log_tail"]}, no_input=True)
        if berr:
            ctx.violation(f"{pid}:tools", "cannot build tools / interpreter harness from /repo: " + trunc(berr, 600), {"error": berr}, no_input=True)
        if ref_err:
            ctx.violation(f"{pid}:model-build", "reference model does not build: " + trunc(ref_err, 600), {"error": ref_err}, no_input=True)
        for name, e in [x for x in unit_errors if not obj_lib.generator_side(x)][:10]:
            ctx.violation(f"{pid}:unit:{name}", f"schema unit {name}: {trunc(e, 600)}", {"unit": name, "error": e}, no_input=True)
        for name, l, m, g in mism[:30]:
            ctx.violation(f"{pid}:corr:{name}:{trunc(l, 60)}", f"corr:C12:otf {name}: generated code and interpreter agree with each other but not with the model on {trunc(l, 140)}: model={trunc(m, 90)} both={trunc(g, 90)}",
                          {"correspondence": "corr:C12:otf", "unit": name, "op": l, "model": m, "go": g}, no_input=True)
    ctx.coverage.update({
        "obligations": thm["obligations"], "discharged": thm["discharged"],
        "checker_cmd": f"make -f Makefile.coq theories/{PROPS}.vo (coqc 8.16.1, full .vo build, in /verif/coq)",
        "trusted_base": ["Coq 8.16.1 kernel", "translator overlay/cmd/verifdump (kernel dump -> schema IR) and lib/schema_ir.py",
                         "extraction ExtrOcamlBasic only; ocaml/conv.ml, ocaml/tl1/schema_io.ml, ocaml/drv_tl1.ml (family tl1, C01's model)",
                         "Go harness harness/go/gendrv (rw1 of ops_tl1.go, orw2/oconv2 of ops_obj.go); overlay harness overlay/internal/pure/onthefly/verif_otf_test.go; comparison in lib/checks/C12.py",
                         "axioms: " + (", ".join(thm["axioms"]) if thm["axioms"] else "none (every theorem closed under the global context)")],
        "theorems": thm["statements"], "assumptions_per_theorem": thm["assumptions"],
        "evaluations": stats["tl1_valid_inputs"] + stats["tl1_mutated_inputs"] + stats["tl2_valid_inputs"] + stats["tl2_mutated_inputs"],
        "distinct_nontrivial": len(distinct),
        "rule": "non-trivial = distinct (schema, format, type, input) ACCEPTED by both implementations with identical verdict, consumed length and re-written bytes; per schema (repository + random schemas), per top-level object the interpreter can create: valid TL1 encodings (model writer on type-directed values, Go FillRandom) and mutated ones, "
                "each read and re-written by the extracted model (rw1), the freshly generated Go code and the interpreter (three-way: verdict, consumed length, re-written bytes); "
                "TL2: the same values converted by the generated code plus mutations, generated code vs interpreter (two-way); "
                "mutated TL1 inputs on which the length-sanity check decides are not given to the interpreter (it allocates `count` values before reading)",
        "stats": stats, "correspondence": "corr:C12:otf", "correspondence_mismatches": len(mism), "oracle_failures": len(bad),
        "unsupported_by_interpreter": unsupported[:60],
        "random_schemas_not_built": [{"unit": n, "error": trunc(e, 300)} for n, e in unit_errors if obj_lib.generator_side((n, e))],
        "samples": samples or [{"note": "no ops ran"}],
        "schemas": [{"name": u.name, "options": u.options, "instances": len(u.ins or []), "error": trunc(u.error, 200) if u.error else None} for u in units],
    })
    ctx.assumptions += ["64-bit platform", "correspondence-level claim: agreement shown on the listed schemas x inputs, under C01's theorems for the common model",
                        "TL2 is compared two-way only (no Coq model of TL2 in this family)",
                        "the interpreter has no length-sanity check and allocates the announced element count before reading: inputs where that check decides are excluded for it"]
