"""C22 -- the TL2 formatter (TL2File.Print / TL2Combinator.Print with the default and the canonical options)
round-trips through ParseTL2File and is idempotent."""
from vlib import *
import fmt2_lib as fl

PROPS = "Props/C22"
FAMILY = "fmt2"

SIG_F8 = "C22:F8:single-variant-union-bar"
SIG_DEP = "C22:dep-field-name-printed-as-underscore"
OPTS = ("default", "canon")


def show(t):
    if isinstance(t, bytes):
        t = t.decode("utf-8", "replace")
    return trunc(repr(t), 220)


def gen_ops(ctx):
    rng = ctx.rng
    quick = ctx.quick()
    h = fl.Harness(ctx)
    ctx.c22 = st = {"err": None}
    if not h.ok():
        st["err"] = h.err
        return []
    g = fl.Gen(rng)
    items = [(t, "repo-file", p) for p, t in fl.corpus()]
    for _ in range(1200 if quick else 15000):
        items.append((g.text().encode("utf-8"), "random-declaration", None))
    for _ in range(120 if quick else 1500):
        items.append((g.text(rng.randrange(2, 9)).encode("utf-8"), "random-file", None))
    for _ in range(250 if quick else 3000):
        items.append((g.malformed().encode("utf-8", "surrogateescape"), "malformed", None))
    res = h.parse([t for t, _, _ in items])
    # second pass: what Go printed, whole files and single declarations, both option sets
    again_texts, idx = [], []
    for n, p in enumerate(res):
        if not p.ok:
            continue
        for o in OPTS:
            idx.append((n, -1, o))
            again_texts.append(getattr(p, o))
            for k, c in enumerate(p.combs):
                idx.append((n, k, o))
                again_texts.append(c[o])
    again = dict(zip(idx, h.parse(again_texts)))
    st["items"], st["res"], st["again"] = items, res, again

    ops, go, seen = [], [], set()

    def add(op, kind, data, out):
        if op not in seen:
            seen.add(op)
            ops.append((op, kind, data))
            go.append(out)

    for (text, kind, path), p in zip(items, res):
        if not p.ok:
            continue
        src = path or text.decode("utf-8", "replace")
        for c in p.combs:
            add("fmt " + c["dump"], kind + ":Combinator.Print", src, fl.hx(c["default"] + b"\n") + " " + fl.hx(c["canon"] + b"\n"))
        if len(p.combs) != 1:
            add("fmt" + "".join(" " + c["dump"] for c in p.combs), kind + ":File.Print", src, fl.hx(p.default) + " " + fl.hx(p.canon))
    # the parser model against ParseTL2File, on every text (sources incl. mutations, and Go's own printed output);
    # the hypotheses of C22_roundtrip on every AST the real parser returned
    nskip = 0

    def parse_line(p):
        return "ok" + "".join(" " + fl.erase(c["dump"]) for c in p.combs) if p.ok else "err"

    for (text, kind, path), p in zip(items, res):
        if not p.ok and p.err.startswith("unexpected type category"):
            nskip += 1   # layout between ':' and the template category: the token model has no layout (see Fmt2ParseModel)
            continue
        add("parse " + fl.hx(text), "parse:" + kind, path or text.decode("utf-8", "replace"), parse_line(p))
    for (n, k, o), q in again.items():
        if k == -1 and rng.random() < 0.5:
            add("parse " + fl.hx(getattr(res[n], o)), "parse:printed", show(getattr(res[n], o)), parse_line(q))
    for (text, kind, path), p in zip(items, res):
        if not p.ok:
            continue
        for c in p.combs:
            d = fl.sexp(c["dump"])
            lexical = "00" if fl.empty_alias(c["dump"]) else "11"
            structural = "11"
            add("wf " + c["dump"], "hypotheses:" + kind, path or text.decode("utf-8", "replace"), lexical + " " + structural)
    ctx.notes["parse_ops_excluded_category_layout"] = nskip
    # the reading side the theorems talk about: lexer on the sources and on Go's own output, parseTL2Type, TrimSpace
    direct = []
    for (text, kind, path), p in zip(items, res):
        if kind == "repo-file" or rng.random() < 0.3:
            direct.append(("lex " + fl.hx(text), "lex:" + kind, path or text.decode("utf-8", "replace")))
        if p.ok and (kind == "repo-file" or rng.random() < 0.3):
            direct.append(("lex " + fl.hx(p.default), "lex:printed", show(p.default)))
    for _ in range(1000 if quick else 15000):
        t = g.type_text()
        direct.append(("pty " + fl.hx(t), "parseTL2Type", t))
    for _ in range(400 if quick else 6000):
        t = g.trim_text()
        direct.append(("trim " + fl.hx(t), "TrimSpace", repr(t)))
    direct = [d for d in direct if d[0] not in seen and not seen.add(d[0])]
    dres = h.raw([d[0] for d in direct])
    ops += direct
    go += dres
    st["go"] = go
    ctx.notes["texts_parsed"] = len(items)
    ctx.notes["texts_accepted"] = sum(1 for p in res if p.ok)
    ctx.notes["roundtrip"] = ("every accepted text: ParseTL2File -> Print(default) and Print(canonical) -> ParseTL2File; AST dumps "
                              "(comments erased) compared declaration by declaration, for whole files and for every single "
                              "declaration; Print of the re-parse compared with the first print (idempotence), same option set")
    return ops


def go_runner(ctx, lines):
    if ctx.c22["err"]:
        return None, ctx.c22["err"]
    return ctx.c22["go"], ""


def check_one(orig_dumps, first_text, q, o, single=False):
    """orig_dumps: dumps of the declarations that were printed into first_text; q: its re-parse.
    Returns None or (kind, message)."""
    if not q.ok:
        return ("reparse", f"printed text ({o}) does not parse: {q.err}; printed {show(first_text)}")
    if len(q.combs) != len(orig_dumps):
        return ("reparse-count", f"{len(orig_dumps)} declarations printed ({o}), {len(q.combs)} parsed back; printed {show(first_text)}")
    for a, b in zip(orig_dumps, q.combs):
        if fl.erase(a) != fl.erase(b["dump"]):
            return ("roundtrip", f"declaration {fl.comb_name(fl.sexp(a))}: AST differs after print({o})+parse: {trunc(fl.erase(a), 150)} "
                                 f"vs {trunc(fl.erase(b['dump']), 150)}; printed {show(first_text)}")
    second = q.default if o == "default" else q.canon
    if single:
        second = q.combs[0][o]
    if second != first_text:
        return ("idempotence", f"print(parse(print(x))) != print(x) ({o}): {show(second)} vs {show(first_text)}")
    return None


def has_bar(printed):
    """does the printed declaration contain a '|' outside comment lines"""
    return any(b"|" in l for l in printed.split(b"\n") if not l.strip().startswith(b"//"))


def oracle(ctx, ops, go_out):
    st = ctx.c22
    bad = []
    if st["err"]:
        return bad
    n = nf8 = ndep = nrej = 0
    reported = set()
    for num, ((text, kind, path), p) in enumerate(zip(st["items"], st["res"])):
        src = path or text
        if not p.ok:
            nrej += 1
            if kind in ("random-declaration", "random-file"):
                bad.append((show(text), "parse", p.err, f"C22:generated-text-rejected:{trunc(show(text), 60)}"))
            continue
        known_here = False
        for k, c in enumerate(p.combs):
            d = fl.sexp(c["dump"])
            n += 1
            for o in OPTS:
                q = st["again"][(num, k, o)]
                r = check_one([c["dump"]], c[o], q, o, single=True)
                if r is None:
                    continue
                # attribute to the known defects only when the declaration has exactly that shape
                if fl.single_variant_union(d) and not has_bar(c[o]):
                    nf8 += 1
                    known_here = True
                    if SIG_F8 not in reported:
                        reported.add(SIG_F8)
                        bad.append((show(c[o]), "single-variant-union", r[1], SIG_F8))
                    continue
                if fl.dep_named_fields(d) and q.ok and len(q.combs) == 1 and \
                        fl.erase(fl.erase_dep_names(c["dump"])) == fl.erase(q.combs[0]["dump"]) and q.combs[0][o] == c[o]:
                    ndep += 1
                    known_here = True
                    if SIG_DEP not in reported:
                        reported.add(SIG_DEP)
                        bad.append((show(c[o]), "deprecated-field-name", r[1], SIG_DEP))
                    continue
                bad.append((show(src), r[0], r[1], f"C22:{r[0]}:{o}:{fl.comb_name(d)}"))
                known_here = True   # already reported; do not repeat at file level
        if known_here or len(p.combs) == 1:
            continue
        for o in OPTS:
            r = check_one([c["dump"] for c in p.combs], getattr(p, o), st["again"][(num, -1, o)], o)
            if r is not None:
                bad.append((show(src), "file-" + r[0], r[1], f"C22:file-{r[0]}:{o}:{trunc(show(src), 60)}"))
    ctx.notes["declarations_roundtripped_x2_option_sets"] = n
    ctx.notes["texts_rejected_by_parser"] = nrej
    ctx.notes["single_variant_union_instances_F8"] = nf8
    ctx.notes["deprecated_field_name_instances"] = ndep
    return bad


def run(ctx):
    standard_run(
        ctx, props=PROPS, family=FAMILY, consts=["Fmt2"], go_runner=go_runner, gen_ops=gen_ops, oracle=oracle,
        corr_name="corr:C22:fmt2",
        trusted=["translator: AST dump in overlay/internal/tlast/verif_fmt2_test.go (Go TL2 AST -> S-expression, the variant the Go flags "
                 "select; with (c ..) atoms erased it is the `erase` of the property: everything except positions and comments) and its "
                 "reader/writer in ocaml/drv_fmt2.ml",
                 "generator/oracle in lib/checks/C22.py and lib/fmt2_lib.py",
                 "parser model deviation: layout between ':' and a template category is rejected by Go (front() without skipWS) and "
                 "invisible to the token-level model; parse ops with that Go error are excluded (count in parse_ops_excluded_category_layout)"],
        assumptions=["the theorems speak about the models fmt2 / lex2 / parse2; agreement with the Go printers, lexer and ParseTL2File is "
                     "established on the operations listed under op_kinds (and the hypotheses wf_comb / wf2_comb of C22_roundtrip are "
                     "evaluated on every AST the real parser returned: ops of kind hypotheses)",
                     "idempotence with comments present (default options) is observed on the Go side (print, re-parse, print), not proved: "
                     "the parser model erases comments"],
        rule="every distinct declaration AST (repository .tl2 files, random declarations, random files and surviving token mutations from "
             "VERIF_SEED) is one op: model fmt2 with default and canonical options vs Go Print; every multi-declaration file one more op; "
             "parse ops on every source text, mutation and printed text (model parse2 vs ParseTL2File, erased dumps or error), hypotheses ops "
             "(wf_comb / wf2_comb of every parsed declaration), lexer ops (model lex2 vs Go significant tokens), parseTL2Type ops (model "
             "parse_ty), TrimSpace ops; distinct = distinct op lines")
