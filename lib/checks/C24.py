"""C24 -- accepted schemas have unique non-zero constructor tags (kernel and legacy generator)."""
import re

from vlib import *
import lint_lib as L

PROPS = "Props/C24"
FAMILY = "lint"
OVERLAY_TL2GEN = VERIF / "overlay" / "cmd" / "tl2gen" / "verif_tags_test.go"


def tl2_part(rng, n):
    """a few TL2 declarations in their own namespace; returns list of [kind, name, magic or None]"""
    ds = []
    for i in range(n):
        if rng.random() < 0.5:
            ds.append(["type", f"t2.obj{i}", rng.randrange(1, 1 << 32) if rng.random() < 0.7 else None])
        else:
            ds.append(["fun", f"t2.fn{i}", rng.randrange(1, 1 << 32)])   # the TL2 parser demands a magic for functions
    return ds


def tl2_text(ds):
    out = []
    for kind, name, magic in ds:
        m = "" if magic is None else "#%08x" % magic
        if kind == "type":
            out.append(f"{name}{m} = a:int32 b:string;")
        else:
            out.append(f"@read {name}{m} x:int32 => int32;")
    return "\n".join(out) + "\n"


def parse_taglist(s):
    if s == "-":
        return []
    res = []
    for e in s.split(","):
        k, name, tag = e.split(":")
        res.append((k, name[1:], int(tag)))
    return res


def normalise(f, legacy):
    """harness result -> the line the model prints"""
    v, msg = f[0], f[1]
    if v == "ok":
        return "ok"
    if v == "zero":
        m = re.search(r"(\S+)#00000000", msg)
        return "zero " + (m.group(1) if m else "?")
    if v == "dup":
        m = re.search(r"constructor tag #([0-9a-f]{8}) (?:used by \"[^\"]*\" )?is used again by \"([^\"]*)\"", msg)
        return f"dup {m.group(2)} {int(m.group(1), 16)}" if m else "dup ?"
    return v


def gen_ops(ctx):
    rng = ctx.rng
    quick = ctx.quick()
    ctx._c24 = {"go": [], "err": None}
    b1, e1 = L.lint_harness(ctx)
    b2, e2 = build_overlay_test("cmd/tl2gen", {"verif_tags_test.go": OVERLAY_TL2GEN}, ctx.scratch)
    if not b1 or not b2:
        ctx._c24["err"] = (e1 or "") + (e2 or "")
        return []
    root = Path(ctx.scratch) / "c24"
    root.mkdir()
    nbase = 45 if quick else 300

    def write(i, tag, schema, tl2):
        d = root / f"s{i}_{tag}"
        d.mkdir()
        (d / "a.tl").write_text(schema.tl())
        if tl2:
            (d / "b.tl2").write_text(tl2_text(tl2))
        return d

    # phase 1: base schemas, some explicit tags; ask Go for every tag (implicit CRC32s included)
    bases = []
    for i in range(nbase):
        s = L.Gen(rng).schema(ntypes=rng.randrange(2, 6), nfuns=rng.randrange(1, 4))
        for c in s.combs:
            if rng.random() < 0.4:
                c.tag = rng.randrange(1, 1 << 32)
        tl2 = tl2_part(rng, rng.randrange(0, 4)) if rng.random() < 0.6 else []
        bases.append((s, tl2, write(i, "base", s, tl2)))
    rc, res, lg = run_overlay_test(b2, "TestVerifTags", [f"tags\t{d}" for _, _, d in bases], ctx.scratch)
    if rc != 0 or len(res) != len(bases):
        ctx._c24["err"] = f"tl2gen harness failed on the base schemas: rc={rc} {lg[-500:]}"
        return []
    # phase 2: variants with injected collisions
    variants = []   # (dir, kind, has_tl2)
    for i, ((s, tl2, d), r) in enumerate(zip(bases, res)):
        f = r.split("\t")
        tags = {name: tag for _, name, tag in parse_taglist(f[2])}
        variants.append((d, "base", bool(tl2)))
        for j in range(3):
            s2, t2 = s.copy(), [list(x) for x in tl2]
            combs = s2.combs
            opts = ["exp=exp", "exp=implicit", "zero", "exp=builtin"]
            if t2:
                opts += ["tl2=tl1", "tl2=tl1", "tl2=tl2", "tl2-zero"]
            k = rng.choice(opts)
            a = rng.choice(combs)
            others = [c for c in combs if c is not a]
            if k == "exp=exp" and others:
                o = rng.choice(others)
                o.tag = a.tag = rng.randrange(1, 1 << 32)
                k += ":fun" if a.isfun != o.isfun else ""
            elif k == "exp=implicit" and others:
                o = rng.choice(others)
                o.tag = None
                a.tag = tags.get(o.name)
                if s.by_name(o.name).tag is not None:   # o's implicit CRC was not in the dump: ask for it below
                    k = "exp=exp"
                    o.tag = a.tag
            elif k == "zero":
                a.tag = 0
            elif k == "exp=builtin":
                a.tag = rng.choice([0xa8509bda, 0x22076cba, 0xb5286e24, 0x1cb5c415, 0x9770768a, 0x3fedd339])
            elif k == "tl2=tl1":
                x = rng.choice(t2)
                o = rng.choice(combs)
                x[2] = tags.get(o.name) if o.tag is None else o.tag
            elif k == "tl2=tl2" and len(t2) > 1:
                x, y = rng.sample(t2, 2)
                x[2] = y[2] = rng.randrange(1, 1 << 32)
            elif k == "tl2-zero":
                rng.choice(t2)[2] = 0
            else:
                continue
            variants.append((write(i, f"v{j}", s2, t2), k, bool(t2)))
    rc, res2, lg = run_overlay_test(b2, "TestVerifTags", [f"tags\t{d}" for d, _, _ in variants], ctx.scratch)
    if rc != 0 or len(res2) != len(variants):
        ctx._c24["err"] = f"tl2gen harness failed: rc={rc} {lg[-500:]}"
        return []
    res1, err = L.run_harness(ctx, [f"tags\t{d}/a.tl" for d, _, _ in variants])
    if res1 is None:
        ctx._c24["err"] = err
        return []
    ops, go = [], []
    other = 0
    ctx._c24["tl2zero"] = []
    for (d, k, has2), r2, f1 in zip(variants, res2, res1):
        f2 = r2.split("\t")
        if k == "tl2-zero":   # an explicit TL2 magic #00000000 never reaches the kernel: the TL2 parser refuses it
            ctx._c24["tl2zero"].append((str(d), f2[0], f2[1]))
        for f, op, legacy in ((f2, "tags", False), (f1, "ltags", True)):
            if f[0] in ("other", "parse-error"):
                other += 1
                continue
            ops.append((f"{op} {f[2]}", ("legacy:" if legacy else "kernel:") + k, {"dir": str(d), "msg": f[1]}))
            go.append(normalise(f, legacy))
    ctx.notes["rejected_for_another_reason_dropped"] = other
    # the real binaries on a handful of the same directories
    cli = []
    b_tl2gen = Path(ctx.scratch) / "tl2gen.bin"
    rc, so, se = sh(["go", "build", "-o", str(b_tl2gen), "./cmd/tl2gen"], cwd=REPO, env=goenv(), timeout=900)
    b_tlgen, _ = L.tlgen_binary(ctx)
    if rc == 0 and b_tlgen:
        for (d, k, has2), r2, f1 in list(zip(variants, res2, res1))[:: max(1, len(variants) // 12)]:
            for binp, args, f in ((b_tl2gen, [str(d)], r2.split("\t")), (b_tlgen, [str(d / "a.tl")], f1)):
                rc, so, se = sh([str(binp)] + args, timeout=60)
                out = so + se
                v = "ok" if rc == 0 else ("zero" if "constructor tag 0 is prohibited" in out else
                                          ("dup" if "is used again by" in out and "constructor tag #" in out else "other"))
                if "panic:" in out:
                    v = "crash"
                cli.append((binp.name, str(d), v, "other" if f[0] == "parse-error" else f[0]))
    ctx._c24["cli"] = cli
    ctx._c24["go"] = go
    return ops


def go_runner(ctx, lines):
    if ctx._c24["err"]:
        return None, ctx._c24["err"]
    return ctx._c24["go"], ""


def oracle(ctx, ops, go_out):
    """accepted => tags pairwise distinct and non-zero; a violating list => rejected with a tag error"""
    bad = []
    for (op, kind, data), out in zip(ops, go_out):
        ents = parse_taglist(op.split(" ")[1])
        eff = [(k, n, t) for k, n, t in ents if not (k == "2" and t == 0)]
        tags = [t for _, _, t in eff]
        clean = len(set(tags)) == len(tags) and all(t != 0 for t in tags)
        v = out.split(" ")[0]
        if v == "crash":
            bad.append((op, kind, out, f"C24:crash:{kind}"))
        elif v == "ok" and not clean:
            bad.append((op, kind, out, f"C24:accepted-collision:{kind}"))
        elif v in ("zero", "dup") and clean:
            bad.append((op, kind, out, f"C24:clean-rejected:{kind}"))
    for name, d, v, hv in ctx._c24.get("cli", []):
        if v != hv:
            bad.append((f"cli {name} {d}", "cli", f"binary says {v}, in-process runMain says {hv}", f"C24:cli-differs:{name}"))
    for d, v, msg in ctx._c24.get("tl2zero", []):
        if not (v == "parse-error" and "magic should not be 0" in msg):
            bad.append((f"tl2-zero {d}", "kernel:tl2-zero", f"{v} {msg}", "C24:tl2-zero-magic-not-refused"))
    ctx.notes["tl2_zero_magic_refused_by_parser"] = len(ctx._c24.get("tl2zero", []))
    ctx.notes["cli_cross_checked"] = len(ctx._c24.get("cli", []))
    return bad


def run(ctx):
    standard_run(
        ctx, props=PROPS, family=FAMILY, consts=[], go_runner=go_runner, gen_ops=gen_ops, oracle=oracle,
        corr_name="corr:C24:tags",
        trusted=["overlay harnesses overlay/cmd/tl2gen/verif_tags_test.go and overlay/cmd/tlgen/verif_lint_test.go "
                 "(call the real runMain of each generator; print the tag list of the parsed files)",
                 "generator/oracle in lib/checks/C24.py, lib/lint_lib.py"],
        assumptions=["the tag list is printed from a second parse of the same files with the parser options the generator uses",
                     "legacy tlgen does not accept .tl2 input in this tree, so TL2 magics are exercised through tl2gen only",
                     "Go code is modelled, not verified: agreement is established on the schemas listed under op_kinds"],
        rule="random TL1(+TL2) schemas with injected tag collisions generated from VERIF_SEED; each is run through the real "
             "runMain of tl2gen (kernel check) and of tlgen (legacy check) and through the extracted Coq model of the "
             "check on the dumped tag list; distinct = distinct tag lists")
