"""C39 -- the RPC server enforces worker and request-memory limits (pkg/rpc/server.go, server_workerpool.go).

partial: the worker pool and the request-memory accounting are proved as Gallina state machines over ALL operation
sequences and tied to the Go code by sequential op lists (state compared after every op); goroutines, condition
variables and the real semaphore are exercised by concurrent bursts against a real server (observed bounds)."""
from vlib import *
import rpc_lib as R

PROPS = "Props/C39"
FAMILY = "rpc"


def gen_wp(rng):
    create = rng.choice([0, 1, 1, 2, 2, 3, 4, 8])
    ops = []
    for _ in range(rng.randrange(4, 50)):
        r = rng.random()
        if r < 0.42:
            ops.append("g")
        elif r < 0.80:
            ops.append(f"p:{rng.randrange(8)}")
        elif r < 0.86:
            ops.append("a")
        elif r < 0.96:
            ops.append(f"gc:{rng.choice([0, 30000, 90000, 4000000])}")
        else:
            ops.append("cl")
    return f"wp {create} " + " ".join(ops)


def gen_adm(rng):
    buf = rng.choice([64, 1024, 4096])
    limit = rng.choice([buf, 2 * buf + 1, 5 * buf, 20000, 50000])
    ops = []
    nid = 1
    for _ in range(rng.randrange(4, 28)):
        r = rng.random()
        if r < 0.5:
            ln = rng.choice([0, rng.randrange(0, buf + 1), rng.randrange(0, limit + 1), rng.randrange(0, limit + 1),
                             limit, limit + 1, 2 * limit])
            ops.append(f"a:{nid}:{ln}")
            nid += 1
        elif r < 0.85:
            ops.append(f"r:{rng.randrange(8)}")
        else:
            ops.append(f"w:{rng.randrange(8)}")
    return f"adm {limit} {buf} " + " ".join(ops)


def gen_ops(ctx):
    rng = ctx.rng
    quick = ctx.quick()
    ops = []
    for fixed in ["wp 2 g g g p:0 g p:0 p:0 g g g",           # limit reached -> wait; released workers are reused (LIFO)
                  "wp 1 g p:0 a g p:0 gc:0 gc:90000 g",       # GC closes the oldest free worker after 60 s
                  "wp 3 g g p:0 cl p:0 g",                    # Close: free workers closed, late Put closes the worker
                  "wp 0 g g",                                 # MaxWorkers 0 -> pool of one
                  "wp 2 g g p:0 p:0 a g p:0 gc:0"]:           # Put collects one expired worker
        ops.append((fixed, "wp-fixed", None))
    for _ in range(800 if quick else 20000):
        ops.append((gen_wp(rng), "wp", None))
    for fixed in ["adm 10000 4096 a:1:100 a:2:5000 a:3:3000 a:4:20000 r:0 w:0 r:0 r:0",
                  "adm 8192 4096 a:1:0 a:2:0 a:3:0 a:4:0 w:0 r:0 r:0 r:0",   # FIFO queue, cancel of the front waiter
                  "adm 5000 1024 a:1:4000 a:2:3000 a:3:100 r:0 r:0 r:0"]:   # a small request does not overtake a big waiter
        ops.append((fixed, "adm-fixed", None))
    for _ in range(80 if quick else 3000):
        ops.append((gen_adm(rng), "adm", None))
    return ops


def kv(d):
    f = d.split(" ")
    r = dict(x.split("=", 1) for x in f[1:] if "=" in x)
    r["res"] = f[0]
    return r


def oracle(ctx, ops, go_out):
    """the limits evaluated on Go's own dumps (independent of the model)"""
    bad = []
    for (op, kind, _), out in zip(ops, go_out):
        f = op.split(" ")
        if kind.startswith("wp"):
            limit = max(1, int(f[1]))
            for i, d in enumerate(out.split(" | ")):
                if d in ("not-allowed",):
                    continue
                if d.startswith("harness-panic") or d.startswith("bad-op"):
                    bad.append((op, kind, d, "C39:wp:harness"))
                    break
                k = kv(d)
                busy = 0 if k["busy"] == "-" else len(k["busy"].split(","))
                free = 0 if k["free"] == "-" else len(k["free"].split(","))
                created = int(k["created"])
                if created > limit:
                    bad.append((op, kind, f"op {i}: created={created} > limit={limit}", "C39:wp:created-above-limit"))
                    break
                if busy > created or busy + free != created:
                    bad.append((op, kind, f"op {i}: busy={busy} free={free} created={created}", "C39:wp:count"))
                    break
                if k["res"] == "wait" and not (created >= limit and free == 0 and k["closed"] == "0"):
                    bad.append((op, kind, f"op {i}: waits with created={created} free={free}", "C39:wp:wait"))
                    break
        else:
            limit, buf = int(f[1]), int(f[2])
            lens = {}
            for o in f[3:]:
                g = o.split(":")
                if g[0] == "a":
                    lens[g[1]] = max(int(g[2]), buf)
            for i, d in enumerate(out.split(" | ")):
                if d in ("not-allowed",):
                    continue
                if d.startswith(("harness-panic", "bad-op", "error", "ACCOUNTING", "WOKEN", "CANCELLED-WAITER")):
                    bad.append((op, kind, d, "C39:adm:harness"))
                    break
                k = kv(d)
                cur = int(k["cur"])
                held = [] if k["held"] == "-" else k["held"].split(",")
                if cur > limit or cur < 0:
                    bad.append((op, kind, f"op {i}: accounted {cur} outside [0, {limit}]", "C39:adm:above-limit"))
                    break
                if cur != sum(lens[h] for h in held):
                    bad.append((op, kind, f"op {i}: accounted {cur} != sum of admitted {held}", "C39:adm:sum"))
                    break
                if any(lens[h] > limit for h in held):
                    bad.append((op, kind, f"op {i}: oversized request admitted", "C39:adm:oversized-admitted"))
                    break
    return bad


def bursts(ctx):
    rng = ctx.rng
    quick = ctx.quick()
    scn = []
    i = 1
    reps = 1 if quick else 6
    for _ in range(reps):
        for workers in (1, 2, 4):
            for net in ("tcp", "unix"):
                buf = rng.choice([256, 1024, 4096])
                limit = rng.choice([3, 5, 9]) * buf + rng.randrange(0, buf)
                big = rng.choice([0, limit + 1 + rng.randrange(0, 5000)])
                # ordinary requests stay below the limit (packet = body + < 100 bytes of headers): a request above the
                # limit is never admitted and stalls its whole connection until it is closed (see `big`)
                scn.append(f"adm id={i} net={net} workers={workers} limit={limit} buf={buf} conns={rng.choice([4, 8, 12])} "
                           f"threads={rng.choice([2, 4])} calls={rng.choice([200, 300])} maxbody={limit - 150} delay={rng.choice([1, 2, 3])} "
                           f"big={big} seed={rng.randrange(1, 10 ** 6)} public=0")
                i += 1
    # through the public options: the limit is clamped to maxPacketLen, RequestBufSize 4 MiB makes 3 requests fill it
    scn.append(f"adm id={i} net=tcp workers=4 limit=1000 buf=4194304 conns=8 threads=2 calls=60 maxbody=3000 delay=2 big=0 "
               f"seed={rng.randrange(1, 10 ** 6)} public=1")
    return scn


def burst_oracle(line):
    f = line.split(" ")
    k = dict(x.split("=", 1) for x in f[1:] if "=" in x)
    bad = []
    if k.get("status") == "skipped-after-hang":
        return [], k
    if len(f) < 5 or "status" not in k:
        return [("harness", line[:300])], k
    n = {x: int(k[x]) for x in ("workers", "efflimit", "calls", "served", "failed", "maxconc", "maxcreated", "maxacc",
                                "maxhandlermem", "big", "bigseen", "endmem", "viol")}
    w = max(1, n["workers"])
    if k["status"] != "ok":
        bad.append(("burst-hang", f"burst did not finish: {k['status']} (served {n['served']}/{n['calls']})"))
    if n["maxconc"] > w:
        bad.append(("workers-above-limit", f"{n['maxconc']} handlers ran concurrently with MaxWorkers={w}"))
    if n["maxcreated"] > w:
        bad.append(("workers-created-above-limit", f"{n['maxcreated']} workers created with MaxWorkers={w}"))
    if n["maxacc"] > n["efflimit"]:
        bad.append(("memory-above-limit", f"server accounted {n['maxacc']} bytes of request memory with limit {n['efflimit']}"))
    if n["maxhandlermem"] > n["efflimit"]:
        bad.append(("handler-memory-above-limit", f"running handlers held requests worth {n['maxhandlermem']} bytes with limit {n['efflimit']}"))
    if n["served"] != n["calls"] or n["failed"] != 0:
        bad.append(("not-all-served", f"served {n['served']} of {n['calls']} requests ({n['failed']} failed: {k.get('first')})"))
    if n["big"] > 0 and (n["bigseen"] != 0 or k["bigresult"] != "timeout"):
        bad.append(("oversized-admitted", f"a request of {n['big']} bytes (limit {n['efflimit']}) reached a handler / ended {k['bigresult']}"))
    if k["status"] == "ok" and n["endmem"] != 0:
        bad.append(("memory-leak", f"{n['endmem']} bytes of request memory still accounted after Close"))
    if n["viol"] != 0:
        bad.append(("library-reports-invariant", k.get("first", "")[:300]))
    return bad, k


def run(ctx):
    binary, berr = R.build_bin(ctx, race=True)
    scn = bursts(ctx)
    burst_note = {}
    results = []
    if binary:
        t0 = time.time()
        rc, lines, log = run_overlay_test(binary, "TestVerifRpcAdm", scn, ctx.scratch, timeout=900)
        if R.race_reported(rc, log):
            i = log.find("DATA RACE")
            ctx.violation("C39:race", "race detector report during the bursts: " + trunc(log[max(0, i - 30):i + 1200], 1300),
                          {"scenarios": scn, "log": log[-8000:]})
        elif rc != 0:
            ctx.violation("C39:burst-crash", "the burst harness crashed: " + trunc(log[-1200:], 1200), {"scenarios": scn, "log": log[-8000:]})
        if len(lines) != len(scn) and rc == 0:
            ctx.violation("C39:burst-missing", f"{len(lines)} results for {len(scn)} bursts", {"scenarios": scn})
        for s, ln in zip(scn, lines):
            bad, k = burst_oracle(ln)
            results.append(k)
            for sig, msg in bad:
                ctx.violation(f"C39:burst:{sig}", f"{msg} [{s}]", {"scenario": s, "result": ln})
        burst_note = {"bursts": len(scn), "wall_s": round(time.time() - t0, 1),
                      "requests": sum(int(k.get("calls", 0)) for k in results),
                      "summary": [{x: k.get(x) for x in ("workers", "efflimit", "buf", "calls", "served", "maxconc", "maxcreated", "maxacc",
                                                          "maxhandlermem", "big", "bigresult")} for k in results]}
    seq = R.seq_runner(binary) if binary else (lambda ctx, lines: (None, berr))
    standard_run(
        ctx, props=PROPS, family=FAMILY, consts=["Rpc"], go_runner=seq, gen_ops=gen_ops, oracle=oracle,
        corr_name="corr:C39:adm",
        trusted=["Go overlay harness overlay/pkg/rpc/verif_rpc_test.go (in-package, build tag verif) and lib/checks/C39.py, lib/rpc_lib.py",
                 "sequential adm ops: a blocked Acquire of the real semaphore runs in a goroutine; 'blocked' is observed when the "
                 "semaphore asks its context for Done() (it does so only after queueing the waiter), woken waiters from the accounted sum"],
        assumptions=["partial: goroutines, sync.Cond and the real semaphore (internal/vkgo/pkg/semaphore, property C42) are not modelled; "
                     "the concurrent bursts observe handler concurrency <= MaxWorkers, Server.RequestsMemory() <= limit, all requests served",
                     "the worker limit bounds handlers that run on pool workers (opts.Handler with MaxWorkers >= 1); SyncHandler and "
                     "MaxWorkers = 0 run on the connection goroutine and are bounded by the number of connections only",
                     "request memory accounted per request = max(packet body length, RequestBufSize), from before the body is read until "
                     "the handler returned; a request larger than the limit is never admitted (its connection waits until closed); the public "
                     "option clamps the limit to >= maxPacketLen so that this cannot happen to a legal packet",
                     "Go code is modelled, not verified: agreement is established on the operations listed under op_kinds"],
        rule="wp*: random op lists (Get/Put of a handed-out worker/one hour passes/GC/Close) on the real workerPool with limits 0..8, adm*: random "
             "arrivals/releases/cancelled waits through Server.acquireRequestSema/releaseRequestBuf with small limits; state dumped after every "
             "op and compared with the extracted model; distinct = distinct op lines")
    ctx.coverage["concurrent_bursts"] = burst_note
    ctx.coverage["traces_validated_against_impl"] = len(results)
