"""C30 -- the backward-compatibility linter rejects the documented unsafe schema evolutions."""
import json
import os

from vlib import *
import lint_lib as L

PROPS = "Props/C30"
FAMILY = "lint"

# State of /repo the theorems of Props/C30.v are expected to describe:
#   False: the code as first examined (F2: bare flag ignored, F3: index panic) -- the model variant `lint`
#          reproduces both (lint_refuted_bare_flag, lint_crash_args) and the oracle reports them under stable sigs;
#   True:  after the two one-line repairs -- the model variant `lint_fixed` (for which the rejection theorems are
#          proved) is the one the correspondence must match.
# The variant actually used for the correspondence is read off the real code with three witness pairs (probe_variant);
# a disagreement between FIXED and the probes is itself reported.
FIXED = True
if os.environ.get("VERIF_LINT_FIXED"):   # for trying the check against a patched copy of the repository (VERIF_REPO)
    FIXED = os.environ["VERIF_LINT_FIXED"] == "1"


def gen_ops(ctx):
    rng = ctx.rng
    quick = ctx.quick()
    ctx._lint = {"go": [], "err": None, "cli": []}
    b, err = L.lint_harness(ctx)
    if not b:
        ctx._lint["err"] = err
        return []
    variant, probes = L.probe_variant(ctx)
    if variant is None:
        ctx._lint["err"] = probes
        return []
    ctx.notes["model_variant(bare,args,rep fixed?)"] = variant
    ctx._lint["variant"] = variant
    items = []
    for name, ((o, n), f) in probes.items():
        items.append((f"probe:{name}", "pair", o, n, None))
    proto, cor, inc = L.sample_pairs()
    for f in inc:
        items.append((f"sample:incorrect:{f.stem}", "pair", str(proto), str(f), None))
        items.append((f"sample:incorrect:{f.stem}", "direct", str(proto), str(f), None))
    n = 240 if quick else 3000
    pairs, kinds, details = [], [], []
    for i in range(n):
        if i % 6 == 5:   # a mask handed down a chain of types: reuse of a bit that only means something at the bottom
            s = L.Gen(rng).schema(ntypes=rng.randrange(0, 4), nfuns=rng.randrange(0, 2), chain=True, shared=rng.random() < 0.3)
            k = rng.choice(["bit-reuse-deep", "bit-reuse-deep", "bit-reuse-targ"])
        else:
            s = L.Gen(rng).schema()
            k = L.UNSAFE_KINDS[i % len(L.UNSAFE_KINDS)] if i < 4 * len(L.UNSAFE_KINDS) else rng.choice(L.UNSAFE_KINDS)
        new = L.unsafe_edit(rng, s, k)
        if new is None:
            continue
        pairs.append((s.tl(), new.tl()))
        kinds.append(k)
        details.append(sorted(getattr(new, "detail", [])))
    for (o, p), k, d in zip(L.write_pairs(ctx, pairs), kinds, details):
        items.append((k, "pair", o, p, {"detail": d}))
    # a type used bare -- by constructor name, %Type, %ctor -- gains a constructor and NOTHING else changes: the new
    # schema references a union constructor, which tlgen refuses on its own, so the linter is called directly
    upairs, ukinds = [], []
    for i in range(45 if quick else 600):
        k = L.UNION_USAGE_KINDS[i % len(L.UNION_USAGE_KINDS)]
        o, p, where = L.union_by_usage_pair(rng, k)
        upairs.append((o, p))
        ukinds.append((k, where))
    for (o, p), (k, where) in zip(L.write_pairs(ctx, upairs, sub="upairs"), ukinds):
        items.append((k, "direct", o, p, {"detail": [where]}))
    ops, go, dropped = L.build_lint_ops(ctx, items, variant)
    if ops is None:
        ctx._lint["err"] = go
        return []
    ctx.notes["dropped_not_individually_valid"] = dropped
    samp = [o for o in ops if o[1].startswith("sample") and o[2]["mode"] == "pair"]
    rnd_ = [o for o in ops if not o[1].startswith("sample") and o[2]["mode"] == "pair"]   # the binary only has the pair route
    if quick:   # one process start per pair: a handful in the quick tier, all samples in the thorough one
        samp = samp[:: max(1, len(samp) // 3)][:3]
    sel = samp + rnd_[:: max(1, len(rnd_) // (6 if quick else 40))]
    for o in sel:
        ctx._lint["cli"].append((o, L.cli_verdict(ctx, o[2]["old"], o[2]["new"])))
    ctx._lint["go"] = go
    return ops


def go_runner(ctx, lines):
    if ctx._lint["err"]:
        return None, ctx._lint["err"]
    return ctx._lint["go"], ""


def sig_for(kind, data, out):
    detail = data.get("detail") or []
    if kind.startswith("probe:"):
        return L.PROBE_SIGS[kind.split(":")[1]]
    if out == "crash":
        return "C30:F3:args-index-panic" if kind == "rm-targ" else f"C30:crash:{kind}"
    if kind.startswith("union-") and out == "accept":
        return f"C30:accepted-unsafe:{kind}"
    if out == "accept":
        if kind == "ty-rep" or (kind in ("bare-to-union", "bit-reuse-deep", "bit-reuse-targ") and detail == ["rep"]):
            return "C30:repeat-contents"
        if kind in ("ty-bare", "bare-to-union"):
            return "C30:F2:bare-flag"
    return f"C30:not-rejected:{kind}:{out.replace(' ', ':')}"


def replay_text(data):
    """the failing pair itself (the scratch files are gone after the run)"""
    try:
        return f"{data['mode']} {data['old']} {data['new']} OLD={json.dumps(Path(data['old']).read_text())} NEW={json.dumps(Path(data['new']).read_text())}"
    except OSError:
        return f"{data['mode']} {data['old']} {data['new']}"


def oracle(ctx, ops, go_out):
    """every documented unsafe evolution must be rejected -- with an error, not a panic"""
    bad = []
    idx = {id(o): g for o, g in zip(ops, go_out)}
    for (op, kind, data), out in zip(ops, go_out):
        if not out.startswith("reject"):
            bad.append((replay_text(data), kind, out, sig_for(kind, data, out)))
    for o, v in ctx._lint["cli"]:
        hv = idx[id(o)]
        if v.replace(" -", "") != hv:
            bad.append((f"cli {o[2]['old']} {o[2]['new']}", "cli", f"binary says {v}, in-process runMain says {hv}", "C30:cli-differs"))
    v = ctx._lint.get("variant")
    if v is not None and FIXED != (v[:2] == "11"):
        bad.append(("probe", "variant", f"C30.FIXED={FIXED} but the witness pairs say bare/args/rep repaired = {v}",
                    "C30:variant-unexpected"))
    ctx.notes["cli_cross_checked"] = len(ctx._lint["cli"])
    return bad


def run(ctx):
    standard_run(
        ctx, props=PROPS, family=FAMILY, consts=[], go_runner=go_runner, gen_ops=gen_ops, oracle=oracle,
        corr_name="corr:C30:unsafe",
        trusted=["overlay harness overlay/cmd/tlgen/verif_lint_test.go (calls the real runMain of tlgen in linter mode; prints the two "
                 "combinator lists CheckBackwardCompatibility receives as S-expressions)",
                 "schema/edit generator lib/lint_lib.py and the oracle in lib/checks/C30.py"],
        assumptions=["both schemas of a pair are accepted by tlgen on their own (pairs where one is not are dropped and counted)",
                     "the S-expression dump is produced by a second parse + GenerateCode of the same files, mirroring runMain",
                     "the rejection theorems are proved for the repaired model variant lint_fixed; for the code as it is "
                     "(variant shown under model_variant) the refutations F2/F3/repeat are theorems and known findings",
                     "Go code is modelled, not verified: agreement is established on the pairs listed under op_kinds"],
        rule="samples of the repository first (prototype.tl vs incorrect-changes/*, through runMain and through a direct call), then "
             "random base schemas x one documented unsafe edit at a random position, generated from VERIF_SEED; every pair is run "
             "through the real tlgen linter and through the extracted Coq model of it; verdict and error class must agree, and the "
             "real verdict must be a rejection (no acceptance, no panic); distinct = distinct (old,new) dumps")
