"""C38 -- RPC calls receive exactly their own responses; close drains; no data race (pkg/rpc client/server).

partial: the pending-calls LOGIC (query-ID allocation, matching of responses to pending calls, unknown/duplicate
query IDs, cancel, disconnect, close) is a proved Gallina state machine tied to client_conn.go by a sequential
line-by-line correspondence; goroutine interleavings, sockets, timers and the absence of data races are only
OBSERVED (trace inclusion of real histories in the model through the extracted monitor, python oracle, -race)."""
from vlib import *
import rpc_lib as R

PROPS = "Props/C38"
FAMILY = "rpc"

TWO63 = 1 << 63
TWO64 = 1 << 64


def scenarios(ctx):
    rng = ctx.rng
    quick = ctx.quick()
    n = 12 if quick else 120
    scn = []
    # every combination of transport x encryption x close mode at least once
    combos = [(net, enc, close) for net in ("tcp", "unix") for enc in (0, 1) for close in ("none", "client", "server")]
    for i in range(n):
        net, enc, close = combos[i % len(combos)] if i < len(combos) or rng.random() < 0.5 else \
            (rng.choice(["tcp", "unix"]), rng.choice([0, 1]), rng.choice(["none", "client", "server"]))
        calls = rng.choice([100, 140, 180]) if quick else rng.choice([100, 200, 400])
        scn.append(f"mux id={i + 1} net={net} enc={enc} workers={rng.choice([1, 2, 4, 16])} calls={calls} "
                   f"threads={rng.choice([4, 12, 32])} close={close} seed={rng.randrange(1, 10 ** 6)} "
                   f"maxbody={rng.choice([3000, 70000, 300000])} race=10")
    # cancellation / deadline racing with the arrival of the response, few threads so that the recycled Responses
    # (PutResponse after every call) are taken again at once: a stale result in a recycled Response shows up as
    # another call's answer
    for j in range(4 if quick else 30):
        scn.append(f"mux id={n + j + 1} net={rng.choice(['tcp', 'unix'])} enc={rng.choice([0, 1])} workers={rng.choice([2, 4])} "
                   f"calls={300 if quick else 1500} threads={rng.choice([1, 2, 3])} close=none seed={rng.randrange(1, 10 ** 6)} "
                   f"maxbody=3000 race={rng.choice([50, 70])}")
    return scn


def gen_pc(rng, hostile):
    """one op list for the clientConn harness"""
    ops = []
    ncalls = 0
    for _ in range(rng.randrange(3, 45)):
        r = rng.random()
        if r < 0.30 or ncalls == 0:
            ops.append(f"s:{1 if rng.random() < 0.25 else 0}:{rng.choice('nnnfp')}")
            ncalls += 1
        elif r < 0.47:
            ops.append("m")
        elif r < 0.62:
            ops.append(f"f:{rng.randrange(ncalls)}")
        elif r < 0.66:
            ops.append(f"f:u{rng.randrange(50)}")
        elif r < 0.72:
            ops.append(f"c:{rng.randrange(ncalls)}")
        elif r < 0.78:
            ops.append(f"w:{rng.randrange(ncalls)}")   # doWait with a cancelled ctx + PutResponse (Response recycled)
        elif r < 0.85:
            ops.append(f"x:{rng.randrange(2)}")
        elif r < 0.94:
            ops.append("u")
        elif r < 0.97:
            ops.append("h")
        else:
            ops.append("k")
    if not hostile:
        # a server that follows the protocol answers only requests it has received: make every finish
        # of a real call come after a successful write of it (connected, moved)
        fixed, sent, up, shut, closed = [], set(), False, False, False
        live = set()
        n = 0
        for op in ops:
            f = op.split(":")
            if f[0] == "s":
                live.add(n)
                n += 1
            elif f[0] == "u":
                up = not closed
            elif f[0] == "m":
                sent |= live
            elif f[0] == "x":
                up, shut = False, False
                live -= sent
            elif f[0] == "k":
                closed, up = True, False
            elif f[0] == "f" and f[1][0] != "u" and int(f[1]) not in sent:
                continue
            elif f[0] in ("c", "w"):
                live.discard(int(f[1]))
            fixed.append(op)
        ops = fixed
    return "pc " + " ".join(ops)


def gen_ops(ctx):
    rng = ctx.rng
    quick = ctx.quick()
    ops = []
    # --- query ID allocation, incl. the wrap-around of the 64-bit counter and the skipped zero
    starts = [0, 1000, TWO63 - 3, TWO63 - 2, TWO63 - 1, TWO63, TWO64 - 3, TWO64 - 2, TWO64 - 1, 2 * TWO63 - 5]
    starts += [rng.randrange(TWO64) for _ in range(10 if quick else 200)]
    for s in starts:
        ops.append((f"alloc {s} {rng.randrange(3, 9)}", "alloc", s))
    for s in (TWO63 - 300, TWO64 - 300, rng.randrange(TWO64)):
        ops.append((f"alloc {s} 700", "alloc", s))   # long runs: any short period of the IDs shows up as a repeated ID
    # --- clientConn pending-calls logic
    for i in range(1000 if quick else 20000):
        hostile = i % 5 == 0
        ops.append((gen_pc(rng, hostile), "pc-hostile" if hostile else "pc", None))
    for fixed in ["pc s:0:n f:0",                       # response for a call that was not sent yet: Go panics (model: None)
                  "pc u s:0:n s:0:n m f:0 f:0 f:1 f:1",  # duplicate responses are dropped
                  "pc u s:0:n m c:0 f:0 x:1",            # response after cancel is dropped
                  "pc u s:0:n s:1:n s:0:p m s:0:n s:1:f s:0:p k x:1",  # close drains everything
                  "pc u s:0:n s:1:n m s:0:n s:1:n s:0:p x:1 u m",     # disconnect: sent / failIfNoConnection / expired go, rest requeued
                  "pc u s:0:n m h f:0 u s:0:n m h c:1",   # graceful shutdown closes when the last call is gone
                  "pc u s:0:n m f:0 w:0 s:0:n m f:1 w:1 s:0:n s:0:n m x:1 w:2 w:3 s:0:n s:0:n"] + \
                 [("pc u " + "s:0:n m f:%d w:%d " * 12 % tuple(k for i in range(12) for k in (i, i))).strip()]:  # cancel after delivery, recycle, reuse
    # (the select of doWait picks at random when the result is already there: repeated so that both cases run)
        ops.append((fixed, "pc-fixed", None))
    # --- observed histories of the concurrent runs -> extracted monitor
    for sid, ev in ctx.mux_logs.items():
        ops.append(("mon " + " ".join(R.history_tokens(ev)), "mon", (sid, ev)))
    return ops


def parse_dump(d):
    f = d.split(" ")
    kv = dict(x.split("=", 1) for x in f[1:] if "=" in x)
    kv["res"] = f[0]
    return kv


def pc_oracle(op, out):
    """properties of the pending-calls logic evaluated on Go's own dumps"""
    bad = []
    ops = op.split(" ")[1:]
    dumps = out.split(" | ")
    delivered, cancelled = set(), set()
    prev = None
    tainted = False   # a response arrived for a call that was not sent yet (the server broke the protocol)
    for i, d in enumerate(dumps):
        o = ops[i] if i < len(ops) else "?"
        f = o.split(":")
        if f[0] == "f" and prev is not None and (f[1] + "u") in prev.get("calls", "").split(","):
            tainted = True
        if d == "panic":
            if not tainted:
                bad.append(("client-panic", f"op {i} ({o}) panicked"))
            break
        if d.startswith("harness-panic") or d.startswith("bad-op"):
            bad.append(("harness", d))
            break
        if d == "not-allowed":
            continue
        if d == "STALE-RESULT-IN-PENDING-CALL":
            bad.append(("stale-result-in-recycled-response", f"after op {i - 1}: a pending call holds a result in its (recycled) Response before anything was delivered to it"))
            break
        kv = parse_dump(d)
        if kv.get("dirty", "0") != "0":
            bad.append(("recycled-response-dirty", f"op {i} ({o}): Do returned and left a result in the channel of the Response it recycles"))
        calls = [] if kv["calls"] == "-" else kv["calls"].split(",")
        if not tainted and int(kv["inf"]) != sum(1 for c in calls if c.endswith("s")):
            bad.append(("inflight-count", f"after op {i} ({o}): inFlight={kv['inf']} but calls={kv['calls']}"))
        for dl in ([] if kv["dlv"] == "-" else kv["dlv"].split(",")):
            who, what = dl.split("=") if "=" in dl else (dl, "?")
            if what in ("WRONGRESP", "?") or who in ("callback", "callbacks"):
                bad.append(("wrong-delivery", f"after op {i} ({o}): {dl}"))
            if who in delivered:
                bad.append(("delivered-twice", f"call {who} got a second result at op {i} ({o})"))
            if who in cancelled:
                bad.append(("delivered-after-cancel", f"call {who} got a result at op {i} ({o}) after its cancel returned"))
            if who + "s" in calls or who + "u" in calls:
                bad.append(("delivered-still-pending", f"call {who} got a result at op {i} ({o}) but is still pending"))
            delivered.add(who)
        f = o.split(":")
        if f[0] == "c" and kv["res"] == "found=1":
            cancelled.add(f[1])
        if f[0] == "x" and kv["cl"] == "1" and calls:
            bad.append(("close-does-not-drain", f"after close + disconnect calls remain: {kv['calls']}"))
        if f[0] == "x" and any(c.endswith("s") for c in calls):
            bad.append(("disconnect-keeps-sent", f"after disconnect sent calls remain: {kv['calls']}"))
        prev = kv
    return bad


def oracle(ctx, ops, go_out):
    bad = []
    for (op, kind, data), out in zip(ops, go_out):
        if kind == "alloc":
            f = out.split(" ")
            qs = [int(x) for x in f[1].split(",")] if f[0] == "ok" else []
            if f[0] != "ok" or any(q <= 0 or q >= TWO63 for q in qs) or len(set(qs)) != len(qs):
                bad.append((op, kind, out, f"C38:alloc:{data}"))
        elif kind.startswith("pc"):
            for sig, msg in pc_oracle(op, out)[:3]:
                bad.append((op, kind, msg, f"C38:pc:{sig}"))
        elif kind == "mon":
            sid, ev = data
            for sig, msg in R.mux_oracle(sid, ev)[:5]:
                bad.append((ctx.mux_scn[int(sid) - 1], "mux", msg, f"C38:mux:{sig}"))
    return bad


def mutate_history(rng, ev):
    """histories that break the property (for the self-test of monitor and oracle)"""
    ev = [list(f) for f in ev]
    oks = [i for i, f in enumerate(ev) if f[0] == "D" and f[2] == "ok"]
    kind = rng.choice(["swap", "dup", "drop", "srvbody", "ghost"])
    if kind == "swap" and len(oks) >= 2:
        i, j = rng.sample(oks, 2)
        ev[i][3], ev[j][3] = ev[j][3], ev[i][3]
    elif kind == "dup" and oks:
        ev.append(list(ev[rng.choice(oks)]))
    elif kind == "drop" and oks:
        del ev[rng.choice(oks)]
    elif kind == "srvbody":
        ss = [i for i, f in enumerate(ev) if f[0] == "S"]
        if len(ss) < 2:
            return None
        i, j = rng.sample(ss, 2)
        ev[i][2] = ev[j][2]
    elif kind == "ghost" and oks:
        i = rng.choice(oks)
        ev = [f for n, f in enumerate(ev) if not (f[0] == "S" and f[1] == ev[i][1])]
    else:
        return None
    return kind, ev


def run(ctx):
    ctx.mux_logs, ctx.mux_scn = {}, scenarios(ctx)
    binary, berr = R.build_bin(ctx, race=True)
    mux_note = {}
    if binary:
        t0 = time.time()
        rc, lines, log = run_overlay_test(binary, "TestVerifRpcMux", ctx.mux_scn, ctx.scratch, timeout=900)
        ctx.mux_logs = R.split_scenarios(lines)
        mux_note = {"scenarios": len(ctx.mux_scn), "events": len(lines), "wall_s": round(time.time() - t0, 1), "exit": rc}
        if R.race_reported(rc, log):
            i = log.find("DATA RACE")
            ctx.violation("C38:race", "the race detector reports a data race in pkg/rpc under the concurrent call mix (observed, not proved): "
                          + trunc(log[max(0, i - 30):i + 1200], 1300), {"scenarios": ctx.mux_scn, "log": log[-8000:]})
        elif rc != 0:
            ctx.violation("C38:mux-crash", "the concurrent harness crashed: " + trunc(log[-1200:], 1200),
                          {"scenarios": ctx.mux_scn, "log": log[-8000:]})
        if rc == 0:
            for i, s in enumerate(ctx.mux_scn):
                if str(i + 1) not in ctx.mux_logs:
                    ctx.violation("C38:mux-missing", f"no log for scenario {s}", {"scenario": s})

    seq = R.seq_runner(binary) if binary else None

    def go_runner(ctx, lines):
        if not binary:
            return None, berr
        idx = [i for i, l in enumerate(lines) if not l.startswith("mon ")]
        out, err = seq(ctx, [lines[i] for i in idx])
        if out is None:
            return None, err
        res = [None] * len(lines)
        for i, o in zip(idx, out):
            res[i] = o
        for i, l in enumerate(lines):
            if l.startswith("mon "):
                # the implementation produced this history; inclusion = the model's monitor accepts it
                res[i] = f"accept {len(l.split(' ')) - 1}"
        if any(r is None for r in res):
            return None, f"sequential harness returned {len(out)} lines for {len(idx)} ops: {err}"
        return res, ""

    def post(ctx, ops, model_out, go_out):
        # self-test: histories that violate the property must be rejected by the extracted monitor AND by the oracle
        rng = random.Random(ctx.seed + 1)
        muts = []
        for sid, ev in ctx.mux_logs.items():
            for _ in range(3):
                m = mutate_history(rng, ev)
                if m:
                    muts.append((sid, m[0], m[1]))
        if not muts:
            return
        ref = BUILD / "ocaml" / FAMILY / "_build" / "default" / f"drv_{FAMILY}.exe"
        rc, out, err = run_lines(ref, [], ["mon " + " ".join(R.history_tokens(ev)) for _, _, ev in muts])
        missed_mon = [(sid, k) for (sid, k, ev), o in zip(muts, out) if o.startswith("accept")]
        missed_or = [(sid, k) for sid, k, ev in muts if not R.mux_oracle(sid, ev)]
        ctx.notes["selftest"] = {"mutated_histories": len(muts), "rejected_by_monitor": len(muts) - len(missed_mon),
                                 "flagged_by_oracle": len(muts) - len(missed_or)}
        if missed_mon or missed_or or rc != 0:
            ctx.violation("C38:selftest", f"property-violating histories not detected: monitor {missed_mon[:5]} oracle {missed_or[:5]}",
                          {"monitor": missed_mon, "oracle": missed_or}, no_input=True)

    standard_run(
        ctx, props=PROPS, family=FAMILY, consts=["Rpc"], go_runner=go_runner, gen_ops=gen_ops, oracle=oracle, post=post,
        corr_name="corr:C38:mux",
        trusted=["Go overlay harness overlay/pkg/rpc/verif_rpc_test.go (in-package, build tag verif) and lib/checks/C38.py, lib/rpc_lib.py",
                 "Go race detector (go test -race) for the data-race part: observed, not proved",
                 "the handler of the harness answers with hash + id of the request body it received (what makes a swapped response visible)"],
        assumptions=["partial: goroutine scheduling, sockets, timers and data races are not modelled; they are exercised by the concurrent runs "
                     "(trace inclusion in the model through the extracted monitor, python oracle, race detector)",
                     "the server answers a request under the query ID it arrived with (server.go/rpc_format.go; observed by the handler log, not proved)",
                     "fewer than 2^62 calls per client (query IDs are then pairwise distinct, theorem C38_alloc_distinct)",
                     "Go code is modelled, not verified: agreement is established on the operations listed under op_kinds"],
        rule="alloc: ClientImpl.GetRequest from chosen counter values (wrap-around, skipped zero); pc*: random op lists over the real clientConn "
             "(setupCallLocked, moveRequestsToSendLocked, finishCall, cancelCallImpl, doWait+PutResponse, continueRunningImpl, close, setClientConn, shutdown), state "
             "dumped after every op and compared with the extracted model; mon: one observed history per concurrent scenario (real Server+Client, "
             "TCP/Unix, with/without encryption, -race) fed to the extracted monitor; distinct = distinct op lines")
    ctx.coverage["concurrent_runs"] = mux_note
    ctx.coverage["traces_validated_against_impl"] = len(ctx.mux_logs)
    kinds = {}
    for ev in ctx.mux_logs.values():
        for f in ev:
            if f[0] == "D":
                kinds[f[2]] = kinds.get(f[2], 0) + 1
    ctx.coverage["observed_call_outcomes"] = kinds
