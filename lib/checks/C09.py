"""C09 -- decoding into a reused object equals decoding into a fresh one (generated ReadTL1/ReadTL2/ReadJSON, Reset)."""
import random
import threading
from concurrent.futures import ThreadPoolExecutor

from vlib import *
import obj_lib
from obj_lib import *

PROPS = "Props/C09"
KIND = {"1b": "tl1_valid", "1r": "tl1_valid", "2": "tl2", "j": "json"}
BYTES_NS = ("ch_proxy.", "ab.", "memcache.")     # namespaces generated with --generateByteVersions in the goldmaster unit


def hx(b):
    return b.hex() if b else "-"


def tail_default(ins, tid, v, depth=0):
    """the value with every struct's fields from index 7 on (2nd and later TL2 presence blocks) replaced by defaults;
    only plain fields (no mask, no nat arguments) are touched.  Returns (value, changed)"""
    x = ins[tid]
    if depth > 6 or v is None:
        return v, False
    if x["kind"] == "struct" and v[0] == "S":
        fs, ch = list(v[1]), False
        for i, f in enumerate(x["fields"]):
            if i >= len(fs) or fs[i] is None or f.get("mask") is not None or (f.get("natArgs") or []):
                continue
            if i >= 7:
                d = obj_lib.default_value(ins, f["type"])
                if d is not None and d != fs[i]:
                    fs[i], ch = d, True
            else:
                fs[i], c = tail_default(ins, f["type"], fs[i], depth + 1)
                ch = ch or c
        return ("S", fs), ch
    if x["kind"] == "array" and v[0] == "A" and not (x["elem"].get("natArgs") or []):
        es, ch = [], False
        for e in v[1]:
            e2, c = tail_default(ins, x["elem"]["type"], e, depth + 1)
            es.append(e2)
            ch = ch or c
        return ("A", es), ch
    return v, False


def run_lines_e(exe, args, lines, **kw):
    """run_lines that maps no input lines to no output lines"""
    if not lines:
        return 0, [], ""
    return run_lines(exe, args, lines, **kw)


def run(ctx):
    quick = ctx.quick()
    st = family_setup(ctx, PROPS, n_random=5 if quick else 15, tl2_random=False, objx_random=2 if quick else 6)
    nhist = 6 if quick else 18
    stats = {"schemas": 0, "types": 0, "histories": 0, "steps": 0, "steps_tl1_valid": 0, "steps_tl1_mutated": 0, "steps_tl2": 0, "steps_json": 0,
             "steps_truncated_tl2_json": 0, "steps_json_field_absent": 0, "steps_reset": 0, "steps_after_failed_decode": 0, "kernel_rejected": 0, "model_compared_steps": 0,
             "go_fillrandom_values": 0, "budget_skips": 0}
    mism, bad, samples, unit_errors = [], [], [], []
    distinct = set()     # distinct histories in which a successful decode is followed by at least one more step
    lock = threading.Lock()
    rngs = {u.name: random.Random(ctx.rng.getrandbits(64)) for u in st.units}

    def work(u):
        rng = rngs[u.name]
        if u.kernel_rejected:
            with lock:
                stats["kernel_rejected"] += 1
            return
        if u.error or not u.gen:
            with lock:
                unit_errors.append((u.name, u.error))
            return
        if st.ref is None:
            return
        margs = [str(u.ir_path), str(u.x_path)]
        tops = [t for t in tops_of(u) if unsupported_reason(u.ins, t[0]) is None]
        rank = rank_certificate(u.ins)
        san = "1" if u.san else "0"
        vg = ValueGen(u.ins, rng)
        tags = [x["tag"] for x in u.ins if x.get("tag")]
        s_ = {k: 0 for k in stats}
        s_["schemas"] = 1
        # ---- pools of valid encodings: model writer on type-directed values + Go FillRandom
        enc_lines, enc_meta = [], []
        for tid, name, x in tops:
            for _ in range(6):
                try:
                    v = vg.top(tid)
                except Budget:
                    s_["budget_skips"] += 1
                    break
                for boxed in (1, 0):
                    if x["kind"] == "union" and not boxed:
                        continue
                    enc_lines.append(f"enc 0 {tid} {name} {boxed} | {vtext(v)}")
                    enc_meta.append((tid, boxed))
                tv, changed = tail_default(u.ins, tid, v)
                if changed:      # same value with defaults from the 8th field of every struct on (later TL2 presence blocks empty)
                    enc_lines.append(f"enc 0 {tid} {name} 1 | {vtext(tv)}")
                    enc_meta.append((tid, "tail"))
        rc, enc_out, err = run_lines_e(st.ref, margs, enc_lines)
        if rc != 0 or len(enc_out) != len(enc_lines):
            with lock:
                unit_errors.append((u.name, f"model driver failed (enc): rc={rc} {err[-300:]}"))
            return
        pool = {tid: {1: [], 0: [], "tail": []} for tid, _, _ in tops}
        for (tid, boxed), o in zip(enc_meta, enc_out):
            if o.startswith("ok "):
                pool[tid][boxed].append(o[3:])
                if boxed == "tail":
                    pool[tid][1].append(o[3:])
        rl = [f"ofill {name} {rng.getrandbits(40)}" for tid, name, x in tops for _ in range(3)]
        rout = run_lines_resilient(u.gen.exe, [], rl, timeout=300, max_restarts=40)
        tid_of = {name: tid for tid, name, x in tops}
        for l, o in zip(rl, rout):
            if o.startswith("ok ") and len(o) < 60000:
                pool[tid_of[l.split(" ")[1]]][1].append(o[3:])
                s_["go_fillrandom_values"] += 1
        has_tl2 = lambda name: getattr(u, "item_info", {}).get(name, ["", "", "", "", "False"])[4] == "true"
        # ---- histories
        gl, ml, kinds = [], [], []
        for tid, name, x in tops:
            if not pool[tid][1]:
                continue
            s_["types"] += 1
            rfuel = rank[tid] + 1 if rank[tid] > 0 else 8
            # wide structs: alternate "all fields set" with "only the first presence block set", in every pair of formats
            if pool[tid]["tail"]:
                fm = ["1b", "j"] + (["2"] if has_tl2(name) else [])
                for fa in fm:
                    for fb in fm:
                        full, tail = rng.choice(pool[tid][1]), rng.choice(pool[tid]["tail"])
                        steps = [f"{fa}:{full}", f"{fb}:{tail}", f"{fa}:{rng.choice(pool[tid][1])}", "R", f"{fb}:{rng.choice(pool[tid]['tail'])}"]
                        ks = [KIND[fa], KIND[fb], KIND[fa], "reset", KIND[fb]]
                        gl.append(f"ohist {name} " + " ".join(steps))
                        ml.append(f"hist {tid} {san} {rfuel} " + " ".join(steps))
                        kinds.append(ks)
                        s_["histories_wide_alternating"] = s_.get("histories_wide_alternating", 0) + 1
            # JSON documents with one top-level field ABSENT (the reader must then default it: ReadJSONGeneral(jctx, nil, ...) for
            # types with nat arguments), right after a step that filled every field
            fm = ["1b", "j"] + (["2"] if has_tl2(name) else [])
            if x["kind"] == "struct" and x["fields"]:
                nf = len(x["fields"])
                for k in rng.sample(range(nf), min(nf, 6 if quick else 12)):
                    fa = rng.choice(fm)
                    steps = [f"{fa}:{rng.choice(pool[tid][1])}", f"jo{k}:{rng.choice(pool[tid][1])}", f"jo{(k + 1) % nf}:{rng.choice(pool[tid][1])}"]
                    gl.append(f"ohist {name} " + " ".join(steps))
                    ml.append(f"hist {tid} {san} {rfuel} " + " ".join(steps))
                    kinds.append([KIND[fa], "json_field_absent", "json_field_absent"])
            for _ in range(nhist):
                steps, ks = [], []
                failed_before = False
                for _ in range(rng.randrange(2, 7)):
                    r = rng.random()
                    valid = rng.choice(pool[tid][1])
                    if r < 0.40:
                        steps.append("1b:" + valid); ks.append("tl1_valid")
                    elif r < 0.50 and pool[tid][0]:
                        steps.append("1r:" + rng.choice(pool[tid][0])); ks.append("tl1_valid")
                    elif r < 0.62:
                        b = b"" if valid == "-" else bytes.fromhex(valid)
                        # without --checkLengthSanity a mutated count makes the reader allocate gigabytes (C08's subject): truncate only
                        mb = mutate_bytes(rng, b, tags) if u.san else b[:rng.randrange(len(b) + 1)]
                        steps.append("1b:" + hx(mb)); ks.append("tl1_mutated")
                    elif r < 0.72 and has_tl2(name):
                        steps.append("2:" + valid); ks.append("tl2")
                    elif r < 0.84:
                        steps.append("j:" + valid); ks.append("json")
                    elif r < 0.90:
                        k = rng.choice(["jt", "2t"]) if has_tl2(name) else "jt"
                        steps.append(f"{k}{rng.randrange(0, 40)}:" + valid); ks.append("truncated_tl2_json")
                    else:
                        steps.append("R"); ks.append("reset")
                gl.append(f"ohist {name} " + " ".join(steps))
                ml.append(f"hist {tid} {san} {rfuel} " + " ".join(steps))
                kinds.append(ks)
        if any("--generateByteVersions" in o for o in u.options):
            nb = len(gl)
            for j in range(nb):
                if gl[j].split(" ")[1].startswith(BYTES_NS):
                    gl.append("ohistb" + gl[j][len("ohist"):])
                    ml.append(ml[j])
                    kinds.append(kinds[j])
                    s_["histories_bytes_version"] = s_.get("histories_bytes_version", 0) + 1
        go = run_lines_resilient(u.gen.exe, [], gl, timeout=900, max_restarts=20)
        rc, mo, err = run_lines_e(st.ref, margs, ml, timeout=900)
        if rc != 0 or len(mo) != len(ml) or len(go) != len(gl):
            with lock:
                unit_errors.append((u.name, f"driver failed: model rc={rc} lines {len(mo)}/{len(ml)} go lines {len(go)}/{len(gl)} {err[-300:]}"))
            return
        ubad, umism = [], []
        udist = set()
        for l, g, m, ks in zip(gl, go, mo, kinds):
            name = l.split(" ")[1]
            if not g.startswith("ok ") or not m.startswith("ok "):
                ubad.append((u.name, l, g, f"C09:{'stack-overflow' if 'goroutine stack exceeds' in g else 'crash'}:{u.name}:{name}", "history crashed the implementation")) if not g.startswith("ok ") else umism.append((u.name, l, m, g))
                continue
            ge = [e.split(",") for e in g[3:].split(" ; ")]
            me = [e.split(",") for e in m[3:].split(" ; ")]
            s_["histories"] += 1
            oks = [i for i, e in enumerate(ge) if e[0].startswith("ok")]
            if oks and oks[0] < len(ge) - 1:
                udist.add((u.name, l))
            prev_failed = False
            for i, (e, k) in enumerate(zip(ge, ks)):
                s_["steps"] += 1
                s_["steps_" + k] += 1
                if prev_failed:
                    s_["steps_after_failed_decode"] += 1
                prev_failed = e[0] in ("eof", "reject")
                if e[2].endswith(":fresh-json-panic"):
                    # the reused object writes JSON, the fresh one panics: generated WriteJSONOpt dereferences the nil pointer of a
                    # non-optional recursive field that nothing has allocated yet
                    ubad.append((u.name, l, g, f"C09:F16:json-write-nil-recursive-field:{name}",
                                 f"step {i} ({k}): the fresh object's JSON writer panics (nil recursive field), the reused object writes"))
                elif e[2] != "same":
                    ubad.append((u.name, l, g, f"C09:reuse:{u.name}:{name}:{e[2].split(':')[1]}",
                                 f"step {i} ({k}) into the reused object differs from a fresh object ({e[2]})"))
                if me[i] != ["-"] and e[0] != "na":
                    s_["model_compared_steps"] += 1
                    if me[i][:2] != e[:2]:
                        umism.append((u.name, l + f"  [step {i}]", ",".join(me[i]), ",".join(e)))
        with lock:
            for k in s_:
                stats[k] = stats.get(k, 0) + s_[k]
            distinct.update(udist)
            bad.extend(ubad)
            mism.extend(umism)
            if len(samples) < 12 and gl:
                j = rng.randrange(len(gl))
                samples.append({"schema": u.name, "op": trunc(gl[j], 260), "go": trunc(go[j], 260), "model": trunc(mo[j], 200)})

    with ThreadPoolExecutor(max_workers=8) as ex:
        list(ex.map(work, st.units))

    family_report(
        ctx, st, PROPS, ["Prim"], "corr:C09:reuse", mism, bad, unit_errors, stats, samples,
        rule="non-trivial = distinct histories in which a successful decode is followed by at least one more step; per schema (repository + random schemas), per top-level object: histories of 2..6 steps applied to ONE generated object and, step by step, to fresh objects: "
             "valid TL1 (boxed/bare; from the model writer on type-directed values and from Go FillRandom), mutated TL1, the same values converted by Go to TL2 / JSON, truncated TL2/JSON, JSON documents with one top-level field absent, Reset; "
             "oracle: verdict and all three re-encodings (TL1, JSON, TL2) of the reused object equal those of the fresh object after every step, Reset object writes like a new object; "
             "correspondence: verdict, consumed length and TL1 re-encoding of every TL1 / Reset step equal the extracted model (dinto / oreset / oenc) run over the same history",
        trusted=["translator overlay/internal/puregen/gengo/verif_objdump_test.go (real generator front half -> schema IR) and lib/schema_ir.py (IR file writer)",
                 "extraction ExtrOcamlBasic only; ocaml/conv.ml, ocaml/tl1/schema_io.ml, ocaml/obj/xschema_io.ml, ocaml/drv_obj.ml",
                 "Go harness harness/go/gendrv (ops_obj.go: ohist; Reset through reflection); comparison in lib/checks/C09.py"],
        assumptions=["64-bit platform", "the templates are modelled, not verified: agreement shown on the listed schemas x histories",
                     "bytes-version objects (CreateObjectBytes) are exercised for the namespaces the goldmaster unit generates them for",
                     "TL2 and JSON readers are covered by the Go-side oracle only (the Coq model is TL1-level): partial",
                     ],
        extra={"evaluations": stats["steps"], "distinct_nontrivial": len(distinct)})
