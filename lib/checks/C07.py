"""C07 -- function result transcoders are mutually consistent (generated ReadResultX WriteResultY)."""
import random
import threading
from concurrent.futures import ThreadPoolExecutor

from vlib import *
import obj_lib
from obj_lib import *

PROPS = "Props/C07"


def hx(b):
    return b.hex() if b else "-"


class TextValueGen(ValueGen):
    """strings are valid UTF-8 text: what JSON does to other byte strings (base64 objects, F9) is C05's subject, not C07's"""

    def string(self):
        r = self.rng
        l = r.choice(self.STR_LENS) if r.random() < 0.93 else r.choice(self.STR_RARE)
        alphabet = "abcXYZ019 _-\u00e9\u0416\u4e2d\"\\/"
        s = "".join(r.choice(alphabet) for _ in range(l)).encode("utf-8")
        return s


def reaches(ins, tid, pred):
    seen, todo = set(), [tid]
    while todo:
        t = todo.pop()
        if t in seen or t < 0:
            continue
        seen.add(t)
        x = ins[t]
        if pred(x):
            return True
        todo += obj_lib.children(ins, x)
    return False


def known_lossy(ins, rtid, rb_hex):
    """the known lossy encodings a result value runs into: set of F20 (JSON: quote/backslash in a string key of a dictionary),
    F19 (TL2 and JSON: -0.0 written as the default), F21 (JSON: NaN payload)"""
    b = b"" if rb_hex == "-" else bytes.fromhex(rb_hex)
    out = set()
    if (b'"' in b or b"\\" in b) and reaches(ins, rtid, lambda x: x["kind"] == "dict" and (key_prim_of(ins, x) or {}).get("name") == "string"):
        out.add("F20:json-dict-key-not-unescaped")
    if reaches(ins, rtid, lambda x: x["kind"] == "prim" and x["name"] in ("float32", "float64")):
        words = [int.from_bytes(b[i:i + 4], "little") for i in range(0, len(b) - 3, 4)]
        if 0x80000000 in words:
            out.add("F19:negative-zero-dropped")
        if any((w & 0x7ff00000) == 0x7ff00000 and w != 0x7ff00000 and w != 0xfff00000 for w in words) or \
           any((w & 0x7f800000) == 0x7f800000 and (w & 0x007fffff) for w in words):
            out.add("F21:json-nan-payload-lost")
    return out


def pick(lossy, order):
    for k in order:
        for c in lossy:
            if c.startswith(k):
                return c
    return None


def natarg_tok(a):
    return f"{a['kind']}:{a['value']}"


def run_lines_e(exe, args, lines, **kw):
    """run_lines that maps no input lines to no output lines"""
    if not lines:
        return 0, [], ""
    return run_lines(exe, args, lines, **kw)


def run(ctx):
    quick = ctx.quick()
    corpus = [c for c in repo_corpus(quick) if not quick or c[0] != "cases_nosan"]    # same functions as `cases`; random units cover the no-sanity option
    st = family_setup(ctx, PROPS, n_random=3 if quick else 9, tl2_random=False, objx_random=2 if quick else 6, corpus=corpus)
    nreq = 5 if quick else 15
    nres = 4 if quick else 12
    stats = {"schemas": 0, "functions": 0, "functions_result_shaped_by_request": 0, "functions_with_typed_path": 0, "requests": 0, "result_values": 0,
             "ops_valid": 0, "ops_valid_go": 0, "ops_mutated": 0, "ops_wrong_env": 0, "json_roundtrip_same": 0, "tl2_roundtrip_same": 0, "cross_same": 0, "typed_same": 0,
             "kernel_rejected": 0, "budget_skips": 0, "model_enc_none": 0, "verdicts": {}}
    mism, bad, samples, unit_errors, skipped = [], [], [], [], []
    distinct = set()     # distinct (schema, function, request, result) with a valid result of more than 4 bytes that every transcoder pair reproduced
    lock = threading.Lock()
    rngs = {u.name: random.Random(ctx.rng.getrandbits(64)) for u in st.units}

    def work(u):
        rng = rngs[u.name]
        if u.kernel_rejected:
            with lock:
                stats["kernel_rejected"] += 1
            return
        if u.error or not u.gen:
            with lock:
                unit_errors.append((u.name, u.error))
            return
        if st.ref is None:
            return
        margs = [str(u.ir_path), str(u.x_path)]
        info = getattr(u, "item_info", {})
        funs = [(x["id"], x["tlName"], x) for x in u.ins
                if x["kind"] == "struct" and x.get("isFunction") and x.get("topLevel") and not x.get("natParams") and x["tlName"] in u.items]
        san = "1" if u.san else "0"
        vg = TextValueGen(u.ins, rng)
        tags = [x["tag"] for x in u.ins if x.get("tag")]
        s_ = {k: 0 for k in stats if k != "verdicts"}
        s_["schemas"] = 1
        uskip = []
        verd = {}
        # ---- requests (nat fields small) and their result environments (computed by the model from the request bytes)
        enc_lines, enc_meta = [], []
        for ft, name, x in funs:
            r = x["result"]
            why = unsupported_reason(u.ins, ft) or unsupported_reason(u.ins, r["type"])
            if why:
                uskip.append({"unit": u.name, "function": name, "why": why})
                continue
            rfields = sorted({a["value"] for a in r.get("natArgs") or [] if a["kind"] == "field"})
            local = {f["mask"]["value"] for f in x["fields"] if f.get("mask") and f["mask"]["kind"] == "field"} | \
                    {a["value"] for f in x["fields"] for a in (f.get("natArgs") or []) if a["kind"] == "field"}
            free_fields = [i for i in rfields if i not in local]
            for _ in range(nreq):
                try:
                    q = vg.top(ft)
                    # the request fields that shape the result should all differ (a permuted nat argument is invisible otherwise)
                    for _try in range(6):
                        vals = [q[1][i][1] for i in rfields if q[1][i] is not None]
                        if len(set(vals)) == len(vals):
                            break
                        q = vg.top(ft)
                    # request fields used ONLY by the result may be masks of the result type: give them all bit patterns
                    if free_fields and rng.random() < 0.6:
                        fs = list(q[1])
                        for i in free_fields:
                            if fs[i] is not None:
                                fs[i] = ("n", rng.randrange(0, 128) if rng.random() < 0.7 else rng.choice([0, 1, 2, 3]))
                        q = ("S", fs)
                except Budget:
                    s_["budget_skips"] += 1
                    break
                enc_lines.append(f"enc 0 {ft} {name} 1 | {vtext(q)}")
                enc_meta.append((ft, name, x, q))
        rc, enc_out, err = run_lines_e(st.ref, margs, enc_lines)
        if rc != 0 or len(enc_out) != len(enc_lines):
            with lock:
                unit_errors.append((u.name, f"model driver failed (request enc): rc={rc} {err[-300:]}"))
            return
        reqs = [(m, o[3:]) for m, o in zip(enc_meta, enc_out) if o.startswith("ok ")]
        s_["model_enc_none"] += len(enc_out) - len(reqs)
        env_lines = []
        for (ft, name, x, q), rq in reqs:
            na = x["result"].get("natArgs") or []
            env_lines.append(f"renv {ft} {len(na)} " + " ".join(natarg_tok(a) for a in na) + f" | {rq}")
        rc, env_out, err = run_lines_e(st.ref, margs, env_lines)
        if rc != 0 or len(env_out) != len(env_lines):
            with lock:
                unit_errors.append((u.name, f"model driver failed (renv): rc={rc} {err[-300:]}"))
            return
        # ---- result values at the result type under the request's environment
        renc, rmeta = [], []
        seen_f = set()
        for ((ft, name, x, q), rq), eo in zip(reqs, env_out):
            if not eo.startswith("ok"):
                continue
            ps = [int(t) for t in eo.split()[1:]]
            r = x["result"]
            if name not in seen_f:
                seen_f.add(name)
                s_["functions"] += 1
                if any(a["kind"] == "field" for a in r.get("natArgs") or []):
                    s_["functions_result_shaped_by_request"] += 1
            s_["requests"] += 1
            for _ in range(nres):
                try:
                    vg.nodes = 0
                    v = vg.value(r["type"], ps, 0)
                except Budget:
                    s_["budget_skips"] += 1
                    break
                boxed = 0 if r["bare"] else 1
                renc.append(f"enc 0 {r['type']} res {boxed} " + " ".join(str(p) for p in ps) + f" | {vtext(v)}")
                rmeta.append((ft, name, x, rq, ps))
        rc, renc_out, err = run_lines_e(st.ref, margs, renc)
        if rc != 0 or len(renc_out) != len(renc):
            with lock:
                unit_errors.append((u.name, f"model driver failed (result enc): rc={rc} {err[-300:]}"))
            return
        ops = []     # (go line, model line, kind, function)
        by_fun = {}
        for (ft, name, x, rq, ps), o in zip(rmeta, renc_out):
            if not o.startswith("ok "):
                s_["model_enc_none"] += 1
                continue
            by_fun.setdefault(name, []).append((ft, x, rq, ps, o[3:], "valid"))
        # results the implementation writes itself (FillRandomResultTL1 under the same request): model-free source of valid results
        gen_lines, gen_meta = [], []
        seen_rq = set()
        for (ft, name, x, rq, ps) in rmeta:
            if (name, rq) in seen_rq:
                continue
            seen_rq.add((name, rq))
            gen_lines.append(f"oresgen {name} {rq} {rng.getrandbits(40)}")
            gen_meta.append((ft, name, x, rq, ps))
        gen_out = run_lines_resilient(u.gen.exe, [], gen_lines, timeout=600, max_restarts=20)
        for (ft, name, x, rq, ps), o in zip(gen_meta, gen_out):
            if o.startswith("ok ") and len(o) < 40000:
                by_fun.setdefault(name, []).append((ft, x, rq, ps, o[3:], "valid_go"))
        for name, lst in by_fun.items():
            ft, x = lst[0][0], lst[0][1]
            r = x["result"]
            rt = u.ins[r["type"]]
            typed = "-"
            if not r["bare"] and not (r.get("natArgs") or []) and rt.get("topLevel") and not rt.get("natParams") and rt.get("tlName") in u.items \
                    and rt["kind"] in ("struct", "union") and not rt.get("isFunction"):
                typed = rt["tlName"]
                s_["functions_with_typed_path"] += 1
            na = r.get("natArgs") or []
            head = f"res {san} {ft} {r['type']} {1 if r['bare'] else 0} {len(na)} " + " ".join(natarg_tok(a) for a in na)
            for ft, x, rq, ps, rb, vk in lst:
                s_["result_values"] += 1
                variants = [(rb, vk)]
                if rng.random() < 0.35:
                    b = b"" if rb == "-" else bytes.fromhex(rb)
                    mb = mutate_bytes(rng, b, tags) if u.san else b[:rng.randrange(len(b) + 1)]
                    variants.append((hx(mb), "mutated"))
                if rng.random() < 0.3 and len(lst) > 1:     # a result written for ANOTHER request of the same function
                    other = rng.choice(lst)
                    if other[3] != ps and u.san:
                        variants.append((other[4], "wrong_env"))
                for h, k in variants:
                    ops.append((f"ores {name} {rq} {h} {typed}", f"{head} | {rq} {h}", k, name))
        ures = {name: lst[0][1]["result"]["type"] for name, lst in by_fun.items()}
        gl = [o[0] for o in ops]
        ml = [o[1] for o in ops]
        go = run_lines_resilient(u.gen.exe, [], gl, timeout=900, max_restarts=10)
        rc, mo, err = run_lines_e(st.ref, margs, ml, timeout=900)
        if rc != 0 or len(mo) != len(ml) or len(go) != len(gl):
            with lock:
                unit_errors.append((u.name, f"driver failed: model rc={rc} lines {len(mo)}/{len(ml)} go {len(go)}/{len(gl)} {err[-300:]}"))
            return
        import os
        if os.environ.get("VERIF_DUMP_OPS"):
            Path(os.environ["VERIF_DUMP_OPS"] + f"_{u.name}.txt").write_text("\n".join(f"{a}\t{b}" for a, b in zip(gl, go)) + "\n")
        ubad, umism = [], []
        udist = set()
        for (l, ml_, k, name), g, m in zip(ops, go, mo):
            s_["ops_" + k] += 1
            gf = g.split(" ")
            verd[gf[0]] = verd.get(gf[0], 0) + 1
            if gf[0] in ("panic", "crash"):
                ubad.append((u.name, l, g, f"C07:crash:{u.name}:{name}", "transcoder crashed"))
                continue
            if gf[0] == "ok":
                flags = dict(x.split("=") for x in gf[3:])
                # correspondence: verdict and consumed length of the TL1 reader under the request's environment; on the valid
                # encoding also the bytes that come back through JSON
                mf = m.split(" ")
                if mf[0] != "ok" or mf[1] != gf[1]:
                    umism.append((u.name, l, m, g))
                elif flags["j"] == "same" and mf[2] != gf[2]:
                    umism.append((u.name, l, m, g))
                if k == "valid" or flags["j"] == "same":
                    pass
                rtid = ures[name]
                valid = k in ("valid", "valid_go")
                lossy = known_lossy(u.ins, rtid, l.split(" ")[3]) if valid else set()
                cj, c2, cx = pick(lossy, ["F20", "F19", "F21"]), pick(lossy, ["F19"]), pick(lossy, ["F20", "F19", "F21"])
                if flags["j"] == "same":
                    s_["json_roundtrip_same"] += 1
                elif valid:
                    ubad.append((u.name, l, g, f"C07:{cj}:{name}" if cj else f"C07:json:{u.name}:{name}", "TL1 -> JSON -> TL1 does not reproduce the result bytes"))
                if flags["t2"] == "same":
                    s_["tl2_roundtrip_same"] += 1
                elif flags["t2"] != "na" and valid:
                    ubad.append((u.name, l, g, f"C07:{c2}:{name}" if c2 else f"C07:tl2:{u.name}:{name}", "TL1 -> TL2 -> TL1 does not reproduce the result bytes"))
                if flags["x"] == "same":
                    s_["cross_same"] += 1
                elif flags["x"] != "na" and valid:
                    ubad.append((u.name, l, g, f"C07:{cx}:{name}" if cx else f"C07:cross:{u.name}:{name}", "TL2 -> JSON / JSON -> TL2 disagree with TL1 -> JSON / TL1 -> TL2"))
                if k in ("valid", "valid_go") and flags["j"] == "same" and flags["t2"] in ("same", "na") and len(l.split(" ")[3]) > 8:
                    udist.add((u.name, l))
                if flags["typed"] == "same":
                    s_["typed_same"] += 1
                elif flags["typed"] != "na":
                    ubad.append((u.name, l, g, f"C07:typed:{u.name}:{name}:{flags['typed'].split(':')[1]}", "transcoder disagrees with typed decode + typed encode"))
                if valid and (mf[0] != "ok" or len(mf) < 3 or mf[2] != l.split(" ")[3]):
                    umism.append((u.name, l, m, g + "  [model does not reproduce the valid result]"))
            else:
                if k == "valid_go":     # the function's own FillRandomResultTL1 output under this very request
                    ubad.append((u.name, l, g, f"C07:own-result-rejected:{u.name}:{name}", "ReadResultTL1 refuses what FillRandomResultTL1 / WriteResultTL1 wrote for the same request"))
                if m != gf[0]:
                    umism.append((u.name, l, m, g))
        with lock:
            for k in s_:
                stats[k] = stats.get(k, 0) + s_[k]
            for k, v in verd.items():
                stats["verdicts"][k] = stats["verdicts"].get(k, 0) + v
            distinct.update(udist)
            bad.extend(ubad)
            mism.extend(umism)
            skipped.extend(uskip)
            if len(samples) < 12 and gl:
                j = rng.randrange(len(gl))
                samples.append({"schema": u.name, "kind": ops[j][2], "op": trunc(gl[j], 220), "go": trunc(go[j], 160), "model": trunc(mo[j], 120)})

    with ThreadPoolExecutor(max_workers=8) as ex:
        list(ex.map(work, st.units))

    family_report(
        ctx, st, PROPS, ["Prim"], "corr:C07:tr", mism, bad, unit_errors, stats, samples,
        rule="non-trivial = distinct (schema, function, request, valid result of more than 4 bytes) reproduced by TL1->JSON->TL1 and TL1->TL2->TL1; per schema (repository + random schemas), per function of the generated factory: request values with small nat fields (they shape the result) x result values "
             "generated at the result type under the request's environment (written by the model), plus mutated result bytes and results written for another request; "
             "oracle on the implementation: TL1->JSON->TL1 and TL1->TL2->TL1 reproduce the consumed result bytes, TL2->JSON and JSON->TL2 agree with TL1->JSON and TL1->TL2, "
             "and, where the result type is a factory object without nat arguments, all agree with typed decode + typed encode; "
             "correspondence: verdict, consumed length and TL1 bytes equal the extracted model (tr11 under result_env of the decoded request)",
        trusted=["translator overlay/internal/puregen/gengo/verif_objdump_test.go (real generator front half -> schema IR incl. result type / bareness / nat arguments) and lib/schema_ir.py",
                 "extraction ExtrOcamlBasic only; ocaml/conv.ml, ocaml/tl1/schema_io.ml, ocaml/obj/xschema_io.ml, ocaml/drv_obj.ml",
                 "Go harness harness/go/gendrv (ops_obj.go: ores); comparison in lib/checks/C07.py"],
        assumptions=["64-bit platform", "the templates are modelled, not verified: agreement shown on the listed functions x requests x results",
                     "TL2 and JSON legs are covered by the Go-side oracle only (the Coq model is TL1-level): partial",
                     "strings in generated values are valid UTF-8 (other byte strings in JSON: C05 / F9)", "the typed path is exercised only where the result type is itself a factory object without nat arguments (the typed ReadResult/WriteResult methods are not in the generic interface)"],
        extra={"evaluations": stats["ops_valid"] + stats["ops_valid_go"] + stats["ops_mutated"] + stats["ops_wrong_env"], "distinct_nontrivial": len(distinct),
               "skipped_constructs": skipped[:40]})
