"""Shared machinery of the Reg family (C17 registry, C43 accessors, C10 bytes variants)."""
import random
import re
import shutil
import threading
from concurrent.futures import ThreadPoolExecutor
from pathlib import Path

from vlib import *
from gencommon import *
import randschema

FAMILY = "reg"
ANN_POOL = ["any", "internal", "kphp", "read", "readwrite", "write"]
ANN_CUSTOM = ["audit", "zz", "legacy"]


def hexname(s):
    b = s.encode()
    return b.hex() if b else "-"


def write_meta_file(ins, path):
    """per-instance metadata of the kernel dump in the line format read by ocaml/drv_reg.ml"""
    all_anns = (ins[0].get("allAnnotations") or []) if ins else []
    lines = ["anns " + " ".join(hexname(a) for a in all_anns)]
    for x in ins:
        b = lambda v: "1" if v else "0"
        lines.append(" ".join(["meta", str(x["id"]), hexname(x.get("tlName") or ""), b(x.get("topLevel")),
                               b(x.get("isFunction")), b(x.get("isMaybe")), b(x.get("originTL2")), b(x.get("hasTL2")),
                               str(x.get("tag", 0))] + [hexname(a) for a in x.get("annotations") or []]))
        if x["kind"] == "struct":
            for i, f in enumerate(x.get("fields") or []):
                tb = f.get("tl2bit")
                lines.append(f"af {x['id']} {i} {b(f.get('isBit'))} {'-' if tb is None else tb} {b((f.get('name') or '').startswith('_'))}")
    Path(path).write_text("\n".join(lines) + "\n")


class AnnGen(randschema.Gen):
    """random schemas whose functions (and a few types) carry random annotation sets, including
    annotations the generator does not know (they shift the bits of the known ones)"""

    def __init__(self, rng, ns="rs", ntypes=10, custom=True):
        super().__init__(rng, ns, ntypes)
        self.custom = custom

    def anns(self):
        r = self.r
        pool = ANN_POOL + (ANN_CUSTOM if self.custom and r.random() < 0.5 else [])
        k = r.choice([0, 1, 1, 1, 2, 2, 3, len(pool)])
        return "".join(f"@{a} " for a in r.sample(pool, min(k, len(pool))))

    def function(self, i):
        r = self.r
        scope = {"fields": [], "params": [], "self": None}
        fs = self.fields(scope, r.choice([0, 1, 2, 3]))
        res = self.result_type(scope)
        self.lines.append(f"{self.anns()}{self.ns}.fn{i} {' '.join(fs)} => {res};")

    def text(self):
        r = self.r
        for i in range(self.ntypes):
            k = r.random()
            if k < 0.6:
                self.struct(i)
            elif k < 0.7:
                self.typedef(i)
            elif k < 0.9:
                self.union(i)
            else:
                self.union(i, enum=True)
        if r.random() < 0.3:     # an annotated plain type
            self.lines.append(f"{self.anns()}{self.ns}.annotated x:int = {self.ns}.Annotated;")
        for i in range(r.choice([2, 3, 5, 8])):
            self.function(i)
        return randschema.HEADER + "\n".join(self.lines) + "\n"


def rand_specs(ctx, n, prefix="rg", tl2=None, extra_opts=(), gen_cls=AnnGen, verifdump=None, accept=None):
    """n random schemas as gencommon unit specs (name, files, options, whitelist, san).  With [verifdump],
    schemas the kernel rejects (the generator does not know every rule) are replaced by fresh ones
    (at most 6n attempts); [accept](ins) may filter further."""
    specs = []
    attempts = 0
    rejected = 0
    while len(specs) < n and attempts < 6 * n:
        i = attempts
        attempts += 1
        g = gen_cls(ctx.rng, ntypes=ctx.rng.choice([4, 6, 8, 12]))
        d = Path(ctx.scratch) / f"{prefix}{i}"
        d.mkdir(exist_ok=True)
        p = d / "s.tl"
        p.write_text(g.text())
        san = ctx.rng.random() < 0.6
        opts = ([] if san else ["--checkLengthSanity=false"]) + list(extra_opts)
        wl = None
        if tl2 or (tl2 is None and ctx.rng.random() < 0.5):
            opts.append("--tl2WhiteList=*")
            wl = "*"
        if ctx.rng.random() < 0.2:
            opts.append("--split-internal")
        if verifdump:
            ins, err = dump_ir(verifdump, [p], d / "screen.json", tl2_whitelist=wl)
            if ins is None or (accept and not accept(ins)):
                rejected += 1
                continue
        specs.append((f"{prefix}{i}", [p], opts, wl, san))
    ctx.notes["random_schemas_rejected_by_kernel_and_replaced"] = ctx.notes.get("random_schemas_rejected_by_kernel_and_replaced", 0) + rejected
    return specs


DRIVER_FILES = ["main.go", "ops_tl1.go", "ops_reg.go"]


def prepare_units_reg(ctx, specs, bins, driver_files=None, jobs=8):
    """gencommon.prepare_units with the family's own driver file set; spec[5] (optional) = driver files"""
    units = [Unit(*s[:5]) for s in specs]
    dfiles = {s[0]: (s[5] if len(s) > 5 else driver_files) for s in specs}

    def prep(u):
        d = ctx.scratch / f"unit_{u.name}"
        d.mkdir(exist_ok=True)
        ins, err = dump_ir(bins["verifdump"], u.files, d / "ir.json", tl2_whitelist=u.whitelist)
        if ins is None:
            u.kernel_rejected = True
            u.error = "kernel: " + err[-800:]
            return u
        u.ins = ins
        u.ir_path = d / "ir.txt"
        try:
            write_ir_file(ins, u.ir_path)
            u.meta_path = d / "meta.txt"
            write_meta_file(ins, u.meta_path)
        except Exception as e:  # noqa
            u.error = f"ir: {e!r}"
            return u
        g = GenPkg(ctx.scratch, u.name, bins["tl2gen"], u.files, u.options, driver_files=dfiles[u.name] or DRIVER_FILES)
        if not g.generate():
            u.gen_failed = True
            u.error = "tl2gen: " + g.gen_log[-800:]
            return u
        # --split-internal: every user-facing namespace package (gen/tl, gen/tl<ns>) carries a metamini.go that registers its
        # items too.  Link them all next to meta/factory (real programs do), before or after meta's init depending on the unit
        ns_pkgs = sorted(p.parent.name for p in (g.dir / "gen").glob("*/metamini.go"))
        u.ns_pkgs = ns_pkgs
        if ns_pkgs:
            first = sum(map(ord, u.name)) % 2 == 0
            u.ns_init = "namespace packages before meta" if first else "meta before namespace packages"
            g.extra[("a_regns.go" if first else "zz_regns.go")] = (
                "package main\n\n// generated by lib/reg_lib.py: link the namespace packages (their metamini.go registers items as well)\nimport (\n"
                + "".join(f'\t_ "verifh/gen/{p}"\n' for p in ns_pkgs) + ")\n")
        if not g.build():
            u.error = "go build: " + g.gen_log[-1500:]
            return u
        u.gen = g
        return u

    with ThreadPoolExecutor(max_workers=jobs) as ex:
        list(ex.map(prep, units))
    return units


def go_random_values(fam, u, names, n, rng):
    """[(op line 'regrand <name> <seed>', 'ok <hex>')]: n FillRandom values per name.  A name whose first
    FillRandom kills the process (F7, owned by C18) is not tried again."""
    res = []
    alive = list(names)
    for rnd in range(n):
        rl = [f"regrand {name} {rng.getrandbits(48)}" for name in alive]
        out = run_lines_resilient(u.gen.exe, [], rl, timeout=600, max_restarts=60)
        dead = set()
        for l, o in zip(rl, out):
            if o.startswith("ok "):
                res.append((l, o))
            else:
                fam.add(fillrandom_failures_left_to_C18=1)
                if o.startswith("crash"):
                    dead.add(l.split(" ")[1])
        alive = [a for a in alive if a not in dead]
    return res


class Family:
    """theorem check + model build + unit preparation + violation reporting shared by the three checks"""

    def __init__(self, ctx, props, corr_name):
        self.ctx, self.props, self.corr = ctx, props, corr_name
        self.lock = threading.Lock()
        self.mism, self.bad, self.unit_errors, self.samples = [], [], [], []
        self.stats = {}
        self.kinds = {}
        self.distinct = set()
        self.not_compiling = []
        with Lock():
            self.cres = run_genconsts()
            self.thm = check_theorems(props)
            try:
                self.ref, self.ref_err = build_refmodel(FAMILY), None
            except RuntimeError as e:
                self.ref, self.ref_err = None, str(e)
        self.bins, self.berr = build_tools(ctx.scratch)
        self.units = []

    def prepare(self, specs, driver_files=None):
        if self.berr:
            return []
        self.units = prepare_units_reg(self.ctx, specs, self.bins, driver_files)
        return self.units

    def model(self, u, lines, timeout=1800):
        return run_lines(self.ref, [str(u.ir_path), str(u.meta_path)], lines, timeout=timeout)

    def add(self, **kw):
        with self.lock:
            for k, v in kw.items():
                self.stats[k] = self.stats.get(k, 0) + v

    def kind(self, k, n=1):
        with self.lock:
            self.kinds[k] = self.kinds.get(k, 0) + n

    def usable(self, u):
        """False (and recorded) when the unit cannot be used"""
        if u.kernel_rejected:
            self.add(kernel_rejected=1)
            return False
        if (u.error or "").startswith("go build") and "\ngen/" in u.error and "\ndrv/" not in u.error:
            # the GENERATED package does not compile (e.g. F11g): a defect of the generator owned by C14, nothing to drive here
            self.add(units_whose_generated_code_does_not_compile_left_to_C14=1)
            with self.lock:
                self.not_compiling.append(f"{u.name}: " + trunc(re.sub(r"\x1b\[[0-9;]*m", "", u.error[u.error.find("\ngen/"):]).strip(), 200))
            return False
        if u.error or not u.gen:
            with self.lock:
                self.unit_errors.append((u.name, u.error))
            return False
        return self.ref is not None

    def model_resilient(self, u, lines, timeout=900):
        """like model(), but a line the driver dies on (native stack overflow on a huge value) yields 'crash ...'"""
        return run_lines_resilient(self.ref, [str(u.ir_path), str(u.meta_path)], lines, timeout=timeout)

    @staticmethod
    def not_ours(m, g):
        """stack overflows of the generated code (recursive types: F7 / F39 / F21, owned by C18 / C08) and of the
        extracted model on huge values are not this family's property: such lines are counted, not compared"""
        if g.startswith(("crash runtime: goroutine stack exceeds", "crash fatal error: stack overflow", "crash timeout")):
            return "go_stack_overflows_left_to_C08_C18"
        if m.startswith(("crash", "model-stack-overflow")):
            return "model_driver_crashes_skipped"
        return None

    def compare(self, u, lines, mo, go, kind):
        """line-by-line correspondence; returns number of mismatches"""
        n = 0
        if len(mo) != len(lines) or len(go) != len(lines):
            with self.lock:
                self.unit_errors.append((u.name, f"{kind}: line count ops={len(lines)} model={len(mo)} go={len(go)}"))
            return 1
        with self.lock:
            for l, m, g in zip(lines, mo, go):
                other = self.not_ours(m, g)
                if other:
                    self.stats[other] = self.stats.get(other, 0) + 1
                    continue
                if m != g:
                    self.mism.append((u.name, l, m, g))
                    n += 1
                # non-trivial = the generated code produced a positive answer (an item, an object, bytes), not none / reject / error
                if g.startswith(("ok", "acc=", "s=ok")):
                    self.distinct.add(hash((u.name, l)))
            if lines and len(self.samples) < 14:
                j = random.Random(len(self.samples) * 7919 + len(lines)).randrange(len(lines))
                self.samples.append({"schema": u.name, "kind": kind, "op": trunc(lines[j], 200), "go": trunc(go[j], 160), "model": trunc(mo[j], 160)})
        self.add(evaluations=len(lines))
        self.kind(kind, len(lines))
        return n

    def oracle_fail(self, u, sig, what, data):
        with self.lock:
            self.bad.append((u.name, sig, what, data))

    def run_units(self, work, jobs=8):
        rngs = {u.name: random.Random(self.ctx.rng.getrandbits(64)) for u in self.units}

        def w(u):
            try:
                work(u, rngs[u.name])
            except Exception as e:  # noqa
                import traceback
                with self.lock:
                    self.unit_errors.append((u.name, f"check machinery failed: {e!r} {traceback.format_exc()[-600:]}"))

        with ThreadPoolExecutor(max_workers=jobs) as ex:
            list(ex.map(w, self.units))

    def report(self, what_oracle, rule, trusted_extra=(), assumptions=(), extra_cov=None, nontrivial=None):
        ctx, thm, pid = self.ctx, self.thm, self.ctx.pid
        seen = set()
        for name, sig, what, data in self.bad:       # one report per signature (known findings must not crowd out new ones)
            if sig in seen or len(seen) >= 60:
                continue
            seen.add(sig)
            ctx.violation(sig, f"{name}: {what_oracle}: {trunc(what, 300)}", dict(data, unit=name))
        if not ctx.violations:
            bad_c = {k: v for k, v in (self.cres or {}).items() if v and k in ("Prim",)}
            if bad_c:
                ctx.violation(f"{pid}:tconst", "translator T-const failed: " + str(bad_c), {"error": bad_c}, no_input=True)
            elif not thm["ok"]:
                ctx.violation(f"{pid}:theorem", f"theorem no longer checks: {thm['failing_at']}",
                              {"theorem_file": thm["props_file"], "failing_at": thm["failing_at"], "log": thm["log_tail"]}, no_input=True)
            if self.berr:
                ctx.violation(f"{pid}:tools", "cannot build tl2gen/verifdump from /repo: " + trunc(self.berr, 600), {"error": self.berr}, no_input=True)
            if self.ref_err:
                ctx.violation(f"{pid}:model-build", "reference model does not build: " + trunc(self.ref_err, 600), {"error": self.ref_err}, no_input=True)
            for name, e in self.unit_errors[:10]:
                ctx.violation(f"{pid}:unit:{name}", f"schema unit {name}: {trunc(e, 700)}", {"unit": name, "error": e}, no_input=True)
            for name, l, m, g in self.mism[:30]:
                ctx.violation(f"{pid}:corr:{name}:{trunc(l, 60)}",
                              f"{self.corr} {name}: model and generated code differ on {trunc(l, 140)}: model={trunc(m, 160)} go={trunc(g, 160)}",
                              {"correspondence": self.corr, "unit": name, "op": l, "model": m, "go": g}, no_input=True)
        cov = {
            "obligations": thm["obligations"], "discharged": thm["discharged"],
            "checker_cmd": f"make -f Makefile.coq theories/{self.props}.vo (coqc 8.16.1, full .vo build, in /verif/coq)",
            "trusted_base": ["Coq 8.16.1 kernel", "translator overlay/cmd/verifdump (kernel dump -> schema IR + per-instance metadata), lib/schema_ir.py and lib/reg_lib.py (IR / metadata file writers)",
                             "extraction ExtrOcamlBasic only; ocaml/conv.ml, ocaml/tl1/schema_io.ml, ocaml/drv_reg.ml",
                             "Go harness harness/go/gendrv (ops_reg*.go); comparison in lib/reg_lib.py and lib/checks/" + pid + ".py"] + list(trusted_extra) +
                            ["axioms: " + (", ".join(thm["axioms"]) if thm["axioms"] else "none (every theorem closed under the global context)")],
            "theorems": thm["statements"], "assumptions_per_theorem": thm["assumptions"],
            "evaluations": self.stats.get("evaluations", 0),
            "distinct_nontrivial": nontrivial if nontrivial is not None else len(self.distinct),
            "nontrivial_rule": "distinct (schema, operation) pairs on which the generated code gave a positive answer (item found / object state observed / bytes written), not none, reject or error",
            "rule": rule, "stats": self.stats, "op_kinds": self.kinds, "correspondence": self.corr,
            "correspondence_mismatches": len(self.mism), "oracle_failures": len(self.bad),
            "samples": self.samples or [{"note": "no ops ran"}],
            "units_not_compiling_left_to_C14": self.not_compiling[:20],
            "schemas": [{"name": u.name, "options": u.options, "instances": len(u.ins or []), "error": trunc(u.error, 200) if u.error else None} for u in self.units],
        }
        cov.update(extra_cov or {})
        ctx.coverage.update(cov)
        ctx.assumptions += ["64-bit platform", "the templates are modelled, not verified: agreement shown on the listed schemas/values",
                            "kernel resolution trusted (the IR and the per-instance metadata are dumped from the kernel)"] + list(assumptions)
