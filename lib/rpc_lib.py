"""Shared pieces of the Rpc family checks (C38 RpcMux, C39 Admission)."""
from vlib import *

OVERLAY = {"verif_rpc_test.go": VERIF / "overlay" / "pkg" / "rpc" / "verif_rpc_test.go"}


def build_bin(ctx, race=True):
    return build_overlay_test("pkg/rpc", OVERLAY, ctx.scratch, name="rpc_" + ctx.pid, race=race)


def race_reported(rc, text):
    return "DATA RACE" in text or rc == 66


def seq_runner(binary):
    """go_runner for sequential op lines (alloc / pc / wp / adm) through TestVerifRpcSeq."""
    def run(ctx, lines):
        rc, out, log = run_overlay_test(binary, "TestVerifRpcSeq", lines, ctx.scratch, timeout=300)
        if race_reported(rc, log):
            ctx.violation(f"{ctx.pid}:race:seq", "race detector report in the sequential harness: " + trunc(log[-1500:], 1500),
                          {"log": log[-6000:]})
        if rc != 0 and not out:
            return None, f"TestVerifRpcSeq exit {rc}: {log[-800:]}"
        return out, ""
    return run


# ---------------------------------------------------------------------------- C38 event logs

def split_scenarios(lines):
    by = {}
    for ln in lines:
        f = ln.split(" ")
        by.setdefault(f[0], []).append(f[1:])
    return by


def history_tokens(events):
    """observed events of one scenario -> tokens of the extracted monitor"""
    toks = []
    for f in events:
        k = f[0]
        if k == "C":
            toks.append(f"c:{f[1]}:{f[2]}:{f[3]}:{f[4]}")
        elif k == "S":
            toks.append(f"s:{f[1]}:{f[2]}")
        elif k == "X":
            toks.append(f"x:{f[1]}")
        elif k == "D":
            toks.append(f"d:{f[1]}:{f[2]}:{f[3]}")
        elif k == "KC":
            toks.append("kc")
        elif k == "KS":
            toks.append("ks")
    return toks


def mux_oracle(sid, events):
    """own-response / complete-once / close-drains evaluated directly on the observed log.
    Returns a list of (sig-suffix, message)."""
    bad = []
    calls = {}      # q -> dict
    order = []
    kc = ks = kc_end = False
    ended = None
    for n, f in enumerate(events):
        k = f[0]
        if k == "C":
            q = f[1]
            if q == "0":
                bad.append(("qid-zero", f"call {f[2]} got query ID 0"))
            if q in calls:
                bad.append(("qid-reused", f"query ID {q} used by calls {calls[q]['idx']} and {f[2]}"))
            calls[q] = {"idx": f[2], "fail": f[3] == "1", "tmo": f[4] == "1", "x": False, "s": 0, "d": 0, "after_close": kc_end}
            order.append(q)
        elif k == "S":
            c = calls.get(f[1])
            if c is None:
                bad.append(("handler-unknown-qid", f"handler saw query ID {f[1]} (body {f[2]}) that no call used"))
                continue
            if c["idx"] != f[2]:
                bad.append(("handler-wrong-body", f"handler saw body of call {f[2]} under the query ID of call {c['idx']}"))
            c["s"] += 1
            if c["s"] > 1:
                bad.append(("handler-twice", f"request of call {c['idx']} handled {c['s']} times"))
        elif k == "X":
            if f[1] in calls:
                calls[f[1]]["x"] = True
        elif k == "D":
            c = calls.get(f[1])
            if c is None:
                bad.append(("done-unknown", f"completion for unknown query ID {f[1]}"))
                continue
            c["d"] += 1
            if c["d"] > 1:
                bad.append(("complete-twice", f"call {c['idx']} completed {c['d']} times"))
            kind, b, note = f[2], f[3], f[4] if len(f) > 4 else "-"
            if kind in ("ok", "srverr"):
                if b != c["idx"]:
                    bad.append(("swapped-response", f"call {c['idx']} received the {kind} answer to call {b}"))
                elif note != "-":
                    bad.append(("corrupted-response", f"call {c['idx']}: {kind} answer does not match its request ({note})"))
                if c["s"] == 0:
                    bad.append(("response-without-handler", f"call {c['idx']} got a handler answer but no handler ran for it"))
            elif kind == "srvgen":
                if not (c["tmo"] and note == "code=-3000"):
                    bad.append(("unexpected-server-error", f"call {c['idx']}: server-generated error {note}"))
            elif kind == "cancel":
                if not c["x"]:
                    bad.append(("cancel-not-requested", f"call {c['idx']} returned context.Canceled but was never cancelled"))
            elif kind == "timeout":
                if not c["tmo"]:
                    bad.append(("timeout-without-deadline", f"call {c['idx']} returned DeadlineExceeded but has no deadline"))
            elif kind == "closed":
                if not (kc or ks):
                    bad.append(("closed-without-close", f"call {c['idx']} failed with connection closed ({note}) but nobody closed"))
            elif kind == "clientclosed":
                if not kc:
                    bad.append(("clientclosed-without-close", f"call {c['idx']} failed with ErrClientClosed but the client is open"))
            else:
                bad.append(("unexpected-result", f"call {c['idx']}: {kind} {b} {note}"))
            if c["after_close"] and kind not in ("clientclosed", "timeout", "cancel"):
                bad.append(("call-after-close", f"call {c['idx']} started after Client.Close returned and ended with {kind}"))
        elif k == "KC":
            kc = True
        elif k == "Kc":
            kc_end = True
        elif k == "KS":
            ks = True
        elif k in ("HANG", "SETUPFAIL"):
            bad.append(("hang" if k == "HANG" else "setup", " ".join(f)))
        elif k == "LOGVIOL":
            bad.append(("library-reports-invariant", " ".join(f[1:])[:300]))
        elif k == "SBAD":
            bad.append(("garbled-request", " ".join(f)))
        elif k == "END":
            ended = f[1]
    for q in order:
        if calls[q]["d"] == 0:
            bad.append(("never-returned", f"call {calls[q]['idx']} never returned (close does not drain / lost call)"))
    if ended == "skipped-after-hang":
        return []
    if ended != "ok":
        bad.append(("scenario-not-finished", f"scenario ended with {ended}"))
    return bad
