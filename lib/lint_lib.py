"""Shared by the Lint family checks (C24, C28, C29, C30): random TL1 schemas as structured
objects, the documented safe / unsafe edit classes, and the harness plumbing (overlay test in
cmd/tlgen driving the real runMain, plus the real tlgen binary for a cross-check)."""
import copy
import os
import re
from pathlib import Path

from vlib import *

OVERLAY_TLGEN = VERIF / "overlay" / "cmd" / "tlgen" / "verif_lint_test.go"
SAMPLES = REPO / "internal" / "tlcodegen" / "test" / "tls" / "backward_compatibility_samples"

HEADER = """int#a8509bda ? = Int;
long#22076cba ? = Long;
string#b5286e24 ? = String;
vector#1cb5c415 {t:Type} # [t] = Vector t;
tuple#9770768a {t:Type} {n:#} [t] = Tuple t n;
true#3fedd339 = True;
"""


# --------------------------------------------------------------------------- schema objects

class T:
    """type expression: nat constant, or reference with arguments"""

    def __init__(self, name=None, args=(), bare=False, nat=None):
        self.name, self.args, self.bare, self.nat = name, list(args), bare, nat

    def tl(self):
        if self.nat is not None:
            return str(self.nat)
        s = self.name
        if self.args:
            s = "(" + " ".join([self.name] + [a.tl() for a in self.args]) + ")"
        return ("%" if self.bare else "") + s

    def walk(self):
        yield self
        for a in self.args:
            yield from a.walk()


class Field:
    def __init__(self, name, typ, mask=None, rep=None):
        self.name, self.typ, self.mask, self.rep = name, typ, mask, rep  # rep = (scale string, inner T)

    def tl(self):
        s = self.name + ":" if self.name else ""
        if self.mask:
            s += f"{self.mask[0]}.{self.mask[1]}?"
        if self.rep:
            return s + f"{self.rep[0]}*[{self.rep[1].tl()}]"
        return s + self.typ.tl()

    def types(self):
        if self.rep:
            return [self.rep[1]]
        return [self.typ]


class Comb:
    def __init__(self, name, tname, targs=(), fields=(), isfun=False, res=None, tag=None):
        self.name, self.tname, self.targs, self.fields = name, tname, list(targs), list(fields)
        self.isfun, self.res, self.tag = isfun, res, tag  # targs: [(name, "#" | "Type")]

    def tl(self):
        s = ("@read " if self.isfun else "") + self.name
        if self.tag is not None:
            s += "#%08x" % self.tag
        for a in self.targs:
            s += " {%s:%s}" % a
        for f in self.fields:
            s += " " + f.tl()
        if self.isfun:
            r = self.res
            rs = " ".join([r.name] + [a.tl() for a in r.args]) if (r.nat is None and r.args and not r.bare) else r.tl()
            return s + " = " + rs + ";"
        return s + " = " + " ".join([self.tname] + [a[0] for a in self.targs]) + ";"

    def all_types(self):
        for f in self.fields:
            yield from f.types()
        if self.isfun:
            yield self.res


class Schema:
    def __init__(self, combs):
        self.combs = combs

    def tl(self):
        ts = [c.tl() for c in self.combs if not c.isfun]
        fs = [c.tl() for c in self.combs if c.isfun]
        return HEADER + "\n".join(ts) + "\n---functions---\n" + "\n".join(fs) + "\n"

    def types(self):
        d = {}
        for c in self.combs:
            if not c.isfun:
                d.setdefault(c.tname, []).append(c)
        return d

    def by_name(self, n):
        for c in self.combs:
            if c.name == n:
                return c
        return None

    def copy(self):
        return copy.deepcopy(self)


def upfirst(s):
    i = s.rfind(".") + 1
    return s[:i] + s[i].upper() + s[i + 1:]


SCALARS = ["int", "long", "string"]


class Gen:
    """random base schema: simple, masked, nat-templated (also recursive), type-templated, unions, functions"""

    def __init__(self, rng):
        self.rng = rng
        self.combs = []
        self.n = 0
        self.simple = []     # (ctor, type) of non-template single-constructor types
        self.unions = []     # type names
        self.nattmpl = []    # (ctor, type, n_nat_args)
        self.typetmpl = []   # (ctor, type, n_args)

    def fresh(self, prefix):
        self.n += 1
        ns = self.rng.choice(["", "", "svc.", "ab."])
        return f"{ns}{prefix}{self.n}"

    def scalar(self):
        return T(self.rng.choice(SCALARS))

    def some_type(self, natvars=(), typevars=(), depth=0):
        """a type expression valid in a context with the given nat / type variables"""
        rng = self.rng
        opts = ["scalar", "scalar"]
        if self.simple:
            opts += ["simple", "simple", "simplebare", "simplector"]
        if self.unions:
            opts += ["union"]
        if self.nattmpl:
            opts += ["nattmpl", "nattmpl"]
        if self.typetmpl and depth < 2:
            opts += ["typetmpl"]
        if typevars:
            opts += ["var", "var"]
        if depth < 2:
            opts += ["vector", "tuple"]
        k = rng.choice(opts)
        if k == "scalar":
            return self.scalar()
        if k == "simple":
            return T(rng.choice(self.simple)[1])
        if k == "simplebare":
            return T(rng.choice(self.simple)[1], bare=True)
        if k == "simplector":
            return T(rng.choice(self.simple)[0])
        if k == "union":
            return T(rng.choice(self.unions))
        if k == "var":
            return T(rng.choice(typevars))
        if k == "vector":
            return T(rng.choice(["vector", "Vector"]), [self.some_type(natvars, typevars, depth + 1)],
                     bare=rng.random() < 0.3)
        if k == "tuple":
            n = T(rng.choice(natvars)) if natvars and rng.random() < 0.6 else T(nat=rng.randrange(0, 5))
            return T("tuple", [self.some_type(natvars, typevars, depth + 1), n])
        if k == "nattmpl":
            c, t, na = rng.choice(self.nattmpl)
            args = [T(rng.choice(natvars)) if natvars and rng.random() < 0.7 else T(nat=rng.randrange(0, 40)) for _ in range(na)]
            return T(rng.choice([c, t]), args, bare=rng.random() < 0.2)
        c, t, na = rng.choice(self.typetmpl)
        return T(rng.choice([c, t]), [self.some_type(natvars, typevars, depth + 1) for _ in range(na)])

    def result_type(self, natvars=()):
        """function results must be boxed"""
        rng = self.rng
        opts = ["scalar", "vector"]
        if self.simple:
            opts += ["simple", "simple"]
        if self.unions:
            opts += ["union"]
        if self.nattmpl:
            opts += ["nattmpl"]
        if self.typetmpl:
            opts += ["typetmpl"]
        k = rng.choice(opts)
        if k == "scalar":
            return T(rng.choice(["Int", "Long", "String"]))
        if k == "vector":
            return T("Vector", [self.some_type(natvars, [], 1)])
        if k == "simple":
            return T(rng.choice(self.simple)[1])
        if k == "union":
            return T(rng.choice(self.unions))
        if k == "nattmpl":
            c, t, na = rng.choice(self.nattmpl)
            return T(t, [T(rng.choice(natvars)) if natvars and rng.random() < 0.7 else T(nat=rng.randrange(0, 40)) for _ in range(na)])
        c, t, na = rng.choice(self.typetmpl)
        return T(t, [self.some_type(natvars, [], 1) for _ in range(na)])

    def fields(self, nmin, nmax, natvars, typevars, maskable, prefix="f"):
        """fields; maskable = names usable as field masks at the start (template nat args); local # fields join in"""
        rng = self.rng
        fs = []
        natvars = list(natvars)
        maskable = list(maskable)
        used = {}
        for i in range(rng.randrange(nmin, nmax + 1)):
            name = f"{prefix}{i}"
            r = rng.random()
            if r < 0.22:
                fs.append(Field(name, T("#")))
                natvars.append(name)
                maskable.append(name)
                continue
            mask = None
            if maskable and rng.random() < 0.55:
                m = rng.choice(maskable)
                bit = rng.choice([b for b in range(0, 32) if (m, b) not in used] or [0])
                if rng.random() < 0.8:
                    used[(m, bit)] = True
                mask = (m, bit)
            if mask and rng.random() < 0.25:
                fs.append(Field(name, T("true"), mask))
            elif natvars and rng.random() < 0.12:
                fs.append(Field(name, None, mask, rep=(rng.choice(natvars + ["3"]), self.some_type(natvars, typevars, 1))))
            else:
                fs.append(Field(name, self.some_type(natvars, typevars), mask))
        return fs

    def add_type(self):
        rng = self.rng
        k = rng.choice(["simple", "simple", "masked", "masked", "nattmpl", "nattmpl", "typetmpl", "union", "rec"])
        c = self.fresh("t")
        t = upfirst(c)
        if k in ("simple", "masked"):
            fs = self.fields(0 if k == "simple" else 2, 5, [], [], [])
            if k == "masked" and not any(f.typ and f.typ.name == "#" for f in fs):
                fs.insert(0, Field("m", T("#")))
                fs.append(Field("mx", self.scalar(), ("m", rng.randrange(32))))
            self.combs.append(Comb(c, t, [], fs))
            self.simple.append((c, t))
        elif k == "nattmpl":
            na = rng.choice([1, 1, 2])
            targs = [(f"n{i}", "#") for i in range(na)]
            fs = self.fields(1, 4, [a[0] for a in targs], [], [a[0] for a in targs])
            self.combs.append(Comb(c, t, targs, fs))
            self.nattmpl.append((c, t, na))
        elif k == "rec":
            # recursive nat-templated type: the walk over the nat argument graph has a cycle
            fs = [Field("h", self.scalar(), ("n", rng.randrange(4))),
                  Field("t", T(rng.choice([c, t]), [T("n")]), ("n", rng.randrange(4, 8)))]
            if self.nattmpl and rng.random() < 0.5:
                c2, t2, na = rng.choice(self.nattmpl)
                fs.append(Field("o", T(t2, [T("n")] * na)))
            self.combs.append(Comb(c, t, [("n", "#")], fs))
            self.nattmpl.append((c, t, 1))
        elif k == "typetmpl":
            na = rng.choice([1, 2])
            targs = [(f"X{i}", "Type") for i in range(na)]
            fs = self.fields(1, 3, [], [a[0] for a in targs], [])
            self.combs.append(Comb(c, t, targs, fs))
            self.typetmpl.append((c, t, na))
        else:
            base = c
            for i in range(rng.choice([2, 2, 3])):
                self.combs.append(Comb(f"{base}v{i}", t, [], self.fields(0, 3, [], [], [])))
            self.unions.append(t)

    def add_chain(self):
        """a nat handed down through two or three nat-templated types, each giving some bits a meaning, and a
        constructor (or function) whose local mask feeds the chain: the bits at the bottom are 'used' at the top"""
        rng = self.rng
        depth = rng.choice([2, 2, 3])
        prev = None
        for d in range(depth):
            c = self.fresh("ch")
            t = upfirst(c)
            fs = [Field("x", self.scalar(), ("n", rng.randrange(32)))]
            if rng.random() < 0.5:
                fs.append(Field("y", T("true"), ("n", rng.randrange(32))))
            if prev:
                fs.insert(rng.randrange(len(fs) + 1), Field("d", T(rng.choice(prev[:2]), [T("n")], bare=rng.random() < 0.2)))
            self.combs.append(Comb(c, t, [("n", "#")], fs))
            self.nattmpl.append((c, t, 1))
            prev = (c, t)
        c = self.fresh("top")
        fs = [Field("m", T("#")), Field("a", self.scalar(), ("m", rng.randrange(32))), Field("b", T(prev[1], [T("m")]))]
        if rng.random() < 0.5:
            self.combs.append(Comb(c, upfirst(c), [], fs))
            self.simple.append((c, upfirst(c)))
        else:
            self.combs.append(Comb(self.fresh("fnc"), "", [], fs, isfun=True, res=self.result_type()))
        if rng.random() < 0.5:   # declaration order matters to the linter's depth-first walk: also outermost first
            k = depth + 1
            self.combs[-k:] = self.combs[-k:][::-1]

    def add_shared(self):
        """one nat-templated inner type (optionally over a second level) that 2..4 combinators feed, each with ITS OWN
        field mask and its own directly used bits: the per-combinator used-bit sets must stay independent"""
        rng = self.rng
        inner = self.fresh("sh")
        it = upfirst(inner)
        block = []
        ifs = [Field("x", self.scalar(), ("m", rng.randrange(32)))]
        if rng.random() < 0.4:
            low = self.fresh("shl")
            block.append(Comb(low, upfirst(low), [("m", "#")], [Field("q", self.scalar(), ("m", rng.randrange(32)))]))
            ifs.append(Field("l", T(upfirst(low), [T("m")])))
            self.nattmpl.append((low, upfirst(low), 1))
        block.append(Comb(inner, it, [("m", "#")], ifs))
        self.nattmpl.append((inner, it, 1))
        users = []
        for u in range(rng.randrange(2, 5)):
            mn = rng.choice(["f", "g", "h", "fm", "mask"]) + str(u)
            fs = [Field(mn, T("#"))]
            for j in range(rng.randrange(1, 4)):
                fs.append(Field(f"d{j}", T("true") if rng.random() < 0.3 else self.scalar(), (mn, rng.randrange(32))))
            fs.insert(rng.randrange(1, len(fs) + 1), Field("in", T(rng.choice([inner, it]), [T(mn)], bare=rng.random() < 0.2)))
            if rng.random() < 0.7:
                c = self.fresh("us")
                users.append(Comb(c, upfirst(c), [], fs))
                self.simple.append((c, upfirst(c)))
            else:
                users.append(Comb(self.fresh("fnu"), "", [], fs, isfun=True, res=self.result_type()))
        if rng.random() < 0.5:
            block = users + block
        else:
            block = block + users
        self.combs += block

    def add_namespaced_holder(self):
        """a combinator (constructor or function) with a local field mask whose fields mention NAMESPACED types, top
        level and nested -- the place where an appended field may be called like the short name of such a type"""
        rng = self.rng
        self.n += 1
        ns = rng.choice(["geo", "svc", "ab", "maps"]) + str(self.n)
        pt, ptT = f"{ns}.{rng.choice(['point', 'item', 'rec'])}", None
        ptT = upfirst(pt)
        self.combs.append(Comb(pt, ptT, [], [Field("x", T("int")), Field("y", self.scalar())]))
        self.simple.append((pt, ptT))
        mk = rng.choice(["fields_mask", "fm", "flags"])
        fs = [Field(mk, T("#")), Field("a", self.scalar(), (mk, rng.randrange(32)))]
        refs = [T(pt), T(ptT), T(ptT, bare=True), T(rng.choice(["vector", "Vector"]), [T(rng.choice([pt, ptT]))], bare=rng.random() < 0.5),
                T("tuple", [T("vector", [T(pt)]), T(nat=rng.randrange(1, 4))])]
        rng.shuffle(refs)
        for j, r in enumerate(refs[: rng.randrange(1, 4)]):
            fs.append(Field(rng.choice(["center", "points", "where", "data"]) + str(j), r, (mk, rng.randrange(32)) if rng.random() < 0.3 else None))
        if rng.random() < 0.7:
            c = f"{ns}.holder"
            self.combs.append(Comb(c, upfirst(c), [], fs))
            self.simple.append((c, upfirst(c)))
        else:
            self.combs.append(Comb(f"{ns}.getHolder", "", [], fs, isfun=True, res=T(rng.choice([ptT, "Int"]))))

    def add_function(self):
        rng = self.rng
        name = self.fresh("fn")
        k = rng.choice(["plain", "plain", "mask", "mask", "natnomask", "noargs"])
        if k == "noargs":
            fs = []
        elif k == "plain":
            fs = [Field(f"a{i}", self.some_type()) for i in range(rng.randrange(1, 4))]
        elif k == "mask":
            fs = [Field("fm", T("#"))] + self.fields(1, 4, ["fm"], [], ["fm"], prefix="a")
        else:
            fs = [Field(f"a{i}", self.some_type()) for i in range(rng.randrange(0, 3))] + [Field("cnt", T("#"))]
            if rng.random() < 0.6:
                fs.append(Field("xs", T("tuple", [self.scalar(), T("cnt")])))
        natvars = [f.name for f in fs if f.typ and f.typ.name == "#"]
        res = self.result_type(natvars if rng.random() < 0.3 else [])
        self.combs.append(Comb(name, "", [], fs, isfun=True, res=res))

    def schema(self, ntypes=None, nfuns=None, chain=False, shared=False, namespaced=False):
        rng = self.rng
        if namespaced:
            self.add_namespaced_holder()
        if chain:
            self.add_chain()
        if shared:
            self.add_shared()
        for _ in range(ntypes if ntypes is not None else rng.randrange(3, 9)):
            self.add_type()
        for _ in range(nfuns if nfuns is not None else rng.randrange(1, 5)):
            self.add_function()
        combs = self.combs
        if rng.random() < 0.4 and not (chain or shared or namespaced):   # declaration order is free in TL: uses may precede declarations
            ts = [c for c in combs if not c.isfun]
            rng.shuffle(ts)
            combs = ts + [c for c in combs if c.isfun]
        return Schema(combs)


# --------------------------------------------------------------------------- semantic bit usage (independent of the linter)

def nat_fields(c):
    return [(i, f) for i, f in enumerate(c.fields) if f.typ is not None and f.typ.name == "#" and not f.rep]


def sem_layout_bits(s, tname, idx, seen=None, skip_rep=False):
    """bits given meaning below nat argument idx of type tname (direct masks + passed on);
    skip_rep: ignore what is inside n*[...] repetitions (what the linter's own analysis sees)"""
    seen = seen if seen is not None else set()
    if (tname, idx) in seen:
        return set()
    seen.add((tname, idx))
    bits = set()
    ctor2type = {c.name: c.tname for c in s.combs if not c.isfun}
    for c in s.types().get(tname, []):
        if idx >= len(c.targs):
            continue
        an = c.targs[idx][0]
        for f in c.fields:
            if f.mask and f.mask[0] == an:
                bits.add(f.mask[1])
            for t in ([] if (skip_rep and f.rep) else f.types()):
                for node in t.walk():
                    tn = ctor2type.get(node.name, node.name if node.name in s.types() else None)
                    for k, a in enumerate(node.args):
                        if a.nat is None and a.name == an and not a.args and tn:
                            bits |= sem_layout_bits(s, tn, k, seen, skip_rep)
    return bits


def sem_local_bits(s, c, fname, skip_rep=False):
    """bits of the local nat field fname of combinator c that already mean something"""
    ctor2type = {x.name: x.tname for x in s.combs if not x.isfun}
    bits = set()
    for f in c.fields:
        if f.mask and f.mask[0] == fname:
            bits.add(f.mask[1])
    ts = [t for f in c.fields if not (skip_rep and f.rep) for t in f.types()] + ([c.res] if c.isfun else [])
    for t in ts:
        for node in t.walk():
            tn = ctor2type.get(node.name, node.name if node.name in s.types() else None)
            for k, a in enumerate(node.args):
                if a.nat is None and a.name == fname and not a.args and tn:
                    bits |= sem_layout_bits(s, tn, k, None, skip_rep)
    return bits


def size_use(c, fname):
    """is the name used as a repeat count or tuple size in c"""
    for f in c.fields:
        if f.rep and f.rep[0] == fname:
            return True
    for t in c.all_types():
        for node in t.walk():
            if node.name in ("tuple", "Tuple") and any(a.nat is None and a.name == fname for a in node.args):
                return True
    return False


def fed_types(s, c, fname):
    """the (type, argument index) positions the name is passed to in c"""
    ctor2type = {x.name: x.tname for x in s.combs if not x.isfun}
    res = set()
    for t in c.all_types():
        for node in t.walk():
            tn = ctor2type.get(node.name, node.name if node.name in s.types() else None)
            for k, a in enumerate(node.args):
                if a.nat is None and a.name == fname and not a.args and tn:
                    res.add((tn, k))
    return res


def passes_nat(c, fname):
    """is the name passed as a type argument (or a repeat count) anywhere in c"""
    for f in c.fields:
        if f.rep and f.rep[0] == fname:
            return True
    for t in c.all_types():
        for node in t.walk():
            for a in node.args:
                if a.nat is None and a.name == fname and not a.args:
                    return True
    return False


# --------------------------------------------------------------------------- edits

def type_users(s, c):
    """does any other combinator mention this constructor or its type"""
    for o in s.combs:
        if o is c:
            continue
        for t in o.all_types():
            for node in t.walk():
                if node.name in (c.name, c.tname):
                    return True
    return False


def mentioned_type_names(c):
    """every name a combinator's type expressions mention (deep), nat constants excluded"""
    names = set()
    for t in c.all_types():
        for node in t.walk():
            if node.nat is None and node.name and node.name != "#":
                names.add(node.name)
    return names


def new_field_name(rng, c, collide=0.5):
    """name for an appended field.  Often one that COLLIDES with a piece of a namespaced type name the combinator
    mentions (`point`, `Point` or `geo` for `geo.point`): the linter keys its name resolution by the FULL type name,
    so such a field shadows nothing and the edit stays safe.  Never a full name the combinator mentions (that the
    linter does refuse, see unqualified_collision_edit)."""
    taken = {f.name for f in c.fields} | {a[0] for a in c.targs}
    full = mentioned_type_names(c)
    cands = set()
    for n in full:
        if "." in n:
            ns, short = n.split(".", 1)
            cands |= {short, short[0].lower() + short[1:], short[0].upper() + short[1:], ns}
    cands = sorted(x for x in cands if x not in taken and x not in full and x not in ("int", "long", "string", "true"))
    if cands and rng.random() < collide:
        return rng.choice(cands)
    return f"nf{len(c.fields)}"


def name_collision_edit(rng, s):
    """append a correctly masked field named like a piece of a namespaced type name that an OLD field of the same
    combinator mentions (top level or nested); safe: must be accepted"""
    s = s.copy()
    cands = []
    for c in s.combs:
        for i, f in nat_fields(c):
            if f.name and not passes_nat(c, f.name) and not any(a[0] == f.name for a in c.targs) \
                    and [g2.name for g2 in c.fields].index(f.name) == i and any(g2.mask and g2.mask[0] == f.name for g2 in c.fields) \
                    and any("." in n.name for g2 in c.fields if not g2.rep for n in g2.typ.walk() if n.nat is None and n.name):
                cands.append((c, f))
    if not cands:
        return None
    c, f = rng.choice(cands)
    free = [b for b in range(32) if b not in sem_local_bits(s, c, f.name)]
    name = new_field_name(rng, c, 1.0)
    if not free or name.startswith("nf"):
        return None
    c.fields.append(Field(name, T(rng.choice(SCALARS)), (f.name, rng.choice(free))))
    if rng.random() < 0.4:   # and a second one
        n2 = new_field_name(rng, c, 1.0)
        free = [b for b in free if b != c.fields[-1].mask[1]]
        if free and not n2.startswith("nf"):
            c.fields.append(Field(n2, T(rng.choice(SCALARS)), (f.name, rng.choice(free))))
    return s


def unqualified_collision_edit(rng, s):
    """append a correctly masked field whose NAME is a non-namespaced type name (`int`, `t1`, `T1`) that an old
    field of the same combinator mentions.  Wire-safe, but the linter resolves the old field's type name through the
    NEW combinator's field names and refuses ("this reference changed to different source")."""
    s = s.copy()
    cands = []
    for c in s.combs:
        for i, f in nat_fields(c):
            if f.name and not passes_nat(c, f.name) and not any(a[0] == f.name for a in c.targs) \
                    and [g2.name for g2 in c.fields].index(f.name) == i and any(g2.mask and g2.mask[0] == f.name for g2 in c.fields):
                taken = {g2.name for g2 in c.fields} | {a[0] for a in c.targs}
                ms = set()
                for g2 in c.fields:   # what the linter compares: field types outside repetitions, not the result of a type
                    if not g2.rep:
                        ms |= {n.name for n in g2.typ.walk() if n.nat is None and n.name and n.name != "#"}
                names = sorted(n for n in ms if "." not in n and n not in taken)
                if names:
                    cands.append((c, f, names))
    if not cands:
        return None
    c, f, names = rng.choice(cands)
    free = [b for b in range(32) if b not in sem_local_bits(s, c, f.name)]
    if not free:
        return None
    c.fields.append(Field(rng.choice(names), T("long"), (f.name, rng.choice(free))))
    return s


def safe_edits(rng, s, nmax, strict_masks=False):
    """apply up to nmax documented safe edits; returns (new schema, [edit kinds]).
    strict_masks: only nats that already guard at least one field count as "existing field mask" (needed when old
    VALUES are carried over: a nat that was an ordinary number so far holds arbitrary bits in old values)"""
    s = s.copy()
    kinds = []
    g = Gen(rng)
    g.n = 1000 + rng.randrange(1000)
    for c in s.combs:  # let the helper generator reference existing plain types
        if not c.isfun and not c.targs and len(s.types()[c.tname]) == 1:
            g.simple.append((c.name, c.tname))
    for _ in range(nmax):
        k = rng.choice(["field-local", "field-local", "field-local", "field-passed", "field-passed", "field-targ", "ctor-union",
                        "ctor-boxed", "new-type", "new-fn", "fn-mask"])
        if k == "field-local":
            cands = []
            for c in s.combs:
                for i, f in nat_fields(c):
                    if f.name and not passes_nat(c, f.name) and not any(a[0] == f.name for a in c.targs) \
                            and [g2.name for g2 in c.fields].index(f.name) == i:
                        if c.isfun and not any(x.mask for x in c.fields):
                            continue  # covered by fn-mask (needs the special first-field rule)
                        cands.append((c, f))
            if not cands:
                continue
            c, f = rng.choice(cands)
            used = sem_local_bits(s, c, f.name)
            free = [b for b in range(32) if b not in used]
            if not free or (strict_masks and not any(g.mask and g.mask[0] == f.name for g in c.fields)):
                continue
            c.fields.append(Field(new_field_name(rng, c, 0.0 if strict_masks else 0.5), g.scalar(), (f.name, rng.choice(free))))
        elif k == "field-passed":
            # the mask is also handed to nat-templated types: free = not used here, nor anywhere below; preferably a
            # bit that a SIBLING (another combinator feeding the same type from its own mask) uses in its own mask
            cands = []
            for c in s.combs:
                for i, f in nat_fields(c):
                    if f.name and passes_nat(c, f.name) and not size_use(c, f.name) and not any(a[0] == f.name for a in c.targs) \
                            and [g2.name for g2 in c.fields].index(f.name) == i and any(g2.mask and g2.mask[0] == f.name for g2 in c.fields):
                        cands.append((c, f))
            if not cands:
                continue
            c, f = rng.choice(cands)
            used = sem_local_bits(s, c, f.name)
            free = [b for b in range(32) if b not in used]
            if not free:
                continue
            sib = set()
            fed = fed_types(s, c, f.name)
            for o in s.combs:
                if o is c:
                    continue
                for _, g2 in nat_fields(o):
                    if g2.name and fed_types(s, o, g2.name) & fed:
                        sib |= {x.mask[1] for x in o.fields if x.mask and x.mask[0] == g2.name}
            pref = [b for b in free if b in sib]
            c.fields.append(Field(new_field_name(rng, c, 0.0 if strict_masks else 0.5), g.scalar(), (f.name, rng.choice(pref if pref and rng.random() < 0.85 else free))))
        elif k == "field-targ":
            cands = [c for c in s.combs if not c.isfun and any(a[1] == "#" for a in c.targs)
                     and len(s.types()[c.tname]) == 1]
            if not cands:
                continue
            c = rng.choice(cands)
            idx = rng.choice([i for i, a in enumerate(c.targs) if a[1] == "#"])
            used = sem_targ_bits(s, c.tname, idx)
            free = [b for b in range(32) if b not in used]
            if not free or (strict_masks and not any(g.mask and g.mask[0] == c.targs[idx][0] for g in c.fields)):
                continue
            c.fields.append(Field(new_field_name(rng, c, 0.0 if strict_masks else 0.5), g.scalar(), (c.targs[idx][0], rng.choice(free))))
        elif k == "ctor-union":
            us = [t for t, cs in s.types().items() if len(cs) > 1]
            if not us:
                continue
            t = rng.choice(us)
            cs = s.types()[t]
            pos = s.combs.index(cs[-1]) + 1
            s.combs.insert(pos, Comb(f"{cs[0].name}x{rng.randrange(1000)}", t, copy.deepcopy(cs[0].targs), g.fields(0, 2, [], [], [])))
        elif k == "ctor-boxed":
            cands = [c for c in s.combs if not c.isfun and len(s.types()[c.tname]) == 1 and not c.targs
                     and not bare_used(s, c)]
            if not cands:
                continue
            c = rng.choice(cands)
            s.combs.insert(s.combs.index(c) + 1, Comb(f"{c.name}alt{rng.randrange(1000)}", c.tname, [], g.fields(0, 2, [], [], [])))
        elif k == "new-type":
            before = len(g.combs)
            g.add_type()
            s.combs += g.combs[before:]
        elif k == "new-fn":
            name = g.fresh("fn")
            fs = []
            if rng.random() < 0.8:
                fs = [Field("fm", T("#"))] + g.fields(0, 3, ["fm"], [], ["fm"], prefix="a")
            s.combs.append(Comb(name, "", [], fs, isfun=True, res=g.result_type()))
        elif k == "fn-mask":
            cands = [c for c in s.combs if c.isfun and not any(f.mask for f in c.fields) and not nat_fields(c)]
            if not cands:
                continue
            c = rng.choice(cands)
            c.fields.append(Field("newmask", T("#")))
            for i in range(rng.randrange(1, 3)):
                c.fields.append(Field(new_field_name(rng, c, 0.0 if strict_masks else 0.5), g.scalar(), ("newmask", rng.randrange(32))))
        kinds.append(k)
    return s, kinds


def bare_used(s, c):
    """is the single-constructor type of c referenced bare (%T) or through its constructor anywhere"""
    for o in s.combs:
        for t in o.all_types():
            for node in t.walk():
                if node.name == c.name or (node.name == c.tname and node.bare):
                    return True
    return False


def sem_targ_bits(s, tname, idx, seen=None):
    """bits of nat argument idx of type tname that mean something in some value: its layout, plus
    everything known about each nat that is passed into it"""
    seen = seen if seen is not None else set()
    if (tname, idx) in seen:
        return set()
    seen.add((tname, idx))
    bits = sem_layout_bits(s, tname, idx)
    ctor2type = {x.name: x.tname for x in s.combs if not x.isfun}
    for c in s.combs:
        for t in c.all_types():
            for node in t.walk():
                tn = ctor2type.get(node.name, node.name if node.name in s.types() else None)
                if tn != tname or idx >= len(node.args):
                    continue
                a = node.args[idx]
                if a.nat is not None or a.args:
                    continue
                if any(x[0] == a.name and x[1] == "#" for x in c.targs) and not c.isfun:
                    bits |= sem_targ_bits(s, c.tname, [x[0] for x in c.targs].index(a.name), seen)
                elif any(f.name == a.name for _, f in nat_fields(c)):
                    bits |= sem_local_bits(s, c, a.name)
    return bits


UNSAFE_KINDS = ["bit-reuse-targ", "rm-ctor", "rm-fn", "rm-field", "rm-targ", "ty-scalar", "ty-ref", "ty-bare", "ty-const", "ty-nested",
                "ty-rep", "mask-ref", "mask-bit", "mask-add", "mask-rm", "append-nomask", "bit-reuse", "bit-reuse-deep",
                "bare-to-union"]


def unsafe_edit(rng, s, kind):
    """one documented unsafe edit at a random position; returns new schema or None if not applicable"""
    s = s.copy()
    combs = s.combs
    types = s.types()

    def pick(l):
        return rng.choice(l) if l else None

    if kind == "rm-ctor":
        c = pick([c for c in combs if not c.isfun and not type_users(s, c)] or
                 [c for c in combs if not c.isfun and len(types[c.tname]) > 1])
        if not c:
            return None
        combs.remove(c)
    elif kind == "rm-fn":
        c = pick([c for c in combs if c.isfun])
        if not c:
            return None
        combs.remove(c)
    elif kind == "rm-field":
        cands = [(c, i) for c in combs for i, f in enumerate(c.fields)
                 if not any(g.mask and g.mask[0] == f.name for g in c.fields) and not passes_nat(c, f.name)]
        x = pick(cands)
        if not x:
            return None
        del x[0].fields[x[1]]
    elif kind == "rm-targ":
        cands = [c for c in combs if not c.isfun and c.targs and len(types[c.tname]) == 1]
        c = pick(cands)
        if not c:
            return None
        i = rng.randrange(len(c.targs))
        an = c.targs[i][0]
        del c.targs[i]
        # drop what depended on it, and the argument at every use
        c.fields = [f for f in c.fields if not (f.mask and f.mask[0] == an) and not (f.rep and f.rep[0] == an)
                    and not any(node.name == an for t in f.types() for node in t.walk())]
        for o in combs:
            for t in o.all_types():
                for node in t.walk():
                    if node.name in (c.name, c.tname) and len(node.args) > i:
                        del node.args[i]
    elif kind in ("ty-scalar", "ty-ref", "ty-bare", "ty-const", "ty-nested", "ty-rep"):
        cands = []
        for c in combs:
            for f in c.fields:
                if kind == "ty-rep":
                    if f.rep:
                        cands.append((c, f, f.rep[1]))
                    continue
                if f.rep or f.typ.name == "#":
                    continue
                for node in f.typ.walk():
                    top = node is f.typ
                    if kind == "ty-scalar" and top and node.name in SCALARS:
                        cands.append((c, f, node))
                    elif kind == "ty-nested" and not top and node.nat is None and node.name in SCALARS:
                        cands.append((c, f, node))
                    elif kind == "ty-ref" and node.nat is None and node.name in types and not node.args and not node.bare:
                        cands.append((c, f, node))
                    elif kind == "ty-bare" and node.nat is None and node.name in types and len(types[node.name]) == 1:
                        cands.append((c, f, node))
                    elif kind == "ty-const" and node.nat is not None:
                        cands.append((c, f, node))
            if c.isfun and kind in ("ty-scalar", "ty-nested") and c.res.name in SCALARS:
                cands.append((c, None, c.res))
        x = pick(cands)
        if not x:
            return None
        node = x[2]
        if kind == "ty-const":
            node.nat = node.nat + 1 + rng.randrange(3)
        elif kind == "ty-bare":
            node.bare = not node.bare
        elif kind == "ty-ref":
            others = [t for t, cs in types.items() if t != node.name and not cs[0].targs]
            if not others:
                return None
            node.name = rng.choice(others)
        else:
            node.name = rng.choice([x2 for x2 in SCALARS if x2 != node.name])
    elif kind in ("mask-ref", "mask-bit", "mask-rm"):
        cands = [(c, f) for c in combs for f in c.fields if f.mask]
        if kind == "mask-ref":
            cands = [(c, f) for c, f in cands
                     if [n for n in masks_before(c, f) if n != f.mask[0]]]
        x = pick(cands)
        if not x:
            return None
        c, f = x
        if kind == "mask-bit":
            f.mask = (f.mask[0], (f.mask[1] + 1 + rng.randrange(30)) % 32)
        elif kind == "mask-rm":
            f.mask = None
        else:
            f.mask = (rng.choice([n for n in masks_before(c, f) if n != f.mask[0]]), f.mask[1])
    elif kind == "mask-add":
        cands = [(c, f) for c in combs for f in c.fields if not f.mask and masks_before(c, f) and f.name]
        x = pick(cands)
        if not x:
            return None
        c, f = x
        f.mask = (rng.choice(masks_before(c, f)), rng.randrange(32))
    elif kind == "append-nomask":
        c = pick([c for c in combs if not c.isfun])
        if not c:
            return None
        c.fields.append(Field(f"nf{len(c.fields)}", T(rng.choice(SCALARS))))
    elif kind == "bit-reuse":
        cands = [(c, f) for c in combs for f in c.fields if f.mask]
        x = pick(cands)
        if not x:
            return None
        c, f = x
        c.fields.append(Field(f"nf{len(c.fields)}", T(rng.choice(SCALARS)), f.mask))
    elif kind == "bit-reuse-deep":
        # a bit that only means something inside a type the mask is passed to
        cands = []
        for c in combs:
            for i, f in nat_fields(c):
                if not f.name:
                    continue
                direct = {g.mask[1] for g in c.fields if g.mask and g.mask[0] == f.name}
                deep = sem_local_bits(s, c, f.name) - direct
                if deep:
                    cands.append((c, f, sorted(deep)))
        x = pick(cands)
        if not x:
            return None
        c, f, deep = x
        bit = rng.choice(deep)
        # is the bit visible without looking inside repetitions (the linter does not look there)
        s.detail = [] if bit in sem_local_bits(s, c, f.name, skip_rep=True) else ["rep"]
        c.fields.append(Field(f"nf{len(c.fields)}", T(rng.choice(SCALARS)), (f.name, bit)))
    elif kind == "bit-reuse-targ":
        # template-argument mask: a bit that means something one or more type levels below
        cands = []
        for c in combs:
            if c.isfun or len(types[c.tname]) != 1:
                continue
            for idx, a in enumerate(c.targs):
                if a[1] != "#":
                    continue
                direct = {g.mask[1] for g in c.fields if g.mask and g.mask[0] == a[0]}
                deep = sem_layout_bits(s, c.tname, idx) - direct
                if deep:
                    cands.append((c, idx, sorted(deep)))
        x = pick(cands)
        if not x:
            return None
        c, idx, deep = x
        bit = rng.choice(deep)
        s.detail = [] if bit in sem_layout_bits(s, c.tname, idx, None, True) else ["rep"]
        c.fields.append(Field(f"nf{len(c.fields)}", T(rng.choice(SCALARS)), (c.targs[idx][0], bit)))
    elif kind == "bare-to-union":
        cands = [c for c in combs if not c.isfun and len(types[c.tname]) == 1 and not c.targs and bare_used(s, c)]
        c = pick(cands)
        if not c:
            return None
        combs.insert(combs.index(c) + 1, Comb(f"{c.name}alt{rng.randrange(1000)}", c.tname, [], []))
        # the new schema has to stay acceptable on its own: a union cannot be referenced bare
        s.detail = set()
        for o in combs:
            for f in o.fields:
                for t in f.types():
                    for node in t.walk():
                        if node.name == c.name or (node.name == c.tname and node.bare):
                            s.detail.add("rep" if f.rep else ("top" if node is t else "deep"))
            for t in o.all_types():
                for node in t.walk():
                    if node.name == c.name:
                        node.name = c.tname
                    if node.name == c.tname:
                        node.bare = False
    else:
        raise ValueError(kind)
    return s


def masks_before(c, f):
    """names usable as a field mask for field f of c"""
    names = [a[0] for a in c.targs if a[1] == "#"]
    for g in c.fields:
        if g is f:
            break
        if g.typ is not None and g.typ.name == "#" and not g.rep and g.name:
            names.append(g.name)
    return names


# --------------------------------------------------------------------------- a bare-used type becomes a union, nothing else changes

UNION_USAGE_KINDS = ["union-ctor-by-name", "union-ctor-by-name", "union-ctor-by-name", "union-pct-type", "union-pct-ctor"]


def union_by_usage_pair(rng, kind):
    """(old text, new text, where): a single-constructor type whose ONLY usages are bare -- by its lower-case
    constructor name (kind union-ctor-by-name), as %Type or as %ctor (the controls) -- at one of the positions the
    linter inspects (a field, the first type argument at any depth, a function argument, a function result), in a
    combinator placed anywhere in the schema; the new schema only adds a second constructor.  tlgen itself refuses
    a schema that references a union constructor, so these pairs go to CheckBackwardCompatibility directly, the way
    the repository's unit test calls it (harness op 'direct')."""
    g = Gen(rng)
    s = g.schema(ntypes=rng.randrange(1, 5), nfuns=rng.randrange(0, 3))
    n = rng.randrange(1000)
    ns = rng.choice(["", "", "svc."])
    ctor, typ = f"{ns}integer{n}", f"{ns}Integer{n}"
    tgt = Comb(ctor, typ, [], [Field("value", T("int"))] if rng.random() < 0.8 else [])

    def ref():
        if kind == "union-ctor-by-name":
            return T(ctor)
        if kind == "union-pct-type":
            return T(typ, bare=True)
        return T(ctor, bare=True)

    def wrap(t, depth):
        for _ in range(depth):   # always the FIRST type argument: the only one checkBoxUsage descends into
            w = rng.choice(["vector", "Vector", "tuple"])
            t = T(w, [t, T(nat=rng.randrange(1, 4))] if w == "tuple" else [t], bare=(w == "Vector" and rng.random() < 0.3))
        return t

    where = rng.choice(["field", "field-last", "nested", "nested2", "fn-arg", "fn-arg-nested", "fn-result"])
    depth = {"nested": 1, "nested2": 2, "fn-arg-nested": 1}.get(where, 0)
    users = []
    if where.startswith("fn-arg"):
        users.append(Comb(f"getHolder{n}", "", [], [Field("q", g.scalar()), Field("x", wrap(ref(), depth))], isfun=True, res=T("Int")))
    elif where == "fn-result":
        users.append(Comb(f"getHolder{n}", "", [], [Field("q", g.scalar())], isfun=True, res=T("Vector", [wrap(ref(), rng.randrange(0, 2))])))
    else:
        fs = [Field("a", g.scalar()), Field("b", wrap(ref(), depth))]
        if where == "field-last":
            fs = [Field("a", g.scalar()), Field("m", T("#")), Field("c", g.scalar(), ("m", rng.randrange(32))), Field("b", wrap(ref(), depth))]
        users.append(Comb(f"holder{n}", f"Holder{n}", [], fs))
    if rng.random() < 0.3:   # a second, boxed usage elsewhere does not make the change safe
        users.append(Comb(f"other{n}", f"Other{n}", [], [Field("z", T(typ))]))
    old = s.copy()
    for c in [tgt] + users:   # anywhere in the schema, declaration before or after the usage
        old.combs.insert(rng.randrange(len(old.combs) + 1), c)
    new = old.copy()
    alt = Comb(f"{ctor}alt", typ, [], [Field("other", T("long"))] if rng.random() < 0.5 else [])
    i = [c.name for c in new.combs].index(ctor)
    new.combs.insert(rng.choice([i + 1, len(new.combs)]), alt)
    return old.tl(), new.tl(), where


# --------------------------------------------------------------------------- a mask / nat source moved between template argument #k and field #k

MASK_SOURCE_VARIANTS = ["mask", "mask-rev", "inner", "size"]


def mask_source_pair(rng, k, variant):
    """(old text, new text): a type with nat template arguments #0..#k and a `#` field at field index k; ONE reference
    is re-pointed from the field to the template argument with the same index (variant mask: a field mask; mask-rev:
    the other direction; inner: a nat passed to a nat-templated type; size: a tuple size), nothing else changes.
    All tags explicit (an implicit tag would move with the declaration text); a holder and a function instantiate the
    type with constants so that generated code has top-level objects whose encodings show the difference."""
    g = Gen(rng)
    s = g.schema(ntypes=rng.randrange(0, 3), nfuns=rng.randrange(0, 2))
    n = rng.randrange(1000)
    targs = [(f"n{i}", "#") for i in range(k + 1)]
    fk, nk = f"f{k}", f"n{k}"
    fs = [Field(f"f{i}", T(rng.choice(["int", "long", "#"]))) for i in range(k)] + [Field(fk, T("#"))]
    extra = []
    if variant in ("mask", "mask-rev"):
        b1, b2 = rng.sample(range(8), 2)
        fs += [Field("x", T("int"), (fk, b1)), Field("y", T("long"), (nk, b2))]
        edit = ("x", nk) if variant == "mask" else ("y", fk)
    elif variant == "inner":
        inner = Comb(f"inr{n}", f"Inr{n}", [("m", "#")], [Field("w", T("int"), ("m", rng.randrange(8)))])
        extra.append(inner)
        fs += [Field("x", T(f"inr{n}", [T(fk)])), Field("y", T(f"inr{n}", [T(nk)]))]
        edit = ("x", nk)
    else:
        fs += [Field("x", T("tuple", [T("int"), T(fk)])), Field("y", T("tuple", [T("long"), T(nk)]))]
        edit = ("x", nk)
    foo = Comb(f"foo{n}", f"Foo{n}", targs, fs)

    def inst():
        return T(rng.choice([f"foo{n}", f"Foo{n}"]), [T(nat=rng.choice([0, 0, 1, 2, 5])) for _ in range(k + 1)])

    users = [Comb(f"hold{n}", f"Hold{n}", [], [Field("a", inst()), Field("b", inst()), Field("c", g.scalar())]),
             Comb(f"getFoo{n}", "", [], [Field("q", inst())], isfun=True, res=T("Int"))]
    old = s.copy()
    block = extra + [foo] + users
    if rng.random() < 0.5:
        block = users + [foo] + extra
    pos = rng.randrange(len(old.combs) + 1)
    old.combs[pos:pos] = block
    for c in old.combs:
        c.tag = rng.randrange(1, 1 << 32)
    new = old.copy()
    nfoo = new.by_name(f"foo{n}")
    for f in nfoo.fields:
        if f.name == edit[0]:
            if f.mask:
                f.mask = (edit[1], f.mask[1])
            else:
                f.typ.args = [T(edit[1]) if (a.nat is None and a.name in (fk, nk)) else a for a in f.typ.args]
    return old.tl(), new.tl()


# --------------------------------------------------------------------------- harness plumbing

def lint_harness(ctx):
    """build (once per run) the overlay test binary of cmd/tlgen and the real tlgen binary"""
    if getattr(ctx, "_lint_h", None) is None:
        b, err = build_overlay_test("cmd/tlgen", {"verif_lint_test.go": OVERLAY_TLGEN}, ctx.scratch)
        ctx._lint_h = (b, err)
    return ctx._lint_h


def tlgen_binary(ctx):
    if getattr(ctx, "_tlgen_bin", None) is None:
        out = Path(ctx.scratch) / "tlgen.bin"
        rc, so, se = sh(["go", "build", "-o", str(out), "./cmd/tlgen"], cwd=REPO, env=goenv(), timeout=900)
        ctx._tlgen_bin = (out if rc == 0 else None, so + se)
    return ctx._tlgen_bin


def write_pairs(ctx, pairs, sub="pairs"):
    """pairs: list of (old text, new text); returns list of (old path, new path)"""
    d = Path(ctx.scratch) / sub
    d.mkdir(parents=True, exist_ok=True)
    res = []
    for i, (o, n) in enumerate(pairs):
        po, pn = d / f"p{i}_old.tl", d / f"p{i}_new.tl"
        po.write_text(o)
        pn.write_text(n)
        res.append((str(po), str(pn)))
    return res


def run_harness(ctx, op_lines, name="TestVerifLint"):
    b, err = lint_harness(ctx)
    if not b:
        return None, err
    rc, res, log_ = run_overlay_test(b, name, op_lines, ctx.scratch)
    if rc != 0 or len(res) != len(op_lines):
        return None, f"overlay harness exit {rc}, {len(res)}/{len(op_lines)} results: {log_[-800:]}"
    return [r.split("\t") for r in res], ""


CLI_CLASSES = [
    ("this constructor can't be removed", "ctor-removed"), ("any constructors for type", "ctors-removed"),
    ("and its bare usage here", "union-bare"), ("and its usage by constructor here", "union-ctor"),
    ("this function can't be removed", "fn-removed"),
    ("new functions with arguments must have as a first argument", "newfn-first"),
    ("new version of combinator can't have less fields", "less-fields"),
    ("new version of combinator can't have less template arguments", "less-targs"),
    ("this reference changed to different source", "ref-changed"),
    ("arguments were removed in compare with original source", "ref-changed"),   # F3 repair (commit 85427fb6): same class in the model
    ("arguments change its types or values", "arg-changed"),
    ("you can't add fieldmask to a field", "mask-added"), ("you can't remove fieldmask to a field", "mask-removed"),
    ("can't change reference used as a fieldmask", "mask-ref"), ("can't bit in fieldmask", "mask-bit"),
    ("to append arguments for this method", "fn-append-nat"), ("can't append only one unused fieldmask", "fn-unused-mask"),
    ("only allowed case to append new # field without fieldmask", "fn-newmask-unused"),
    ("new fields must have a field mask due to", "new-nomask"),
    ("new fields must have a field mask and a bit that is not used", "bit-used"),
    ("this field mask can't be used because all bits", "all-bits-used"),
]


def cli_verdict(ctx, old, new):
    """the real tlgen binary: `tlgen --schema-to-compare=old new` (language empty = linter)"""
    binp, err = tlgen_binary(ctx)
    if not binp:
        return "build-error " + err[-200:]
    rc, so, se = sh([str(binp), "--schema-to-compare=" + old, new], timeout=120)
    out = so + se
    if "panic:" in out:
        return "crash"
    if rc != 0:
        return "error"
    if "RESULT: New version is backward compatible with passed schema" in out:
        return "accept -"
    for sub, cl in CLI_CLASSES:
        if sub in out:
            return "reject " + cl
    return "reject unknown"


def go_verdict_line(f):
    """normalised verdict of a harness result (fields: verdict, class, old dump, new dump)"""
    if f[0] == "accept":
        return "accept"
    if f[0] == "reject":
        return "reject " + f[1]
    if f[0] == "crash":
        return "crash"
    return f[0]


# --------------------------------------------------------------------------- which model variant is the code? (F2 / F3 / repeat)

PROBES = {
    "F2": ("int#a8509bda ? = Int;\nfoo#11111111 a:int = Foo;\nbar#22222222 x:%Foo y:int = Bar;\n",
           "int#a8509bda ? = Int;\nfoo#11111111 a:int = Foo;\nbar#22222222 x:Foo y:int = Bar;\n"),
    "F3": ("int#a8509bda ? = Int;\na#11111111 p:(pair int int) = A;\npair#22222222 {X:Type} {Y:Type} x:X y:Y = Pair X Y;\n",
           "int#a8509bda ? = Int;\na#11111111 p:(pair int) = A;\npair#22222222 {X:Type} x:X = Pair X;\n"),
    "REP": ("int#a8509bda ? = Int;\nlong#22076cba ? = Long;\na#11111111 n:# x:n*[int] = A;\n",
            "int#a8509bda ? = Int;\nlong#22076cba ? = Long;\na#11111111 n:# x:n*[long] = A;\n"),
}
PROBE_SIGS = {"F2": "C30:F2:bare-flag", "F3": "C30:F3:args-index-panic", "REP": "C30:repeat-contents"}


def probe_variant(ctx):
    """run the three witness pairs on the real linter; returns (variant flags 'bar' 'args' 'rep' as a 3-char
    string for the model driver, {name: harness fields}) -- '0' = defect present (code as of the first round)"""
    if getattr(ctx, "_lint_probe", None) is None:
        paths = write_pairs(ctx, [PROBES[k] for k in ("F2", "F3", "REP")], sub="probes")
        res, err = run_harness(ctx, [f"pair\t{o}\t{n}" for o, n in paths])
        if res is None:
            ctx._lint_probe = (None, err)
        else:
            flags = ""
            for f in res:
                flags += "1" if f[0] == "reject" else "0"
            ctx._lint_probe = (flags, dict(zip(("F2", "F3", "REP"), zip(paths, res))))
    return ctx._lint_probe


def sample_pairs():
    proto = SAMPLES / "prototype.tl"
    cor = sorted((SAMPLES / "correct-changes").glob("*.tl"))
    inc = sorted((SAMPLES / "incorrect-changes").glob("*.tl"))
    return proto, cor, inc


def build_lint_ops(ctx, items, variant):
    """items: list of (kind, mode, old path, new path, data) with mode 'pair' | 'direct'.
    Runs the harness; returns (ops, go_out, dropped) with ops = (op line, kind, data)."""
    res, err = run_harness(ctx, [f"{mode}\t{o}\t{n}" for _, mode, o, n, _ in items])
    if res is None:
        return None, err, None
    ops, go, dropped = [], [], {}
    for (kind, mode, o, n, data), f in zip(items, res):
        if f[0] not in ("accept", "reject", "crash"):
            key = f"{kind.split(':')[0]}:{f[0]}"
            dropped[key] = dropped.get(key, 0) + 1
            continue
        d = dict(data or {})
        d.update({"old": o, "new": n, "mode": mode, "class": f[1]})
        ops.append((f"lint {variant} {f[2]} {f[3]}", kind, d))
        go.append(go_verdict_line(f))
    return ops, go, dropped
