//go:build verif

// Add-only overlay harness for the Lint family (C24, C28, C29, C30); package main of cmd/tlgen.
//
// It drives the *real* entry point of the legacy generator, runMain (the function main() calls
// after flag parsing), in linter mode and reports the verdict it prints; and it is the trusted
// translator that shows the model what the linter sees: the two combinator lists exactly as
// runCompatibilityCheck passes them to tlcodegen.CheckBackwardCompatibility, printed as
// S-expressions (names, tags, template arguments, fields with masks, type expressions).
//
// ops (one per line, tab separated):
//
//	pair <old.tl> <new.tl>   ->  <verdict> \t <class> \t <sexp old> \t <sexp new>
//	direct <old.tl> <new.tl> ->  same, CheckBackwardCompatibility called as the repo's unit test does
//	tags <schema.tl>         ->  <verdict> \t <class> \t <tag list>
package main

import (
	"bufio"
	"bytes"
	"flag"
	"fmt"
	"log"
	"os"
	"strings"
	"testing"

	"github.com/VKCOM/tl/internal/tlast"
	"github.com/VKCOM/tl/internal/tlcodegen"
)

// ---- S-expression dump (atoms are separated by blanks; strings carry a leading ')

func vAtom(s string) string {
	s = strings.NewReplacer(" ", "_", "\t", "_", "\n", "_", "(", "{", ")", "}").Replace(s)
	return "'" + s
}

func vBool(b bool) string {
	if b {
		return "1"
	}
	return "0"
}

func vTypeRef(sb *strings.Builder, t *tlast.TypeRef) {
	fmt.Fprintf(sb, "( t %s %s", vAtom(t.Type.String()), vBool(t.Bare))
	for i := range t.Args {
		a := &t.Args[i]
		if a.IsArith {
			fmt.Fprintf(sb, " ( n %d )", a.Arith.Res)
		} else {
			sb.WriteString(" ")
			vTypeRef(sb, &a.T)
		}
	}
	sb.WriteString(" )")
}

func vRep(f *tlast.Field) string {
	if !f.IsRepeated {
		return ""
	}
	// what is between the field name and the end of the field, as the parser's printer shows it
	s := "rep:"
	if f.ScaleRepeat.ExplicitScale {
		if f.ScaleRepeat.Scale.IsArith {
			s += fmt.Sprintf("%d", f.ScaleRepeat.Scale.Arith.Res)
		} else {
			s += f.ScaleRepeat.Scale.Scale
		}
	}
	s += "*["
	for i := range f.ScaleRepeat.Rep {
		if i != 0 {
			s += ","
		}
		s += f.ScaleRepeat.Rep[i].String()
	}
	return s + "]"
}

func vComb(sb *strings.Builder, c *tlast.Combinator) {
	fmt.Fprintf(sb, "( c %s %d %s %s ( ", vAtom(c.Construct.Name.String()), c.Construct.ID, vBool(c.Builtin), vBool(c.IsFunction))
	for _, a := range c.TemplateArguments {
		fmt.Fprintf(sb, "( a %s %s ) ", vAtom(a.FieldName), vBool(a.IsNat))
	}
	sb.WriteString(") ( ")
	for i := range c.Fields {
		f := &c.Fields[i]
		fmt.Fprintf(sb, "( f %s ", vAtom(f.FieldName))
		if f.Mask == nil {
			sb.WriteString("- ")
		} else {
			fmt.Fprintf(sb, "( m %s %d ) ", vAtom(f.Mask.MaskName), f.Mask.BitNumber)
		}
		fmt.Fprintf(sb, "%s ", vAtom(vRep(f)))
		vTypeRef(sb, &f.FieldType)
		sb.WriteString(" ) ")
	}
	fmt.Fprintf(sb, ") %s ", vAtom(c.TypeDecl.Name.String()))
	vTypeRef(sb, &c.FuncDecl)
	sb.WriteString(" )")
}

func vSchema(tl []*tlast.Combinator) string {
	var sb strings.Builder
	sb.WriteString("(")
	for _, c := range tl {
		sb.WriteString(" ")
		vComb(&sb, c)
	}
	sb.WriteString(" )")
	return sb.String()
}

// ---- running the real thing

var vLintMessages = []struct{ sub, class string }{
	{"this constructor can't be removed", "ctor-removed"},
	{"any constructors for type", "ctors-removed"},
	{"and its bare usage here", "union-bare"},
	{"and its usage by constructor here", "union-ctor"},
	{"this function can't be removed", "fn-removed"},
	{"new functions with arguments must have as a first argument", "newfn-first"},
	{"new version of combinator can't have less fields", "less-fields"},
	{"new version of combinator can't have less template arguments", "less-targs"},
	{"this reference changed to different source", "ref-changed"},
	{"arguments were removed in compare with original source", "ref-changed"}, // F3 repair (commit 85427fb6)
	{"arguments change its types or values", "arg-changed"},
	{"you can't add fieldmask to a field", "mask-added"},
	{"you can't remove fieldmask to a field", "mask-removed"},
	{"can't change reference used as a fieldmask", "mask-ref"},
	{"can't bit in fieldmask", "mask-bit"},
	{"to append arguments for this method", "fn-append-nat"},
	{"can't append only one unused fieldmask", "fn-unused-mask"},
	{"only allowed case to append new # field without fieldmask", "fn-newmask-unused"},
	{"new fields must have a field mask due to", "new-nomask"},
	{"new fields must have a field mask and a bit that is not used", "bit-used"},
	{"this field mask can't be used because all bits", "all-bits-used"},
}

// vRunMain runs tlgen's runMain with the given command line, capturing everything it prints.
func vRunMain(args []string) (out string, err error, panicked string) {
	var buf bytes.Buffer
	oldLog := log.Writer()
	log.SetOutput(&buf)
	oldArgs, oldCL := os.Args, flag.CommandLine
	defer func() {
		log.SetOutput(oldLog)
		os.Args, flag.CommandLine = oldArgs, oldCL
		if r := recover(); r != nil {
			panicked = fmt.Sprint(r)
			out = buf.String()
		}
	}()
	flag.CommandLine = flag.NewFlagSet("tlgen", flag.ContinueOnError)
	flag.CommandLine.SetOutput(&buf)
	os.Args = append([]string{"tlgen"}, args...)
	var opt tlcodegen.Gen2Options
	parseFlags(&opt)
	opt.ErrorWriter = &buf
	err = runMain(&opt)
	if err != nil {
		if pe, ok := err.(*tlast.ParseError); ok {
			pe.ConsolePrint(&buf, err, false)
		} else {
			buf.WriteString(err.Error())
		}
	}
	return buf.String(), err, ""
}

func vOneLine(s string) string {
	var sb strings.Builder
	esc := false
	for _, r := range s { // drop ANSI colour sequences
		if esc {
			if r == 'm' {
				esc = false
			}
			continue
		}
		if r == 0x1b {
			esc = true
			continue
		}
		if r == '\n' || r == '\t' || r == '\r' {
			r = ' '
		}
		sb.WriteRune(r)
	}
	return strings.Join(strings.Fields(sb.String()), " ")
}

// vParseLikeMain gives the combinator list of a schema the way runMain holds it when it
// reaches runCompatibilityCheck: parsed by parseTlFile, order indices set, and passed through
// GenerateCode (which replaces builtin wrappers inside the caller's slice).
func vParseLikeMain(path string, generate bool) ([]*tlast.Combinator, error) {
	tl, err := parseTlFile(path, true)
	if err != nil {
		return nil, err
	}
	ast := tl.Combinators()
	if !generate {
		return ast, nil
	}
	for i := range ast {
		ast[i].OriginalOrderIndex = i
	}
	var buf bytes.Buffer
	opt := tlcodegen.Gen2Options{ErrorWriter: &buf, TypesWhiteList: "*", UseCheckLengthSanity: true}
	if _, err := tlcodegen.GenerateCode(ast, tlast.TL2File{}, opt); err != nil {
		return nil, err
	}
	return ast, nil
}

func vPair(oldPath, newPath string) string {
	// 1. each schema on its own (the property is about schemas the generator accepts)
	if out, err, p := vRunMain([]string{oldPath}); err != nil || p != "" {
		return "invalid-old\t" + vOneLine(out+" "+p) + "\t-\t-"
	}
	if out, err, p := vRunMain([]string{newPath}); err != nil || p != "" {
		return "invalid-new\t" + vOneLine(out+" "+p) + "\t-\t-"
	}
	// 2. the real linter run
	out, err, p := vRunMain([]string{"--schema-to-compare=" + oldPath, newPath})
	verdict, class := "", "-"
	switch {
	case p != "":
		verdict, class = "crash", vOneLine(p)
	case err != nil:
		verdict, class = "error", vOneLine(out)
	case strings.Contains(out, "RESULT: New version is backward compatible with passed schema"):
		verdict = "accept"
	default:
		verdict, class = "reject", "unknown-message:"+vOneLine(out)
		for _, m := range vLintMessages {
			if strings.Contains(out, m.sub) {
				class = m.class
				break
			}
		}
	}
	// 3. what the linter was given
	oldAst, e1 := vParseLikeMain(oldPath, false)
	newAst, e2 := vParseLikeMain(newPath, true)
	if e1 != nil || e2 != nil {
		return "dump-error\t" + fmt.Sprint(e1, e2) + "\t-\t-"
	}
	return verdict + "\t" + class + "\t" + vSchema(oldAst) + "\t" + vSchema(newAst)
}

// vDirect calls the linter the way the repository's own unit test does
// (internal/tlcodegen/test/codegen_test/linter): both files parsed, nothing else.
func vDirect(oldPath, newPath string) (res string) {
	read := func(p string) (*tlast.TL, error) {
		data, err := os.ReadFile(p)
		if err != nil {
			return nil, err
		}
		return tlast.ParseTLFile(string(data), p, tlast.LexerOptions{AllowBuiltin: false, AllowDirty: false})
	}
	o, e1 := read(oldPath)
	n, e2 := read(newPath)
	if e1 != nil || e2 != nil {
		return "parse-error\t" + vOneLine(fmt.Sprint(e1, e2)) + "\t-\t-"
	}
	dump := vSchema(o.Combinators()) + "\t" + vSchema(n.Combinators())
	defer func() {
		if r := recover(); r != nil {
			res = "crash\t" + vOneLine(fmt.Sprint(r)) + "\t" + dump
		}
	}()
	pe := tlcodegen.CheckBackwardCompatibility(n.Combinators(), o.Combinators())
	if pe == nil {
		return "accept\t-\t" + dump
	}
	class := "unknown-message:" + vOneLine(pe.Error())
	for _, m := range vLintMessages {
		if strings.Contains(pe.Error(), m.sub) {
			class = m.class
			break
		}
	}
	return "reject\t" + class + "\t" + dump
}

func vTags(path string) string {
	tl, err := parseTlFile(path, true)
	if err != nil {
		return "parse-error\t" + vOneLine(err.Error()) + "\t-"
	}
	var sb strings.Builder
	for i, c := range tl.Combinators() {
		if i != 0 {
			sb.WriteString(",")
		}
		kind := "c"
		if c.IsFunction {
			kind = "f"
		}
		fmt.Fprintf(&sb, "1%s:%s:%d", kind, vAtom(c.Construct.Name.String()), c.Crc32())
	}
	if sb.Len() == 0 {
		sb.WriteString("-")
	}
	out, err, p := vRunMain([]string{path})
	switch {
	case p != "":
		return "crash\t" + vOneLine(p) + "\t" + sb.String()
	case err == nil:
		return "ok\t-\t" + sb.String()
	}
	msg := vOneLine(out)
	if strings.Contains(msg, "constructor tag 0 is prohibited") {
		return "zero\t" + msg + "\t" + sb.String()
	}
	if strings.Contains(msg, "constructor tag #") && strings.Contains(msg, "is used again by") {
		return "dup\t" + msg + "\t" + sb.String()
	}
	return "other\t" + msg + "\t" + sb.String()
}

func TestVerifLint(t *testing.T) {
	in, err := os.Open(os.Getenv("VERIF_OPS"))
	if err != nil {
		t.Fatal(err)
	}
	defer in.Close()
	outf, err := os.Create(os.Getenv("VERIF_OUT"))
	if err != nil {
		t.Fatal(err)
	}
	defer outf.Close()
	w := bufio.NewWriter(outf)
	defer w.Flush()
	sc := bufio.NewScanner(in)
	sc.Buffer(make([]byte, 1<<20), 1<<26)
	for sc.Scan() {
		f := strings.Split(sc.Text(), "\t")
		switch {
		case len(f) == 3 && f[0] == "pair":
			fmt.Fprintln(w, vPair(f[1], f[2]))
		case len(f) == 3 && f[0] == "direct":
			fmt.Fprintln(w, vDirect(f[1], f[2]))
		case len(f) == 2 && f[0] == "tags":
			fmt.Fprintln(w, vTags(f[1]))
		default:
			fmt.Fprintln(w, "driver-error\tunknown op\t-\t-")
		}
	}
}
