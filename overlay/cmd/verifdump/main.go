//go:build verif

// verifdump: translator T-schema. Runs the real kernel (internal/pure) on schema files and
// prints the resolved type instances as JSON (the schema IR of the Coq model, DESIGN.md M2).
// Add-only: injected with `go build -overlay`, never present in /repo.
package main

import (
	"encoding/json"
	"flag"
	"fmt"
	"os"

	"github.com/VKCOM/tl/internal/pure"
)

type NatArg struct {
	Kind  string `json:"kind"` // num | field | param
	Value uint32 `json:"value"`
	Name  string `json:"name,omitempty"`
}

type Field struct {
	Name    string   `json:"name"`
	Type    int      `json:"type"`
	Bare    bool     `json:"bare"`
	Mask    *NatArg  `json:"mask"`
	Bit     uint32   `json:"bit"`
	NatArgs []NatArg `json:"natArgs"`
	TL2Bit  *int     `json:"tl2bit"`
	IsBit   bool     `json:"isBit"`
}

type Instance struct {
	ID         int      `json:"id"`
	Kind       string   `json:"kind"` // prim | struct | union | array | dict
	Name       string   `json:"name"`
	TLName     string   `json:"tlName"`
	Tag        uint32   `json:"tag"`
	NatParams  []string `json:"natParams"`
	TopLevel   bool     `json:"topLevel"`
	HasTL2     bool     `json:"hasTL2"`
	OriginTL2  bool     `json:"originTL2"`
	BoxedOnly  bool     `json:"boxedOnly"`
	MapKey     bool     `json:"goodForMapKey"`
	Fields     []Field  `json:"fields,omitempty"`
	UnionElem  bool     `json:"isUnionElement,omitempty"`
	UnionIndex int      `json:"unionIndex,omitempty"`
	IsTypedef  bool     `json:"isTypedef,omitempty"`
	IsAlias    bool     `json:"isAlias,omitempty"`
	IsUnwrap   bool     `json:"isUnwrap,omitempty"`
	IsFunction bool     `json:"isFunction,omitempty"`
	Result     *Field   `json:"result,omitempty"`
	Variants   []int    `json:"variants,omitempty"`
	VarNames   []string `json:"variantNames,omitempty"`
	IsEnum     bool     `json:"isEnum,omitempty"`
	IsMaybe    bool     `json:"isMaybe,omitempty"`
	ElemArgs   []NatArg `json:"elementNatArgs,omitempty"`
	IsTuple    bool     `json:"isTuple,omitempty"`
	Dynamic    bool     `json:"dynamicSize,omitempty"`
	Count      uint32   `json:"count,omitempty"`
	Elem       *Field   `json:"elem,omitempty"`
	FixedSize  int      `json:"fixedSize,omitempty"`
	FalseTag   uint32   `json:"falseTag,omitempty"`
	TrueTag    uint32   `json:"trueTag,omitempty"`
	// added for the Reg family (C17): annotation names of the kernel type, and (on instance 0 only)
	// the kernel's annotation table (position = bit of the generated Annotations mask)
	Annotations    []string `json:"annotations,omitempty"`
	AllAnnotations []string `json:"allAnnotations,omitempty"`
}

func main() {
	var opt pure.OptionsKernel
	opt.Bind(flag.CommandLine)
	outPath := flag.String("dumpOut", "", "where to write the JSON dump")
	// added for the Json family (C05/C06): the Go generator sets OptionsKernel.InstantiateConstants (constant nat
	// arguments become part of the instance: `tuple int 4` is the fixed array [4]int32, which has its own JSON rules)
	instConst := flag.Bool("instantiateConstants", false, "resolve instances as the Go generator does (constants instantiated)")
	flag.Parse()
	opt.InstantiateConstants = *instConst
	opt.ErrorWriter = os.Stderr
	k := pure.NewKernel(&opt)
	if err := k.AddFilesFromPaths(flag.Args()); err != nil {
		fmt.Fprintln(os.Stderr, err)
		os.Exit(1)
	}
	if err := k.Compile(); err != nil {
		fmt.Fprintln(os.Stderr, err)
		os.Exit(1)
	}
	all := k.AllTypeInstances()
	ids := map[pure.TypeInstance]int{}
	for i, ins := range all {
		ids[ins] = i
	}
	// some instances (e.g. variants of Maybe) are reachable but not listed: add them
	for i := 0; i < len(all); i++ {
		var ch []pure.TypeInstance
		ch = all[i].GetChildren(ch, true)
		if u, ok := all[i].(*pure.TypeInstanceUnion); ok {
			for _, v := range u.VariantTypes() {
				ch = append(ch, v)
			}
		}
		for _, c := range ch {
			if c == nil {
				continue
			}
			if _, ok := ids[c]; !ok {
				ids[c] = len(all)
				all = append(all, c)
			}
		}
	}
	id := func(ins pure.TypeInstance) int {
		if v, ok := ids[ins]; ok {
			return v
		}
		return -1
	}
	na := func(a pure.ActualNatArg) NatArg {
		switch {
		case a.IsNumber():
			return NatArg{Kind: "num", Value: a.Number()}
		case a.IsField():
			return NatArg{Kind: "field", Value: uint32(a.FieldIndex()), Name: a.NatParamName()}
		default:
			return NatArg{Kind: "param", Value: uint32(a.FieldIndex()), Name: a.NatParamName()}
		}
	}
	nas := func(l []pure.ActualNatArg) []NatArg {
		r := []NatArg{}
		for _, a := range l {
			r = append(r, na(a))
		}
		return r
	}
	fld := func(f pure.Field) Field {
		r := Field{Name: f.Name(), Type: id(f.TypeInstance()), Bare: f.Bare(), Bit: f.BitNumber(),
			NatArgs: nas(f.NatArgs()), TL2Bit: f.MaskTL2Bit(), IsBit: f.IsBit()}
		if f.FieldMask() != nil {
			m := na(*f.FieldMask())
			r.Mask = &m
		}
		return r
	}
	var out []Instance
	for i, ins := range all {
		c := ins.Common()
		x := Instance{ID: i, Name: ins.CanonicalName(), TLName: c.TLName().String(), Tag: c.TLTag(),
			NatParams: append([]string{}, c.NatParams()...), TopLevel: c.IsTopLevel(), HasTL2: c.HasTL2(),
			OriginTL2: c.OriginTL2(), BoxedOnly: ins.BoxedOnly(), MapKey: ins.GoodForMapKey()}
		if i == 0 {
			x.AllAnnotations = append([]string{}, k.AllAnnotations()...)
		}
		if kt := ins.KernelType(); kt != nil {
			// the RAW declared list (declaration order), not HasAnnotation: the dump must not share the
			// generator's lookup code
			x.Annotations = append([]string{}, kt.Annotations()...)
		}
		switch t := ins.(type) {
		case *pure.TypeInstancePrimitive:
			x.Kind = "prim"
			_, x.FalseTag, x.TrueTag = t.IsTL1Bool()
		case *pure.TypeInstanceStruct:
			x.Kind = "struct"
			x.Fields = []Field{}
			for _, f := range t.Fields() {
				x.Fields = append(x.Fields, fld(f))
			}
			x.UnionElem, x.UnionIndex = t.IsUnionElement(), t.UnionIndex()
			x.IsTypedef, x.IsAlias, x.IsUnwrap = t.IsTypedef(), t.IsAlias(), t.IsUnwrap()
			if t.ResultType() != nil {
				x.IsFunction = true
				x.Result = &Field{Type: id(t.ResultType()), Bare: t.ResultTypeBare(), NatArgs: nas(t.ResultNatArgs())}
			}
		case *pure.TypeInstanceUnion:
			x.Kind = "union"
			for _, v := range t.VariantTypes() {
				x.Variants = append(x.Variants, id(v))
			}
			x.VarNames = t.VariantNames()
			x.IsEnum = t.IsEnum()
			x.IsMaybe, _ = t.IsUnionMaybe()
			x.ElemArgs = nas(t.ElementNatArgs())
		case *pure.TypeInstanceArray:
			x.Kind = "array"
			x.IsTuple, x.Dynamic, x.Count = t.IsTuple(), t.DynamicSize(), t.Count()
			f := fld(t.Field())
			x.Elem = &f
		case *pure.TypeInstanceDict:
			x.Kind = "dict"
			f := fld(t.Field())
			x.Elem = &f
		default:
			x.Kind = fmt.Sprintf("unknown:%T", ins)
		}
		out = append(out, x)
	}
	of, err := os.Create(*outPath)
	if err != nil {
		panic(err)
	}
	defer of.Close()
	enc := json.NewEncoder(of)
	enc.SetIndent("", " ")
	if err := enc.Encode(out); err != nil {
		panic(err)
	}
}
