//go:build verif

// Add-only overlay harness for C24 (unique non-zero tags); package main of cmd/tl2gen.
//
// Drives the real runMain of tl2gen (default --language=lint) on a directory of .tl/.tl2 files
// and reports whether it accepts; next to the verdict it prints the tag list the kernel's
// checkTagCollisions walks: TL1 combinators of all .tl files in WalkDeterministic order (parsed
// with the options Kernel.AddFileTL1 uses), then the TL2 declarations (Kernel.AddFileTL2).
//
// op:  tags <path>...   ->   <verdict> \t <message> \t <tag list>
// verdict: ok | zero | dup | other | crash          tag entry: kind:'name:tag  (kind 1c, 1f, 2)
package main

import (
	"bufio"
	"bytes"
	"flag"
	"fmt"
	"io"
	"os"
	"strings"
	"testing"

	"github.com/VKCOM/tl/internal/puregen"
	"github.com/VKCOM/tl/internal/tlast"
	"github.com/VKCOM/tl/internal/utils"
)

func vOneLine(s string) string {
	var sb strings.Builder
	esc := false
	for _, r := range s {
		if esc {
			if r == 'm' {
				esc = false
			}
			continue
		}
		if r == 0x1b {
			esc = true
			continue
		}
		if r == '\n' || r == '\t' || r == '\r' {
			r = ' '
		}
		sb.WriteRune(r)
	}
	return strings.Join(strings.Fields(sb.String()), " ")
}

func vRunMain(args []string) (out string, err error, panicked string) {
	var buf bytes.Buffer
	oldCL, oldStdout := flag.CommandLine, os.Stdout
	// runMain and the kernel print progress with fmt.Printf: keep it out of the test log
	devnull, _ := os.OpenFile(os.DevNull, os.O_WRONLY, 0)
	os.Stdout = devnull
	defer func() {
		os.Stdout = oldStdout
		devnull.Close()
		flag.CommandLine = oldCL
		if r := recover(); r != nil {
			panicked = fmt.Sprint(r)
			out = buf.String()
		}
	}()
	fs := flag.NewFlagSet("tl2gen", flag.ContinueOnError)
	fs.SetOutput(io.Discard)
	flag.CommandLine = fs
	opt := puregen.Options{ErrorWriter: &buf}
	opt.Bind(fs, languagesString())
	if e := fs.Parse(args); e != nil {
		return "", e, ""
	}
	err = runMain(&opt)
	if err != nil {
		if pe, ok := err.(*tlast.ParseError); ok {
			pe.ConsolePrint(&buf, err, false)
		} else {
			buf.WriteString(err.Error())
		}
	}
	return buf.String(), err, ""
}

func vAtom(s string) string {
	return "'" + strings.NewReplacer(" ", "_", ",", "_", ":", "_", "\t", "_").Replace(s)
}

func vTagList(paths []string) (string, error) {
	var ents []string
	p1, err := utils.WalkDeterministic(".tl", paths...)
	if err != nil {
		return "", err
	}
	for _, p := range p1 {
		data, err := os.ReadFile(p)
		if err != nil {
			return "", err
		}
		tl, err := tlast.ParseTLFile(string(data), p, tlast.LexerOptions{AllowDirty: true})
		if err != nil {
			return "", err
		}
		for _, c := range tl.Combinators() {
			k := "1c"
			if c.IsFunction {
				k = "1f"
			}
			ents = append(ents, fmt.Sprintf("%s:%s:%d", k, vAtom(c.Construct.Name.String()), c.Crc32()))
		}
	}
	p2, err := utils.WalkDeterministic(".tl2", paths...)
	if err != nil {
		return "", err
	}
	for _, p := range p2 {
		data, err := os.ReadFile(p)
		if err != nil {
			return "", err
		}
		tl, err := tlast.ParseTL2File(string(data), p, tlast.LexerOptions{LexerLanguage: tlast.TL2})
		if err != nil {
			return "", err
		}
		for _, c := range tl.Combinators {
			if c.IsFunction {
				ents = append(ents, fmt.Sprintf("2:%s:%d", vAtom(c.FuncDecl.Name.String()), c.FuncDecl.Magic))
			} else {
				ents = append(ents, fmt.Sprintf("2:%s:%d", vAtom(c.TypeDecl.Name.String()), c.TypeDecl.Magic))
			}
		}
	}
	if len(ents) == 0 {
		return "-", nil
	}
	return strings.Join(ents, ","), nil
}

func vTags(paths []string) string {
	list, err := vTagList(paths)
	if err != nil {
		return "parse-error\t" + vOneLine(err.Error()) + "\t-"
	}
	out, err, p := vRunMain(paths)
	switch {
	case p != "":
		return "crash\t" + vOneLine(p) + "\t" + list
	case err == nil:
		return "ok\t-\t" + list
	}
	msg := vOneLine(out)
	if strings.Contains(msg, "constructor tag 0 is prohibited") {
		return "zero\t" + msg + "\t" + list
	}
	if strings.Contains(msg, "constructor tag #") && strings.Contains(msg, "is used again by") {
		return "dup\t" + msg + "\t" + list
	}
	return "other\t" + msg + "\t" + list
}

func TestVerifTags(t *testing.T) {
	in, err := os.Open(os.Getenv("VERIF_OPS"))
	if err != nil {
		t.Fatal(err)
	}
	defer in.Close()
	outf, err := os.Create(os.Getenv("VERIF_OUT"))
	if err != nil {
		t.Fatal(err)
	}
	defer outf.Close()
	w := bufio.NewWriter(outf)
	defer w.Flush()
	sc := bufio.NewScanner(in)
	sc.Buffer(make([]byte, 1<<20), 1<<26)
	for sc.Scan() {
		f := strings.Split(sc.Text(), "\t")
		if len(f) >= 2 && f[0] == "tags" {
			fmt.Fprintln(w, vTags(f[1:]))
		} else {
			fmt.Fprintln(w, "driver-error\tunknown op\t-")
		}
	}
}
