//go:build verif

// Add-only overlay harness for property C41 (never copied into /repo; injected with go test -overlay).
// Drives the real TreeMap / CircularSlice with one *history* per line of $VERIF_OPS and writes one
// result line per history to $VERIF_OUT.  Every operation of a history yields one token.
//
//	T <op> ...     fresh TreeMap[int64,int64] (counting allocator over SliceCacheAllocator)
//	   s<k>,<v>  Set            -> s
//	   d<k>      Delete         -> d
//	   u<k>,<v>  *GetPtr(k) = v -> u1 (key present) / u0
//	   g<k>      Get            -> g<v> / g-
//	   f / b     Front / Back   -> f<k>,<v> / f!  (documented panic on an empty map)
//	   e / m     Empty / LenMoreThan1 -> e0|e1 / m0|m1
//	   D         dump           -> D<tree>;live=<allocated-deallocated>   tree = . | (<tree>,k:v:h,<tree>)
//	                               (+ ";ALIASED" if the nodes do not form a tree / are shared with the allocator cache)
//	R <op> ...     two fresh CircularSlice[int64] A and B; operations act on A
//	   p<v> PushBack -> p        o PopFront -> o<v> / o!empty      f Front -> f<v> / f!empty
//	   i<pos> Index -> i<v> / i!neg / i!range                      r<n> Reserve -> r
//	   c Clear -> c     w A.Swap(&B) -> w     a B.DeepAssign(A) -> a
//	   l -> l<Len>,<Cap>        S Slices -> S<a,b,..>|<c,d,..>
//	   D dump -> D<read>,<write>,[elements]/<read>,<write>,[elements]   (A / B, raw fields)
//
// A line is "ok <tokens>"; any other panic (nil dereference, index out of range, the internal
// "invariant violated" panics) ends the history: "bug <tokens so far> PANIC:<kind>".
package algo

import (
	"bufio"
	"fmt"
	"os"
	"strconv"
	"strings"
	"testing"
)

type verifAlgoComp struct{}

func (verifAlgoComp) Cmp(a, b int64) bool { return a < b }

type verifAlgoNode = TreeNode[Entry[int64, int64]]

type verifAlgoAlloc struct {
	inner       SliceCacheAllocator[verifAlgoNode]
	allocated   int
	deallocated int
}

func (a *verifAlgoAlloc) allocate() *verifAlgoNode {
	a.allocated++
	return a.inner.allocate()
}

func (a *verifAlgoAlloc) deallocate(t *verifAlgoNode) {
	a.deallocated++
	a.inner.deallocate(t)
}

func verifAlgoDumpTree(n *verifAlgoNode, sb *strings.Builder, seen map[*verifAlgoNode]int, depth int) {
	if n == nil {
		sb.WriteByte('.')
		return
	}
	seen[n]++
	if depth > 200 {
		sb.WriteString("<deep>")
		return
	}
	sb.WriteByte('(')
	verifAlgoDumpTree(n.left, sb, seen, depth+1)
	fmt.Fprintf(sb, ",%d:%d:%d,", n.value.K, n.value.V, n.height)
	verifAlgoDumpTree(n.right, sb, seen, depth+1)
	sb.WriteByte(')')
}

func verifAlgoInt(s string) int64 {
	v, err := strconv.ParseInt(s, 10, 64)
	if err != nil {
		panic("driver: bad int " + s)
	}
	return v
}

func verifAlgoPair(s string) (int64, int64) {
	i := strings.IndexByte(s, ',')
	if i < 0 {
		panic("driver: bad pair " + s)
	}
	return verifAlgoInt(s[:i]), verifAlgoInt(s[i+1:])
}

// classify a recovered panic: documented misuse panics vs everything else
func verifAlgoKind(r any) string {
	msg := fmt.Sprint(r)
	switch msg {
	case "called Front() on empty TreeMap", "called Back() on empty TreeMap":
		return "api:empty-map"
	case "empty circular slice":
		return "api:empty"
	case "circular slice index < 0":
		return "api:neg"
	case "circular slice index out of range":
		return "api:range"
	case "circular slice invariant violated in Reserve":
		return "inv-reserve"
	case "circular slice invariant violated in PushBack":
		return "inv-push"
	case "TreeNode::extractMin() invariant violated", "TreeNode::findMin() invariant violated", "TreeNode::findMax() invariant violated":
		return "inv-tree"
	}
	if strings.HasPrefix(msg, "driver:") {
		return msg
	}
	if _, ok := r.(error); ok { // runtime.Error: nil dereference, index / slice bounds out of range
		return "runtime"
	}
	return "other:" + strings.ReplaceAll(msg, " ", "_")
}

// run one operation, return the kind of panic ("" if none)
func verifAlgoGuard(f func()) (kind string) {
	defer func() {
		if r := recover(); r != nil {
			kind = verifAlgoKind(r)
		}
	}()
	f()
	return ""
}

func verifAlgoTree(ops []string, sb *strings.Builder) bool {
	alloc := &verifAlgoAlloc{inner: NewSliceCacheAllocator[verifAlgoNode]()}
	t := NewTreeMap[int64, int64, verifAlgoComp](alloc)
	for _, op := range ops {
		sb.WriteByte(' ')
		kind := verifAlgoGuard(func() {
			arg := op[1:]
			switch op[0] {
			case 's':
				k, v := verifAlgoPair(arg)
				t.Set(k, v)
				sb.WriteByte('s')
			case 'd':
				t.Delete(verifAlgoInt(arg))
				sb.WriteByte('d')
			case 'u':
				k, v := verifAlgoPair(arg)
				if p := t.GetPtr(k); p != nil {
					*p = v
					sb.WriteString("u1")
				} else {
					sb.WriteString("u0")
				}
			case 'g':
				if v, ok := t.Get(verifAlgoInt(arg)); ok {
					fmt.Fprintf(sb, "g%d", v)
				} else {
					sb.WriteString("g-")
				}
			case 'f':
				e := t.Front()
				fmt.Fprintf(sb, "f%d,%d", e.K, e.V)
			case 'b':
				e := t.Back()
				fmt.Fprintf(sb, "b%d,%d", e.K, e.V)
			case 'e':
				if t.Empty() {
					sb.WriteString("e1")
				} else {
					sb.WriteString("e0")
				}
			case 'm':
				if t.LenMoreThan1() {
					sb.WriteString("m1")
				} else {
					sb.WriteString("m0")
				}
			case 'D':
				sb.WriteByte('D')
				seen := map[*verifAlgoNode]int{}
				verifAlgoDumpTree(t.root, sb, seen, 0)
				fmt.Fprintf(sb, ";live=%d", alloc.allocated-alloc.deallocated)
				aliased := false
				for _, c := range seen {
					if c != 1 {
						aliased = true
					}
				}
				for _, c := range alloc.inner.cache {
					if seen[c] != 0 || c.left != nil || c.right != nil || c.height != 0 || c.value.K != 0 || c.value.V != 0 {
						aliased = true
					}
				}
				if aliased {
					sb.WriteString(";ALIASED")
				}
			default:
				panic("driver: unknown tree op " + op)
			}
		})
		switch kind {
		case "":
		case "api:empty-map":
			sb.WriteByte(op[0])
			sb.WriteByte('!')
		case "runtime", "inv-tree":
			sb.WriteString("PANIC:tree")
			return false
		default:
			sb.WriteString("PANIC:" + kind)
			return false
		}
	}
	return true
}

func verifAlgoList(l []int64, sb *strings.Builder) {
	for i, v := range l {
		if i > 0 {
			sb.WriteByte(',')
		}
		sb.WriteString(strconv.FormatInt(v, 10))
	}
}

func verifAlgoRing(ops []string, sb *strings.Builder) bool {
	var a, b CircularSlice[int64]
	for _, op := range ops {
		sb.WriteByte(' ')
		mark := sb.Len()
		kind := verifAlgoGuard(func() {
			arg := op[1:]
			switch op[0] {
			case 'p':
				a.PushBack(verifAlgoInt(arg))
				sb.WriteByte('p')
			case 'o':
				fmt.Fprintf(sb, "o%d", a.PopFront())
			case 'f':
				fmt.Fprintf(sb, "f%d", a.Front())
			case 'i':
				fmt.Fprintf(sb, "i%d", a.Index(int(verifAlgoInt(arg))))
			case 'r':
				a.Reserve(int(verifAlgoInt(arg)))
				sb.WriteByte('r')
			case 'c':
				a.Clear()
				sb.WriteByte('c')
			case 'w':
				a.Swap(&b)
				sb.WriteByte('w')
			case 'a':
				b.DeepAssign(a)
				sb.WriteByte('a')
			case 'l':
				fmt.Fprintf(sb, "l%d,%d", a.Len(), a.Cap())
			case 'S':
				s1, s2 := a.Slices()
				sb.WriteByte('S')
				verifAlgoList(s1, sb)
				sb.WriteByte('|')
				verifAlgoList(s2, sb)
			case 'D':
				fmt.Fprintf(sb, "D%d,%d,[", a.read_pos, a.write_pos)
				verifAlgoList(a.elements, sb)
				fmt.Fprintf(sb, "]/%d,%d,[", b.read_pos, b.write_pos)
				verifAlgoList(b.elements, sb)
				sb.WriteByte(']')
			default:
				panic("driver: unknown ring op " + op)
			}
		})
		if kind == "" {
			continue
		}
		// drop whatever the operation printed before it panicked
		s := sb.String()[:mark]
		sb.Reset()
		sb.WriteString(s)
		if strings.HasPrefix(kind, "api:") {
			sb.WriteByte(op[0])
			sb.WriteString("!" + kind[4:])
		} else {
			sb.WriteString("PANIC:" + kind)
			return false
		}
	}
	return true
}

func verifAlgoLine(f []string) string {
	var sb strings.Builder
	ok := false
	switch {
	case len(f) >= 1 && f[0] == "T":
		ok = verifAlgoTree(f[1:], &sb)
	case len(f) >= 1 && f[0] == "R":
		ok = verifAlgoRing(f[1:], &sb)
	default:
		return "driver-error unknown line " + strings.Join(f, " ")
	}
	if ok {
		return "ok" + sb.String()
	}
	return "bug" + sb.String()
}

func TestVerifAlgo(t *testing.T) {
	opsPath, outPath := os.Getenv("VERIF_OPS"), os.Getenv("VERIF_OUT")
	if opsPath == "" || outPath == "" {
		t.Skip("VERIF_OPS/VERIF_OUT not set")
	}
	in, err := os.Open(opsPath)
	if err != nil {
		t.Fatal(err)
	}
	defer in.Close()
	out, err := os.Create(outPath)
	if err != nil {
		t.Fatal(err)
	}
	w := bufio.NewWriterSize(out, 1<<20)
	sc := bufio.NewScanner(in)
	sc.Buffer(make([]byte, 1<<20), 1<<26)
	for sc.Scan() {
		w.WriteString(verifAlgoLine(strings.Fields(sc.Text())))
		w.WriteByte('\n')
	}
	if err := sc.Err(); err != nil {
		t.Fatal(err)
	}
	if err := w.Flush(); err != nil {
		t.Fatal(err)
	}
	if err := out.Close(); err != nil {
		t.Fatal(err)
	}
}
