//go:build verif

// Add-only overlay harness for property C42 (never copied into /repo; injected with go test -overlay).
//
// TestVerifSemSeq drives the real Weighted semaphore through sequential histories with real goroutines and
// deterministic stepping (no sleeps, no polling): every Acquire runs in its own goroutine under a context
// whose Done() method tells the harness that the goroutine has left its first critical section and is about
// to block; the harness then looks at the waiters list under the semaphore's own mutex to learn whether the
// goroutine was queued (its list element is the new back element) or took the "doomed" branch.
//
// One history per line of $VERIF_OPS:   h <size0> <tok> <tok> ...
//
//	a<n>      start Acquire(ctx, n) in a new goroutine; ids are 0,1,2,... in order of the a-tokens
//	t<n>      TryAcquire(n)          r<n>  Release(n)         f<n>  ForceAcquire(n)      s<n>  SetSize(n)
//	c<k>      cancel the context of acquire k and wait for its return
//	x<n>:<k>  the cancel/admit race: cancel k, hold goroutine k inside ctx.Err() (i.e. after it chose the
//	          ctx.Done() branch and before it takes the mutex), run Release(n), let k continue
//
// One result line per history in $VERIF_OUT:  ok <step> <step> ...  with
// step = <res>|<ids that returned nil in this step>|<cur>|<size>|<queue id:n,...>|<doomed ids>
// res: F fast path, Q queued, D doomed, P panic, T1/T0 try, K ok, E cancelled (ctx error), N nothing to cancel;
// for x: release result followed by cancel result.  Anything unexpected (hang, spurious return, unknown
// element) is spelled out in the step and so shows up as a mismatch.
//
// TestVerifSemConc (built with -race) runs concurrent mixes and prints an event log per mix for the monitor
// in lib/checks/C42.py.
package semaphore

import (
	"bufio"
	"container/list"
	"context"
	"fmt"
	"math/rand"
	"os"
	"runtime"
	"sort"
	"strconv"
	"strings"
	"sync"
	"sync/atomic"
	"testing"
	"time"
)

const verifSemTimeout = 5 * time.Second

type verifSemCtx struct {
	done       chan struct{}
	doneCalled chan struct{}
	armed      bool // written before close(done) only
	errCalled  chan struct{}
	errGo      chan struct{}
}

func newVerifSemCtx() *verifSemCtx {
	return &verifSemCtx{done: make(chan struct{}), doneCalled: make(chan struct{}, 1),
		errCalled: make(chan struct{}, 1), errGo: make(chan struct{})}
}

func (c *verifSemCtx) Deadline() (time.Time, bool) { return time.Time{}, false }
func (c *verifSemCtx) Value(any) any               { return nil }
func (c *verifSemCtx) Done() <-chan struct{} {
	select {
	case c.doneCalled <- struct{}{}:
	default:
	}
	return c.done
}
func (c *verifSemCtx) Err() error {
	select {
	case <-c.done:
	default:
		return nil
	}
	if c.armed {
		select {
		case c.errCalled <- struct{}{}:
			<-c.errGo
		default:
		}
	}
	return errVerifSemCancelled
}

var errVerifSemCancelled = fmt.Errorf("verif: cancelled")

type verifSemG struct {
	id       int
	n        int64
	ctx      *verifSemCtx
	res      chan string
	elem     *list.Element
	pending  bool
	doomed   bool
	canceled bool
}

type verifSemH struct {
	s     *Weighted
	gs    []*verifSemG
	known map[*list.Element]int
	hung  bool
}

// call runs f with a watchdog; a mutation that leaks the mutex must not hang the whole run.
func (h *verifSemH) call(f func()) (res string) {
	ch := make(chan string, 1)
	go func() {
		defer func() {
			if r := recover(); r != nil {
				ch <- "P"
			}
		}()
		f()
		ch <- "K"
	}()
	select {
	case r := <-ch:
		return r
	case <-time.After(verifSemTimeout):
		h.hung = true
		return "HANG"
	}
}

func (h *verifSemH) lock() bool {
	if h.hung {
		return false
	}
	if h.s.mu.TryLock() {
		return true
	}
	t0 := time.Now()
	for time.Since(t0) < verifSemTimeout {
		if h.s.mu.TryLock() {
			return true
		}
		time.Sleep(50 * time.Microsecond)
	}
	h.hung = true
	return false
}

func (h *verifSemH) wait(g *verifSemG) string {
	select {
	case r := <-g.res:
		g.pending = false
		return r
	case <-time.After(verifSemTimeout):
		h.hung = true
		return "HANG"
	}
}

func (h *verifSemH) acquire(n int64) (string, []string) {
	g := &verifSemG{id: len(h.gs), n: n, ctx: newVerifSemCtx(), res: make(chan string, 1), pending: true}
	h.gs = append(h.gs, g)
	go func() {
		defer func() {
			if r := recover(); r != nil {
				g.res <- "panic"
			}
		}()
		if err := h.s.Acquire(g.ctx, n); err != nil {
			g.res <- "err"
		} else {
			g.res <- "nil"
		}
	}()
	select {
	case r := <-g.res:
		g.pending = false
		switch r {
		case "nil":
			return "F", []string{strconv.Itoa(g.id)}
		case "panic":
			return "P", nil
		}
		return "early-" + r, nil
	case <-g.ctx.doneCalled:
		if !h.lock() {
			return "MUTEX-HELD", nil
		}
		back := h.s.waiters.Back()
		if back != nil {
			if _, ok := h.known[back]; !ok {
				g.elem = back
				h.known[back] = g.id
			}
		}
		h.s.mu.Unlock()
		if g.elem != nil {
			return "Q", nil
		}
		g.doomed = true
		return "D", nil
	case <-time.After(verifSemTimeout):
		h.hung = true
		return "HANG", nil
	}
}

// settle collects the goroutines whose queue element has disappeared (they must return nil) and dumps the state.
func (h *verifSemH) settle(sb *strings.Builder, res string, adm []string, skip *verifSemG) {
	var cur, size int64
	var q []string
	inList := map[*list.Element]bool{}
	if h.lock() {
		cur, size = h.s.cur, h.s.size
		cnt := 0
		for e := h.s.waiters.Front(); e != nil; e = e.Next() {
			inList[e] = true
			id, ok := h.known[e]
			w, _ := e.Value.(waiter)
			if ok {
				q = append(q, fmt.Sprintf("%d:%d", id, w.n))
			} else {
				q = append(q, fmt.Sprintf("?:%d", w.n))
			}
			cnt++
			if cnt > 100000 {
				q = append(q, "cycle")
				break
			}
		}
		h.s.mu.Unlock()
	} else {
		res += "+MUTEX-HELD"
	}
	var doomed []string
	for _, g := range h.gs {
		if !g.pending || g == skip {
			continue
		}
		if g.doomed {
			select {
			case r := <-g.res:
				g.pending = false
				res += fmt.Sprintf("+spurious:%d=%s", g.id, r)
			default:
				doomed = append(doomed, strconv.Itoa(g.id))
			}
			continue
		}
		if g.elem != nil && !inList[g.elem] && !h.hung {
			r := h.wait(g)
			if r == "nil" {
				adm = append(adm, strconv.Itoa(g.id))
			} else {
				res += fmt.Sprintf("+removed:%d=%s", g.id, r)
			}
			continue
		}
		select {
		case r := <-g.res:
			g.pending = false
			res += fmt.Sprintf("+spurious:%d=%s", g.id, r)
		default:
		}
	}
	sort.Slice(adm, func(a, b int) bool { x, _ := strconv.Atoi(adm[a]); y, _ := strconv.Atoi(adm[b]); return x < y })
	j := func(l []string) string {
		if len(l) == 0 {
			return "-"
		}
		return strings.Join(l, ",")
	}
	fmt.Fprintf(sb, " %s|%s|%d|%d|%s|%s", res, j(adm), cur, size, j(q), j(doomed))
}

func (h *verifSemH) cancel(k int, hold func()) string {
	if k < 0 || k >= len(h.gs) || !h.gs[k].pending {
		if hold != nil {
			hold()
		}
		return "N"
	}
	g := h.gs[k]
	g.ctx.armed = hold != nil
	g.canceled = true
	close(g.ctx.done)
	if hold != nil {
		select {
		case <-g.ctx.errCalled:
			hold()
			close(g.ctx.errGo)
		case r := <-g.res: // cannot happen for a pending goroutine of the unchanged code
			g.pending = false
			hold()
			return "early-" + r
		case <-time.After(verifSemTimeout):
			h.hung = true
			return "HANG"
		}
	}
	switch r := h.wait(g); r {
	case "err":
		return "E"
	case "nil":
		return "nil"
	default:
		return r
	}
}

func verifSemRunHistory(f []string, sb *strings.Builder) {
	size0, _ := strconv.ParseInt(f[1], 10, 64)
	h := &verifSemH{s: NewWeighted(size0), known: map[*list.Element]int{}}
	sb.WriteString("ok")
	for _, tok := range f[2:] {
		if h.hung {
			sb.WriteString(" abandoned")
			break
		}
		var n int64
		k := -1
		arg := tok[1:]
		if i := strings.IndexByte(arg, ':'); i >= 0 {
			k, _ = strconv.Atoi(arg[i+1:])
			arg = arg[:i]
		}
		n, _ = strconv.ParseInt(arg, 10, 64)
		switch tok[0] {
		case 'a':
			r, adm := h.acquire(n)
			h.settle(sb, r, adm, nil)
		case 't':
			ok := false
			r := h.call(func() { ok = h.s.TryAcquire(n) })
			if r == "K" {
				if ok {
					r = "T1"
				} else {
					r = "T0"
				}
			}
			h.settle(sb, r, nil, nil)
		case 'r':
			h.settle(sb, h.call(func() { h.s.Release(n) }), nil, nil)
		case 'f':
			h.settle(sb, h.call(func() { h.s.ForceAcquire(n) }), nil, nil)
		case 's':
			h.settle(sb, h.call(func() { h.s.SetSize(n) }), nil, nil)
		case 'c':
			r := h.cancel(int(n), nil)
			h.settle(sb, r, nil, nil)
		case 'x':
			rr := ""
			var g *verifSemG
			if k >= 0 && k < len(h.gs) && h.gs[k].pending {
				g = h.gs[k]
			}
			cr := h.cancel(k, func() { rr = h.call(func() { h.s.Release(n) }) })
			var adm []string
			if cr == "nil" { // admitted by the release before it noticed the cancellation
				adm = append(adm, strconv.Itoa(k))
				cr = "N"
			}
			_ = g
			h.settle(sb, rr+cr, adm, nil)
		default:
			sb.WriteString(" bad-token")
		}
	}
	// never leave goroutines behind
	for _, g := range h.gs {
		if g.pending && !g.canceled {
			g.canceled = true
			close(g.ctx.done)
		}
	}
}

func TestVerifSemSeq(t *testing.T) {
	in, err := os.Open(os.Getenv("VERIF_OPS"))
	if err != nil {
		t.Skip("no VERIF_OPS")
	}
	defer in.Close()
	outf, err := os.Create(os.Getenv("VERIF_OUT"))
	if err != nil {
		t.Fatal(err)
	}
	w := bufio.NewWriterSize(outf, 1<<20)
	sc := bufio.NewScanner(in)
	sc.Buffer(make([]byte, 1<<20), 1<<26)
	var sb strings.Builder
	for sc.Scan() {
		f := strings.Fields(sc.Text())
		sb.Reset()
		if len(f) < 2 || f[0] != "h" {
			sb.WriteString("driver-error bad line")
		} else {
			verifSemRunHistory(f, &sb)
		}
		sb.WriteByte('\n')
		w.WriteString(sb.String())
	}
	w.Flush()
	outf.Close()
}

// ---------------------------------------------------------------- concurrent mixes (supporting evidence)

// One hold = one successful or failed acquisition attempt with the matching Release.
// Sequence numbers come from one atomic counter, taken immediately before a call and immediately after
// its return; the monitor only uses "returned before ... was invoked" relations, which are sound.
type verifSemHold struct {
	kind                   byte // 'a' Acquire, 'c' Acquire with a context that gets cancelled, 't' TryAcquire, 'f' ForceAcquire, 's' SetSize
	n                      int64
	inv, ret, rinv, rret   int64
	ok                     bool
}

// mix <seed> <workers> <iters> <size0> <plain:0|1>
func verifSemMix(f []string) string {
	seed, _ := strconv.ParseInt(f[1], 10, 64)
	nw, _ := strconv.Atoi(f[2])
	iters, _ := strconv.Atoi(f[3])
	size0, _ := strconv.ParseInt(f[4], 10, 64)
	plain := f[5] == "1"
	s := NewWeighted(size0)
	var seq, held, maxHeld atomic.Int64
	logs := make([][]verifSemHold, nw+1)
	var wg sync.WaitGroup
	var stop atomic.Bool
	noteHeld := func(n int64) {
		v := held.Add(n)
		for {
			m := maxHeld.Load()
			if v <= m || maxHeld.CompareAndSwap(m, v) {
				break
			}
		}
	}
	maxw := int64(3)
	if size0 < maxw {
		maxw = size0
	}
	for w := 0; w < nw; w++ {
		wg.Add(1)
		go func(w int) {
			defer wg.Done()
			rng := rand.New(rand.NewSource(seed*1000 + int64(w)))
			spin := func() {
				for i := rng.Intn(4); i > 0; i-- {
					runtimeGosched()
				}
			}
			for it := 0; it < iters; it++ {
				n := 1 + rng.Int63n(maxw)
				hd := verifSemHold{n: n}
				p := rng.Intn(100)
				switch {
				case p < 50:
					hd.kind = 'a'
					hd.inv = seq.Add(1)
					err := s.Acquire(verifBackground, n)
					hd.ret = seq.Add(1)
					hd.ok = err == nil
				case p < 70:
					hd.kind = 'c'
					ctx := newVerifSemCtx()
					delay := rng.Intn(6)
					go func() {
						for i := 0; i < delay; i++ {
							runtimeGosched()
						}
						close(ctx.done)
					}()
					hd.inv = seq.Add(1)
					err := s.Acquire(ctx, n)
					hd.ret = seq.Add(1)
					hd.ok = err == nil
				case p < 88 || plain:
					hd.kind = 't'
					hd.inv = seq.Add(1)
					hd.ok = s.TryAcquire(n)
					hd.ret = seq.Add(1)
				default:
					hd.kind = 'f'
					hd.inv = seq.Add(1)
					s.ForceAcquire(n)
					hd.ret = seq.Add(1)
					hd.ok = true
				}
				if hd.ok {
					noteHeld(n)
					spin()
					held.Add(-n)
					hd.rinv = seq.Add(1)
					s.Release(n)
					hd.rret = seq.Add(1)
				}
				logs[w] = append(logs[w], hd)
				spin()
			}
		}(w)
	}
	var rwg sync.WaitGroup
	if !plain {
		rwg.Add(1)
		go func() {
			defer rwg.Done()
			rng := rand.New(rand.NewSource(seed*1000 + 999))
			for !stop.Load() {
				n := 3 + rng.Int63n(4)
				hd := verifSemHold{kind: 's', n: n, ok: true}
				hd.inv = seq.Add(1)
				s.SetSize(n)
				hd.ret = seq.Add(1)
				logs[nw] = append(logs[nw], hd)
				for i := rng.Intn(8); i > 0; i-- {
					runtimeGosched()
				}
			}
		}()
	}
	done := make(chan struct{})
	go func() { wg.Wait(); close(done) }()
	stuck := 0
	select {
	case <-done:
	case <-time.After(10 * time.Second):
		stuck = 1
		verifSemStuck.Store(true)
	}
	stop.Store(true)
	rwg.Wait()
	var sb strings.Builder
	if stuck == 1 {
		fmt.Fprintf(&sb, "ok mix cur=? q=? stuck=1")
		return sb.String()
	}
	cur, _ := s.Observe()
	s.mu.Lock()
	ql := s.waiters.Len()
	s.mu.Unlock()
	fmt.Fprintf(&sb, "ok mix cur=%d q=%d stuck=0 # size0=%d plain=%v maxheld=%d ev=", cur, ql, size0, plain, maxHeld.Load())
	for w, l := range logs {
		for _, e := range l {
			ok := 0
			if e.ok {
				ok = 1
			}
			fmt.Fprintf(&sb, "%d,%c,%d,%d,%d,%d,%d,%d;", w, e.kind, e.n, e.inv, e.ret, ok, e.rinv, e.rret)
		}
	}
	return sb.String()
}

func TestVerifSemConc(t *testing.T) {
	in, err := os.Open(os.Getenv("VERIF_OPS"))
	if err != nil {
		t.Skip("no VERIF_OPS")
	}
	defer in.Close()
	outf, err := os.Create(os.Getenv("VERIF_OUT"))
	if err != nil {
		t.Fatal(err)
	}
	w := bufio.NewWriterSize(outf, 1<<20)
	sc := bufio.NewScanner(in)
	for sc.Scan() {
		f := strings.Fields(sc.Text())
		if len(f) == 6 && f[0] == "mix" && verifSemStuck.Load() {
			w.WriteString("ok mix cur=? q=? stuck=1 (not run: an earlier mix is stuck)")
		} else if len(f) == 6 && f[0] == "mix" {
			w.WriteString(verifSemMix(f))
		} else {
			w.WriteString("driver-error bad line")
		}
		w.WriteByte('\n')
		w.Flush()
	}
	outf.Close()
}

var verifBackground = context.Background()

var verifSemStuck atomic.Bool // a stuck mix leaves goroutines spinning; do not start further mixes

func runtimeGosched() { runtime.Gosched() }
