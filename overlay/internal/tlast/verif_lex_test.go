//go:build verif

// Add-only overlay harness for the Lex family (C19, C20); never copied into /repo, injected with
// `go test -overlay`.  One operation per line of $VERIF_OPS, one result line per operation in $VERIF_OUT.
//
//	tl <lang 1|2> <allowBuiltin 0|1> <allowDirty 0|1> <hex text>
//
// Result line: "<lexer part> || <parser part>".
// Lexer part (compared verbatim with the extracted Coq model, ocaml/drv_lex.ml):
//
//	<ok|err|panic> n=<len returned> all=<len l.tokens> rest=<len l.str> vok=<every val == text[off:off+len]>
//	rec=<recombineTokens() == text> T=<type,len,line,col,slo,off;...> E=<-|msg18hex cls@outer@begin@end@corrupted>
//	F=<tokerr|tokens|panic>   (what ParseTLFile / ParseTL2File did with the tokenizer result)
//
// Parser part (property oracle of lib/lex_lib.py, no model involved):
//
//	P=ok | P=panic:<hex msg> | P=err pe=<unwraps to *ParseError> o=<pos> b=<pos> e=<pos> fc=<fileContent==text x3>
//	   cp=<ok|panic:hex> cor=<ConsolePrint said "context corrupted"> es=<Error() ok|panic> msg=<hex 60>
package tlast

import (
	"bufio"
	"bytes"
	verifLexHexPkg "encoding/hex"
	"errors"
	"fmt"
	"os"
	"strconv"
	"strings"
	"testing"
)

func verifLexPos(p Position) string {
	return strconv.Itoa(p.line) + "." + strconv.Itoa(p.column) + "." + strconv.Itoa(p.startLineOffset) + "." + strconv.Itoa(p.offset)
}

func verifLexB(b bool) string {
	if b {
		return "1"
	}
	return "0"
}

func verifLexPrefix(s string, n int) string {
	if len(s) > n {
		s = s[:n]
	}
	return verifLexHexPkg.EncodeToString([]byte(s))
}

// the model's computation of anyCorrupted, on Go's own positions (used only for the E= field of lexer errors)
func verifLexCorrupted(n int, pr PositionRange) bool {
	bad := func(b, e int) bool { return b < 0 || b > n || e < b || e > n }
	c := bad(pr.Outer.startLineOffset, pr.Begin.startLineOffset) || bad(pr.Begin.startLineOffset, pr.End.startLineOffset) ||
		bad(pr.End.startLineOffset, pr.End.offset)
	if pr.Begin.startLineOffset == pr.End.startLineOffset {
		c = c || bad(pr.Begin.startLineOffset, pr.Begin.offset) || bad(pr.Begin.offset, pr.End.offset)
	}
	return c || pr.End.offset < 0 || pr.End.offset > n
}

func verifLexLexer(text string, opts LexerOptions) (res string) {
	defer func() {
		if r := recover(); r != nil {
			res = "panic"
		}
	}()
	lex := newLexer(text, "v.tl", opts)
	toks, err := lex.generateTokens()
	var sb strings.Builder
	if err == nil {
		sb.WriteString("ok")
	} else {
		sb.WriteString("err")
	}
	vok := true
	for _, t := range lex.tokens {
		o := t.pos.offset
		if o < 0 || o+len(t.val) > len(text) || text[o:o+len(t.val)] != t.val {
			vok = false
		}
	}
	sb.WriteString(" n=" + strconv.Itoa(len(toks)) + " all=" + strconv.Itoa(len(lex.tokens)) + " rest=" + strconv.Itoa(len(lex.str)))
	sb.WriteString(" vok=" + verifLexB(vok) + " rec=" + verifLexB(lex.recombineTokens() == text) + " T=")
	if len(toks) == 0 {
		sb.WriteString("-")
	}
	for _, t := range toks {
		sb.WriteString(strconv.Itoa(t.tokenType))
		sb.WriteByte(',')
		sb.WriteString(strconv.Itoa(len(t.val)))
		sb.WriteByte(',')
		sb.WriteString(strconv.Itoa(t.pos.line))
		sb.WriteByte(',')
		sb.WriteString(strconv.Itoa(t.pos.column))
		sb.WriteByte(',')
		sb.WriteString(strconv.Itoa(t.pos.startLineOffset))
		sb.WriteByte(',')
		sb.WriteString(strconv.Itoa(t.pos.offset))
		sb.WriteByte(';')
	}
	sb.WriteString(" E=")
	if err == nil {
		sb.WriteString("-")
	} else {
		var pe *ParseError
		if !errors.As(err, &pe) {
			sb.WriteString("notparseerror")
		} else {
			m := err.Error()
			cls := "-"
			switch {
			case strings.Contains(m, "ariphmetic operations"):
				cls = "a"
			case strings.Contains(m, "boxed types are not supported"):
				cls = "b"
			case strings.Contains(m, "sections are not supported"):
				cls = "s"
			}
			sb.WriteString(verifLexPrefix(m, 18) + cls + "@" + verifLexPos(pe.Pos.Outer) + "@" + verifLexPos(pe.Pos.Begin) + "@" + verifLexPos(pe.Pos.End) +
				"@" + verifLexB(verifLexCorrupted(len(text), pe.Pos)))
		}
	}
	return sb.String()
}

// PM field (compared with the parser models Lex/LexParse1Model.v and Lex/LexParse2Model.v): ok | tokerr | panic |
// err:<first 30 bytes of the innermost message, variable parts cut>@outer@begin@end
func verifLexPM(front string, panicked bool, err error) string {
	if panicked {
		return "panic"
	}
	if err == nil {
		return "ok"
	}
	if front == "tokerr" {
		return "tokerr"
	}
	var pe *ParseError
	if !errors.As(err, &pe) {
		return "err:notparseerror"
	}
	m := pe.Err.Error()
	for _, p := range []string{"unexpected type category ", "strconv.ParseUint"} {
		if strings.HasPrefix(m, p) {
			m = p
		}
	}
	return "err:" + verifLexPrefix(m, 30) + "@" + verifLexPos(pe.Pos.Outer) + "@" + verifLexPos(pe.Pos.Begin) + "@" + verifLexPos(pe.Pos.End)
}

func verifLexParse(text string, parser int, opts LexerOptions) (front string, res string) {
	front, res, panicked, err := verifLexParse0(text, parser, opts)
	return front + " PM=" + verifLexPM(front, panicked, err), res
}

func verifLexParse0(text string, parser int, opts LexerOptions) (front string, res string, panicked bool, err error) {
	pmsg := ""
	func() {
		defer func() {
			if r := recover(); r != nil {
				panicked = true
				pmsg = fmt.Sprint(r)
			}
		}()
		if parser == 2 {
			_, err = ParseTL2File(text, "v.tl", opts)
		} else {
			_, err = ParseTLFile(text, "v.tl", opts)
		}
	}()
	if panicked {
		front = "tokens"
		if strings.Contains(pmsg, "invariant violation in tokenizer") {
			front = "panic"
		}
		return front, "P=panic:" + verifLexPrefix(pmsg, 80), true, nil
	}
	if err == nil {
		return "tokens", "P=ok", false, nil
	}
	front = "tokens"
	if strings.HasPrefix(err.Error(), "tokenizer error: ") {
		front = "tokerr"
	}
	var pe *ParseError
	if !errors.As(err, &pe) {
		return front, "P=err pe=0 msg=" + verifLexPrefix(err.Error(), 60), false, err
	}
	fc := pe.Pos.Outer.fileContent == text && pe.Pos.Begin.fileContent == text && pe.Pos.End.fileContent == text
	cp := "ok"
	cor := false
	func() {
		defer func() {
			if r := recover(); r != nil {
				cp = "panic:" + verifLexPrefix(fmt.Sprint(r), 80)
			}
		}()
		var out bytes.Buffer
		pe.ConsolePrint(&out, err, false)
		pe.ConsolePrint(&out, nil, false)
		pe.PrintWarning(&out, err)
		cor = strings.Contains(out.String(), "context corrupted")
	}()
	es := "ok"
	func() {
		defer func() {
			if r := recover(); r != nil {
				es = "panic"
			}
		}()
		_ = err.Error()
		_ = pe.Error()
		_ = pe.Unwrap()
	}()
	return front, "P=err pe=1 o=" + verifLexPos(pe.Pos.Outer) + " b=" + verifLexPos(pe.Pos.Begin) + " e=" + verifLexPos(pe.Pos.End) +
		" fc=" + verifLexB(fc) + " cp=" + cp + " cor=" + verifLexB(cor) + " es=" + es + " msg=" + verifLexPrefix(err.Error(), 60), false, err
}

func TestVerifLex(t *testing.T) {
	opsPath, outPath := os.Getenv("VERIF_OPS"), os.Getenv("VERIF_OUT")
	if opsPath == "" || outPath == "" {
		t.Skip("VERIF_OPS / VERIF_OUT not set")
	}
	in, err := os.Open(opsPath)
	if err != nil {
		t.Fatal(err)
	}
	defer in.Close()
	outf, err := os.Create(outPath)
	if err != nil {
		t.Fatal(err)
	}
	defer outf.Close()
	w := bufio.NewWriterSize(outf, 1<<20)
	defer w.Flush()
	sc := bufio.NewScanner(in)
	sc.Buffer(make([]byte, 1<<20), 1<<28)
	for sc.Scan() {
		f := strings.Fields(sc.Text())
		if len(f) != 5 || f[0] != "tl" {
			_, _ = w.WriteString("driver-error bad op\n")
			continue
		}
		text := ""
		if f[4] != "-" {
			b, err := verifLexHexPkg.DecodeString(f[4])
			if err != nil {
				_, _ = w.WriteString("driver-error bad hex\n")
				continue
			}
			text = string(b)
		}
		opts := LexerOptions{AllowBuiltin: f[2] == "1", AllowDirty: f[3] == "1", LexerLanguage: TL1}
		parser := 1
		if f[1] == "2" {
			opts.LexerLanguage = TL2
			parser = 2
		}
		lexPart := verifLexLexer(text, opts)
		front, parsePart := verifLexParse(text, parser, opts)
		_, _ = w.WriteString(lexPart + " F=" + front + " || " + parsePart + "\n")
	}
}
