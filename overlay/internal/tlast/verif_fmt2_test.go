//go:build verif

// Add-only overlay harness for the Fmt2 family (C22); never copied into /repo, injected with
// `go test -overlay`.  One operation per line of $VERIF_OPS, one result line per operation in $VERIF_OUT.
//
//	p <hex text>   ParseTL2File(text, "v.tl2", TL2).  Result: "err <hex message>" or
//	               "ok\t<hex Print(default)>\t<hex Print(canonical)>" followed, for every combinator, by
//	               "\t<dump>\t<hex Combinator.Print(default)>\t<hex Combinator.Print(canonical)>"
//	lex <hex text> the TL2 lexer: "err" or the significant tokens "<kind>:<hex val>" separated by blanks
//	               (whitespace, tab, newline, comment and eof tokens dropped)
//	pty <hex text> lexer, then parseTL2Type on the token list: "lexerr" | "omit" | "fail" |
//	               "ok <tref dump> <number of significant tokens left>"
//	trim <hex text> <hex strings.TrimSpace(text)>
//
// <dump> is the translator of the Fmt2 family: the tlast.TL2Combinator as an S-expression that ocaml/drv_fmt2.ml
// reads back into the Gallina AST of coq/theories/Fmt2/Fmt2Model.v.  It keeps exactly what the printers read:
// the variant selected by the flags (IsFunction, IsTypeAlias, IsUnionType, BracketType != nil, HasIndex, IsNumber)
// and CommentBefore of combinators, variants and fields; positions, CommentRight and OriginalArgumentName are
// erased.  Comments appear only as (c <hex>) atoms, so the oracle erases them with one regular expression.
// Strings are hex ("-" = empty).
//
//	comb    := (C (c str) (A str*) decl)
//	decl    := (T name magic (P (str isnat)*) def) | (F name magic (L field*) def)
//	def     := (a tref) | (s field*) | (u variant*)
//	variant := (v str (c str) (a tref)) | (v str (c str) (f field*))
//	field   := (f str optional ignored (c str) tref)
//	tref    := (n name bare arg*) | (b - tref) | (b arg tref)
//	arg     := (# number) | tref
//	name    := (N str str)
package tlast

import (
	"bufio"
	verifFmt2HexPkg "encoding/hex"
	"os"
	"strconv"
	"strings"
	"testing"
)

func verifFmt2Hex(s string) string {
	if s == "" {
		return "-"
	}
	return verifFmt2HexPkg.EncodeToString([]byte(s))
}

func verifFmt2Bool(b bool) string {
	if b {
		return "1"
	}
	return "0"
}

func verifFmt2Name(sb *strings.Builder, n TL2TypeName) {
	sb.WriteString("(N " + verifFmt2Hex(n.Namespace) + " " + verifFmt2Hex(n.Name) + ")")
}

func verifFmt2Arg(sb *strings.Builder, a *TL2TypeArgument) {
	if a.IsNumber {
		sb.WriteString("(# " + strconv.FormatUint(uint64(a.Number), 10) + ")")
	} else {
		verifFmt2Ref(sb, &a.Type)
	}
}

func verifFmt2Ref(sb *strings.Builder, t *TL2TypeRef) {
	if t.BracketType != nil {
		sb.WriteString("(b ")
		if t.BracketType.HasIndex {
			verifFmt2Arg(sb, &t.BracketType.IndexType)
		} else {
			sb.WriteString("-")
		}
		sb.WriteString(" ")
		verifFmt2Ref(sb, &t.BracketType.ArrayType)
		sb.WriteString(")")
		return
	}
	sb.WriteString("(n ")
	verifFmt2Name(sb, t.SomeType.Name)
	sb.WriteString(" " + verifFmt2Bool(t.SomeType.Bare))
	for i := range t.SomeType.Arguments {
		sb.WriteString(" ")
		verifFmt2Arg(sb, &t.SomeType.Arguments[i])
	}
	sb.WriteString(")")
}

func verifFmt2Fields(sb *strings.Builder, fs []TL2Field) {
	for i := range fs {
		f := &fs[i]
		sb.WriteString(" (f " + verifFmt2Hex(f.Name) + " " + verifFmt2Bool(f.IsOptional) + " " + verifFmt2Bool(f.IsIgnored) +
			" (c " + verifFmt2Hex(f.CommentBefore) + ") ")
		verifFmt2Ref(sb, &f.Type)
		sb.WriteString(")")
	}
}

func verifFmt2Def(sb *strings.Builder, d *TL2TypeDefinition) {
	switch {
	case d.IsTypeAlias:
		sb.WriteString("(a ")
		verifFmt2Ref(sb, &d.TypeAlias)
		sb.WriteString(")")
	case d.StructType.IsUnionType:
		sb.WriteString("(u")
		for i := range d.StructType.UnionType.Variants {
			v := &d.StructType.UnionType.Variants[i]
			sb.WriteString(" (v " + verifFmt2Hex(v.Name) + " (c " + verifFmt2Hex(v.CommentBefore) + ") ")
			if v.IsTypeAlias {
				sb.WriteString("(a ")
				verifFmt2Ref(sb, &v.TypeAlias)
				sb.WriteString(")")
			} else {
				sb.WriteString("(f")
				verifFmt2Fields(sb, v.Fields)
				sb.WriteString(")")
			}
			sb.WriteString(")")
		}
		sb.WriteString(")")
	default:
		sb.WriteString("(s")
		verifFmt2Fields(sb, d.StructType.ConstructorFields)
		sb.WriteString(")")
	}
}

func verifFmt2Dump(c *TL2Combinator) string {
	var sb strings.Builder
	sb.WriteString("(C (c " + verifFmt2Hex(c.CommentBefore) + ") (A")
	for _, a := range c.Annotations {
		sb.WriteString(" " + verifFmt2Hex(a.Name))
	}
	sb.WriteString(") ")
	if c.IsFunction {
		sb.WriteString("(F ")
		verifFmt2Name(&sb, c.FuncDecl.Name)
		sb.WriteString(" " + strconv.FormatUint(uint64(c.FuncDecl.Magic), 10) + " (L")
		verifFmt2Fields(&sb, c.FuncDecl.Arguments)
		sb.WriteString(") ")
		verifFmt2Def(&sb, &c.FuncDecl.ReturnType)
	} else {
		sb.WriteString("(T ")
		verifFmt2Name(&sb, c.TypeDecl.Name)
		sb.WriteString(" " + strconv.FormatUint(uint64(c.TypeDecl.Magic), 10) + " (P")
		for _, a := range c.TypeDecl.TemplateArguments {
			sb.WriteString(" (" + verifFmt2Hex(a.Name) + " " + verifFmt2Bool(a.Category.IsNatValue) + ")")
		}
		sb.WriteString(") ")
		verifFmt2Def(&sb, &c.TypeDecl.Type)
	}
	sb.WriteString("))")
	return sb.String()
}

func verifFmt2Kind(tp int) string {
	switch tp {
	case crc32hash:
		return "crc"
	case annotation:
		return "ann"
	case numberSign:
		return "nsign"
	case number:
		return "num"
	case lcIdent:
		return "lc"
	case ucIdent:
		return "uc"
	case lcIdentNS:
		return "lcns"
	case ucIdentNS:
		return "ucns"
	case functionSign:
		return "funeq"
	case tl2alias:
		return "alias"
	case tl2depName:
		return "dep"
	case tl2typeSign:
		return "type"
	case undefined:
		return "undef"
	}
	if tp > 0 && tp < 128 {
		return "p" + strconv.Itoa(tp)
	}
	return "k" + strconv.Itoa(tp)
}

func verifFmt2Significant(tp int) bool {
	switch tp {
	case comment, whiteSpace, tab, newLine, eof:
		return false
	}
	return true
}

func verifFmt2Text(h string) (string, bool) {
	if h == "-" {
		return "", true
	}
	b, err := verifFmt2HexPkg.DecodeString(h)
	if err != nil {
		return "", false
	}
	return string(b), true
}

func verifFmt2Op(line string) (res string) {
	defer func() {
		if r := recover(); r != nil {
			res = "panic"
		}
	}()
	f := strings.Fields(line)
	if len(f) != 2 {
		return "driver-error bad op"
	}
	text, ok := verifFmt2Text(f[1])
	if !ok {
		return "driver-error bad hex"
	}
	switch f[0] {
	case "p":
		file, err := ParseTL2File(text, "v.tl2", LexerOptions{LexerLanguage: TL2})
		if err != nil {
			return "err " + verifFmt2Hex(err.Error())
		}
		var sb, d, c strings.Builder
		file.Print(&d, NewDefaultFormatOptions())
		file.Print(&c, NewCanonicalFormatOptions())
		sb.WriteString("ok\t" + verifFmt2Hex(d.String()) + "\t" + verifFmt2Hex(c.String()))
		for i := range file.Combinators {
			comb := &file.Combinators[i]
			var cd, cc strings.Builder
			comb.Print(&cd, NewDefaultFormatOptions())
			comb.Print(&cc, NewCanonicalFormatOptions())
			sb.WriteString("\t" + verifFmt2Dump(comb) + "\t" + verifFmt2Hex(cd.String()) + "\t" + verifFmt2Hex(cc.String()))
		}
		return sb.String()
	case "trim":
		return verifFmt2Hex(strings.TrimSpace(text))
	case "lex", "pty":
		lex := newLexer(text, "v.tl2", LexerOptions{LexerLanguage: TL2})
		toks, err := lex.generateTokens()
		if err != nil {
			if f[0] == "pty" {
				return "lexerr"
			}
			return "err"
		}
		if f[0] == "lex" {
			var sb strings.Builder
			sb.WriteString("ok")
			for _, t := range toks {
				if verifFmt2Significant(t.tokenType) {
					sb.WriteString(" " + verifFmt2Kind(t.tokenType) + ":" + verifFmt2Hex(t.val))
				}
			}
			return sb.String()
		}
		it := tokenIterator{tokens: toks}
		state, rest, ref := parseTL2Type(it, Position{})
		if state.IsOmitted() {
			return "omit"
		}
		if state.IsFailed() {
			return "fail"
		}
		left := 0
		for _, t := range rest.tokens[rest.offset:] {
			if verifFmt2Significant(t.tokenType) {
				left++
			}
		}
		var sb strings.Builder
		sb.WriteString("ok ")
		verifFmt2Ref(&sb, &ref)
		sb.WriteString(" " + strconv.Itoa(left))
		return sb.String()
	}
	return "driver-error unknown op"
}

func TestVerifFmt2(t *testing.T) {
	in, err := os.Open(os.Getenv("VERIF_OPS"))
	if err != nil {
		t.Skip("VERIF_OPS not set")
	}
	defer in.Close()
	out, err := os.Create(os.Getenv("VERIF_OUT"))
	if err != nil {
		t.Fatal(err)
	}
	w := bufio.NewWriterSize(out, 1<<20)
	sc := bufio.NewScanner(in)
	sc.Buffer(make([]byte, 1<<20), 1<<28)
	for sc.Scan() {
		w.WriteString(verifFmt2Op(sc.Text()))
		w.WriteByte('\n')
	}
	if err := w.Flush(); err != nil {
		t.Fatal(err)
	}
	if err := out.Close(); err != nil {
		t.Fatal(err)
	}
}
