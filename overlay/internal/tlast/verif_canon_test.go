//go:build verif

// Add-only overlay harness for the Canon family (C21, C23, C25); never copied into /repo, injected with
// `go test -overlay`.  One operation per line of $VERIF_OPS, one result line per operation in $VERIF_OUT.
//
//	parse <opts> <hex text>    ParseTLFile(text, "v.tl", opts); opts is a string over {b,d,-}: b = AllowBuiltin,
//	                           d = AllowDirty.  Result: "err <hex message>" or
//	                           "ok\t<hex TL.String()>\t<hex TL.Generate2TL()>" followed, for every combinator, by
//	                           "\t<dump>\t<hex String()>\t<hex canonicalForm()>\t<Crc32()>\t<GenCrc32()>\t<hex canonicalFormWithTag()>"
//	bare256                    for every byte b: does TypeRef{Bare, Name{b}}.toCrc32() start with '%' ("0"/"1" x 256)
//
// <dump> is the translator of the Canon family: the tlast.Combinator as an S-expression that
// ocaml/drv_canon.ml reads back into the Gallina AST of coq/theories/Canon/CanonModel.v.  It covers every
// field of the AST except positions, comments, NewlineRight and the fields that only type resolution sets
// (UsedAsMask/UsedAsSize/AffectedFields, OriginalDescriptor, OriginalOrderIndex).  Strings are hex ("-" = empty).
//
//	comb   := (C builtin isfunc (M str*) name id explicit (A (str isnat)*) (F field*) (D name (S str*)) tref)
//	name   := (N str str)
//	field  := (f str mask excl isrep (R explicit scale (F field*)) tref)
//	mask   := - | (m str bit)
//	scale  := (s isarith arith str)
//	arith  := (a res num*)
//	tref   := (t name bare (O aot*))
//	aot    := (o isarith arith tref)
package tlast

import (
	"bufio"
	verifCanonHexPkg "encoding/hex"
	"os"
	"strconv"
	"strings"
	"testing"
)

func verifCanonHex(s string) string {
	if s == "" {
		return "-"
	}
	return verifCanonHexPkg.EncodeToString([]byte(s))
}

func verifCanonBool(b bool) string {
	if b {
		return "1"
	}
	return "0"
}

func verifCanonName(sb *strings.Builder, n Name) {
	sb.WriteString("(N " + verifCanonHex(n.Namespace) + " " + verifCanonHex(n.Name) + ")")
}

func verifCanonArith(sb *strings.Builder, a Arithmetic) {
	sb.WriteString("(a " + strconv.FormatUint(uint64(a.Res), 10))
	for _, x := range a.Nums {
		sb.WriteString(" " + strconv.FormatUint(uint64(x), 10))
	}
	sb.WriteString(")")
}

func verifCanonTypeRef(sb *strings.Builder, t TypeRef) {
	sb.WriteString("(t ")
	verifCanonName(sb, t.Type)
	sb.WriteString(" " + verifCanonBool(t.Bare) + " (O")
	for _, x := range t.Args {
		sb.WriteString(" (o " + verifCanonBool(x.IsArith) + " ")
		verifCanonArith(sb, x.Arith)
		sb.WriteString(" ")
		verifCanonTypeRef(sb, x.T)
		sb.WriteString(")")
	}
	sb.WriteString("))")
}

func verifCanonFields(sb *strings.Builder, fs []Field) {
	sb.WriteString("(F")
	for _, f := range fs {
		sb.WriteString(" (f " + verifCanonHex(f.FieldName) + " ")
		if f.Mask == nil {
			sb.WriteString("-")
		} else {
			sb.WriteString("(m " + verifCanonHex(f.Mask.MaskName) + " " + strconv.FormatUint(uint64(f.Mask.BitNumber), 10) + ")")
		}
		sb.WriteString(" " + verifCanonBool(f.Excl) + " " + verifCanonBool(f.IsRepeated))
		sb.WriteString(" (R " + verifCanonBool(f.ScaleRepeat.ExplicitScale) + " (s " + verifCanonBool(f.ScaleRepeat.Scale.IsArith) + " ")
		verifCanonArith(sb, f.ScaleRepeat.Scale.Arith)
		sb.WriteString(" " + verifCanonHex(f.ScaleRepeat.Scale.Scale) + ") ")
		verifCanonFields(sb, f.ScaleRepeat.Rep)
		sb.WriteString(") ")
		verifCanonTypeRef(sb, f.FieldType)
		sb.WriteString(")")
	}
	sb.WriteString(")")
}

func verifCanonDump(c *Combinator) string {
	var sb strings.Builder
	sb.WriteString("(C " + verifCanonBool(c.Builtin) + " " + verifCanonBool(c.IsFunction) + " (M")
	for _, m := range c.Modifiers {
		sb.WriteString(" " + verifCanonHex(m.Name))
	}
	sb.WriteString(") ")
	verifCanonName(&sb, c.Construct.Name)
	sb.WriteString(" " + strconv.FormatUint(uint64(c.Construct.ID), 10) + " " + verifCanonBool(c.Construct.IDExplicit) + " (A")
	for _, a := range c.TemplateArguments {
		sb.WriteString(" (" + verifCanonHex(a.FieldName) + " " + verifCanonBool(a.IsNat) + ")")
	}
	sb.WriteString(") ")
	verifCanonFields(&sb, c.Fields)
	sb.WriteString(" (D ")
	verifCanonName(&sb, c.TypeDecl.Name)
	sb.WriteString(" (S")
	for _, a := range c.TypeDecl.Arguments {
		sb.WriteString(" " + verifCanonHex(a))
	}
	sb.WriteString(")) ")
	verifCanonTypeRef(&sb, c.FuncDecl)
	sb.WriteString(")")
	return sb.String()
}

func verifCanonOp(line string) (res string) {
	defer func() {
		if r := recover(); r != nil {
			res = "panic"
		}
	}()
	f := strings.Fields(line)
	switch {
	case len(f) == 3 && f[0] == "parse":
		text := ""
		if f[2] != "-" {
			b, err := verifCanonHexPkg.DecodeString(f[2])
			if err != nil {
				return "driver-error bad hex"
			}
			text = string(b)
		}
		opts := LexerOptions{AllowBuiltin: strings.Contains(f[1], "b"), AllowDirty: strings.Contains(f[1], "d")}
		tl, err := ParseTLFile(text, "v.tl", opts)
		if err != nil {
			return "err " + verifCanonHex(err.Error())
		}
		var sb strings.Builder
		sb.WriteString("ok\t" + verifCanonHex(tl.String()) + "\t" + verifCanonHex(tl.Generate2TL()))
		for _, c := range tl.Combinators() {
			sb.WriteString("\t" + verifCanonDump(c))
			sb.WriteString("\t" + verifCanonHex(c.String()))
			sb.WriteString("\t" + verifCanonHex(c.canonicalForm()))
			sb.WriteString("\t" + strconv.FormatUint(uint64(c.Crc32()), 10))
			sb.WriteString("\t" + strconv.FormatUint(uint64(c.GenCrc32()), 10))
			sb.WriteString("\t" + verifCanonHex(c.canonicalFormWithTag()))
		}
		return sb.String()
	case len(f) == 1 && f[0] == "bare256":
		var sb strings.Builder
		for b := 0; b < 256; b++ {
			t := TypeRef{Bare: true, Type: Name{Name: string([]byte{byte(b)})}}
			sb.WriteString(verifCanonBool(strings.HasPrefix(t.toCrc32(), "%")))
		}
		return sb.String()
	}
	return "driver-error unknown op"
}

func TestVerifCanon(t *testing.T) {
	in, err := os.Open(os.Getenv("VERIF_OPS"))
	if err != nil {
		t.Skip("VERIF_OPS not set")
	}
	defer in.Close()
	out, err := os.Create(os.Getenv("VERIF_OUT"))
	if err != nil {
		t.Fatal(err)
	}
	w := bufio.NewWriterSize(out, 1<<20)
	sc := bufio.NewScanner(in)
	sc.Buffer(make([]byte, 1<<20), 1<<28)
	for sc.Scan() {
		w.WriteString(verifCanonOp(sc.Text()))
		w.WriteByte('\n')
	}
	if err := w.Flush(); err != nil {
		t.Fatal(err)
	}
	if err := out.Close(); err != nil {
		t.Fatal(err)
	}
}
