//go:build verif

// Add-only overlay harness for the Tlo family (C26); never copied into /repo, injected with `go test -overlay`.
// One operation per line of $VERIF_OPS, one result line per operation in $VERIF_OUT.
//
//	dump <path>...     translator T-tlo: ParseTLFile (AllowDirty, as internal/pure.Kernel.AddFileTL1 does) of every file, in
//	                   order; for every combinator (the list kernel.TL1() hands to GenerateTLO) the attributes the Coq model
//	                   coq/theories/Tlo/TloModel.v reads:
//	                   "ok <n>" then per combinator
//	                   " C <hexname> <Crc32()> <isfunction> <hex result type name> <len(TypeDecl.Arguments)>
//	                      <nmods> <hexmod>* <ntargs> (<hexname> <isnat>)* <nfields> (<hexname> <natvar> <excl>)*"
//	                   result type name = TypeDecl.Name.String() (constructors) / FuncDecl.Type.String() (functions);
//	                   natvar = !IsRepeated && FieldType.Type.String() == "#".  Strings are hex ("-" = empty).
//	decode <path>      the .tlo file read by the repository's generated package gentlo/tltls (Schema.ReadTL1Boxed), printed
//	                   as a wire value in the syntax of ocaml/tl1/schema_io.ml (the output syntax of the extracted dec1):
//	                   "ok <value> <rest-len> <rewrite>" where rewrite = 1 iff WriteTL1Boxed of what was read reproduces the
//	                   consumed bytes; "err <class>" when the reader refuses the bytes.
//	gen <ts> <path>... GenerateTLO called directly on the parsed combinators (no kernel): "ok <hex of WriteTL1Boxed>" / "err".
package tlast

import (
	"bufio"
	verifTloHexPkg "encoding/hex"
	verifTloErrors "errors"
	verifTloIO "io"
	"os"
	"strconv"
	"strings"
	"testing"

	verifTls "github.com/VKCOM/tl/internal/tlast/gentlo/tltls"
)

func verifTloHex(s string) string {
	if s == "" {
		return "-"
	}
	return verifTloHexPkg.EncodeToString([]byte(s))
}

func verifTloBool(b bool) string {
	if b {
		return "1"
	}
	return "0"
}

func verifTloParse(paths []string) ([]*Combinator, error) {
	var all []*Combinator
	for _, p := range paths {
		data, err := os.ReadFile(p)
		if err != nil {
			return nil, err
		}
		tl, err := ParseTLFile(string(data), p, LexerOptions{AllowDirty: true})
		if err != nil {
			return nil, err
		}
		all = append(all, tl.Combinators()...)
	}
	return all, nil
}

func verifTloDump(paths []string) string {
	all, err := verifTloParse(paths)
	if err != nil {
		return "err " + verifTloHex(err.Error())
	}
	var sb strings.Builder
	sb.WriteString("ok " + strconv.Itoa(len(all)))
	for _, c := range all {
		res := c.TypeDecl.Name.String()
		if c.IsFunction {
			res = c.FuncDecl.Type.String()
		}
		sb.WriteString(" C " + verifTloHex(c.Construct.Name.String()) + " " + strconv.FormatUint(uint64(c.Crc32()), 10) + " " +
			verifTloBool(c.IsFunction) + " " + verifTloHex(res) + " " + strconv.Itoa(len(c.TypeDecl.Arguments)))
		sb.WriteString(" " + strconv.Itoa(len(c.Modifiers)))
		for _, m := range c.Modifiers {
			sb.WriteString(" " + verifTloHex(m.Name))
		}
		sb.WriteString(" " + strconv.Itoa(len(c.TemplateArguments)))
		for _, ta := range c.TemplateArguments {
			sb.WriteString(" " + verifTloHex(ta.FieldName) + " " + verifTloBool(ta.IsNat))
		}
		sb.WriteString(" " + strconv.Itoa(len(c.Fields)))
		for _, f := range c.Fields {
			sb.WriteString(" " + verifTloHex(f.FieldName) + " " + verifTloBool(!f.IsRepeated && f.FieldType.Type.String() == "#") + " " + verifTloBool(f.Excl))
		}
	}
	return sb.String()
}

type verifTloPrinter struct{ sb strings.Builder }

func (p *verifTloPrinter) i32(v int32)   { p.sb.WriteString(" n" + strconv.FormatUint(uint64(uint32(v)), 10)) }
func (p *verifTloPrinter) u32(v uint32)  { p.sb.WriteString(" n" + strconv.FormatUint(uint64(v), 10)) }
func (p *verifTloPrinter) i64(v int64)   { p.sb.WriteString(" n" + strconv.FormatUint(uint64(v), 10)) }
func (p *verifTloPrinter) str(s string)  { p.sb.WriteString(" s" + verifTloHex(s)) }
func (p *verifTloPrinter) open(k string) { p.sb.WriteString(" ( " + k) }
func (p *verifTloPrinter) close()        { p.sb.WriteString(" )") }
func (p *verifTloPrinter) absent()       { p.sb.WriteString(" _") }

func (p *verifTloPrinter) natExpr(e *verifTls.NatExpr) {
	if c, ok := e.AsNatConst(); ok {
		p.open("U 0")
		p.i32(c.Value)
		p.close()
		return
	}
	v, _ := e.AsNatVar()
	p.open("U 1")
	p.i32(v.Dif)
	p.i32(v.VarNum)
	p.close()
}

func (p *verifTloPrinter) args(l []verifTls.Arg) {
	p.open("A")
	for i := range l {
		a := &l[i]
		p.open("S")
		p.str(a.Id)
		p.u32(a.Flags)
		if a.Flags&(1<<1) != 0 {
			p.i32(a.VarNum)
		} else {
			p.absent()
		}
		if a.Flags&(1<<2) != 0 {
			p.i32(a.ExistVarNum)
			p.i32(a.ExistVarBit)
		} else {
			p.absent()
			p.absent()
		}
		p.typeExpr(&a.Type)
		p.close()
	}
	p.close()
}

func (p *verifTloPrinter) typeExpr(e *verifTls.TypeExpr) {
	if v, ok := e.AsTypeVar(); ok {
		p.open("U 0")
		p.i32(v.VarNum)
		p.i32(v.Flags)
		p.close()
		return
	}
	if a, ok := e.AsArray(); ok {
		p.open("U 1")
		p.natExpr(&a.Multiplicity)
		p.u32(a.ArgsNum)
		p.args(a.Args)
		p.close()
		return
	}
	t, _ := e.AsTypeExpr()
	p.open("U 2")
	p.i32(t.Name)
	p.i32(t.Flags)
	p.u32(t.ChildrenNum)
	p.open("A")
	for i := range t.Children {
		c := &t.Children[i]
		if et, ok := c.AsType(); ok {
			p.open("U 0")
			p.typeExpr(&et.Expr)
			p.close()
		} else {
			en, _ := c.AsNat()
			p.open("U 1")
			p.natExpr(&en.Expr)
			p.close()
		}
	}
	p.close()
	p.close()
}

func (p *verifTloPrinter) left(l *verifTls.CombinatorLeft) {
	if _, ok := l.AsBuiltin(); ok {
		p.open("U 0")
		p.close()
		return
	}
	c, _ := l.AsCombinatorLeft()
	p.open("U 1")
	p.u32(c.ArgsNum)
	p.args(c.Args)
	p.close()
}

func (p *verifTloPrinter) right(r *verifTls.CombinatorRight) {
	p.open("S")
	p.typeExpr(&r.Value)
	p.close()
}

func (p *verifTloPrinter) combinators(l []verifTls.Combinator) {
	p.open("A")
	for i := range l {
		c := &l[i]
		if c0, ok := c.AsCombinator(); ok {
			p.open("U 0")
			p.i32(c0.Name)
			p.str(c0.Id)
			p.i32(c0.TypeName)
			p.left(&c0.Left)
			p.right(&c0.Right)
			p.close()
			continue
		}
		c4, _ := c.AsV4()
		p.open("U 1")
		p.i32(c4.Name)
		p.str(c4.Id)
		p.i32(c4.TypeName)
		p.left(&c4.Left)
		p.right(&c4.Right)
		p.i32(c4.Flags)
		p.close()
	}
	p.close()
}

func (p *verifTloPrinter) types(l []verifTls.Type) {
	p.open("A")
	for i := range l {
		t := &l[i]
		p.open("S")
		p.i32(t.Name)
		p.str(t.Id)
		p.i32(t.ConstructorsNum)
		p.i32(t.Flags)
		p.i32(t.Arity)
		p.i64(t.ParamsType)
		p.close()
	}
	p.close()
}

func (p *verifTloPrinter) body(version, date int32, tn uint32, ts []verifTls.Type, cn uint32, cs []verifTls.Combinator, fn uint32, fs []verifTls.Combinator) {
	p.i32(version)
	p.i32(date)
	p.u32(tn)
	p.types(ts)
	p.u32(cn)
	p.combinators(cs)
	p.u32(fn)
	p.combinators(fs)
}

func verifTloDecode(path string) string {
	data, err := os.ReadFile(path)
	if err != nil {
		return "driver-error " + err.Error()
	}
	var s verifTls.Schema
	rest, err := s.ReadTL1Boxed(data)
	if err != nil {
		if verifTloErrors.Is(err, verifTloIO.ErrUnexpectedEOF) {
			return "err eof"
		}
		return "err reject"
	}
	var p verifTloPrinter
	if v, ok := s.AsV2(); ok {
		p.open("U 0")
		p.body(v.Version, v.Date, v.TypesNum, v.Types, v.ConstructorNum, v.Constructors, v.FunctionsNum, v.Functions)
	} else if v, ok := s.AsV3(); ok {
		p.open("U 1")
		p.body(v.Version, v.Date, v.TypesNum, v.Types, v.ConstructorNum, v.Constructors, v.FunctionsNum, v.Functions)
	} else {
		v, _ := s.AsV4()
		p.open("U 2")
		p.body(v.Version, v.Date, v.TypesNum, v.Types, v.ConstructorNum, v.Constructors, v.FunctionsNum, v.Functions)
	}
	p.close()
	rw := "0"
	if w, err := s.WriteTL1Boxed(nil); err == nil && string(w) == string(data[:len(data)-len(rest)]) {
		rw = "1"
	}
	return "ok" + p.sb.String() + " | " + strconv.Itoa(len(rest)) + " " + rw
}

func verifTloGen(f []string) string {
	ts, err := strconv.ParseUint(f[0], 10, 32)
	if err != nil {
		return "driver-error bad timestamp"
	}
	all, err := verifTloParse(f[1:])
	if err != nil {
		return "err parse"
	}
	var tl TL
	for _, c := range all {
		tl.CS = append(tl.CS, CombinatorOrSection{C: c})
	}
	s, err := tl.GenerateTLO(uint32(ts))
	if err != nil {
		return "err generate"
	}
	buf, err := s.WriteTL1Boxed(nil)
	if err != nil {
		return "err write"
	}
	return "ok " + verifTloHexPkg.EncodeToString(buf)
}

func verifTloOp(line string) (out string) {
	defer func() {
		if r := recover(); r != nil {
			out = "panic"
		}
	}()
	f := strings.Fields(line)
	if len(f) == 0 {
		return ""
	}
	switch f[0] {
	case "dump":
		return verifTloDump(f[1:])
	case "decode":
		if len(f) == 2 {
			return verifTloDecode(f[1])
		}
	case "gen":
		if len(f) >= 3 {
			return verifTloGen(f[1:])
		}
	}
	return "driver-error unknown op"
}

func TestVerifTlo(t *testing.T) {
	in, err := os.Open(os.Getenv("VERIF_OPS"))
	if err != nil {
		t.Skip("VERIF_OPS not set")
	}
	defer in.Close()
	out, err := os.Create(os.Getenv("VERIF_OUT"))
	if err != nil {
		t.Fatal(err)
	}
	w := bufio.NewWriterSize(out, 1<<20)
	sc := bufio.NewScanner(in)
	sc.Buffer(make([]byte, 1<<20), 1<<28)
	for sc.Scan() {
		w.WriteString(verifTloOp(sc.Text()))
		w.WriteByte('\n')
	}
	if err := w.Flush(); err != nil {
		t.Fatal(err)
	}
	if err := out.Close(); err != nil {
		t.Fatal(err)
	}
}
