//go:build verif

// C16 harness for the legacy generator's own output writing (Gen2.WriteToDir).
package tlcodegen

import (
	"io"
	"os"
	"path/filepath"
	"strings"
	"testing"

	"github.com/VKCOM/tl/internal/puregen/gengo"
)

func verifLegacyGen(lang string) verifGenFunc {
	return func(outAbs string, marker string, mc []byte, items map[string]string) error {
		gen := &Gen2{
			options: &Gen2Options{Language: lang, SchemaURL: string(mc), ErrorWriter: io.Discard},
			Code:    map[string]string{},
		}
		for name, code := range items {
			if err := gen.addCodeFile(name, code); err != nil {
				return err
			}
		}
		return gen.WriteToDir(outAbs)
	}
}

// the marker content is version text + options; only the schema url varies between steps
func verifLegacyNorm(rel string, content []byte) []byte {
	if filepath.Base(rel) != markerFile {
		return content
	}
	lines := strings.Split(string(content), "\n")
	if len(lines) >= 2 && strings.HasPrefix(lines[0], "tlgen version: ") && strings.HasPrefix(lines[1], "schema url: ") {
		return []byte(strings.TrimPrefix(lines[1], "schema url: "))
	}
	return content
}

func TestVerifOutdirLegacy(t *testing.T) {
	devnull, _ := os.OpenFile(os.DevNull, os.O_WRONLY, 0)
	saved := os.Stdout
	os.Stdout = devnull
	defer func() { os.Stdout = saved }()
	err := verifEachLine(func(f []string) string {
		switch {
		case len(f) == 6 && f[0] == "hist" && f[1] == "legacy":
			return verifRunHist(f[2], f[3], f[4], f[5], verifLegacyGen("go"), verifLegacyNorm)
		case len(f) == 6 && f[0] == "hist" && f[1] == "legacycpp":
			return verifRunHist(f[2], f[3], f[4], f[5], verifLegacyGen("cpp"), verifLegacyNorm)
		case len(f) == 1 && f[0] == "consts":
			return "legacy_marker=" + markerFile +
				" gengo_marker=" + filepath.ToSlash(filepath.Join(gengo.MetaGoPackageName, gengo.MetaGoPackageName+".go")) +
				" basictl=" + gengo.BasicTLGoPackageName
		}
		return "harness-error unknown op"
	})
	if err != nil {
		t.Fatal(err)
	}
}
