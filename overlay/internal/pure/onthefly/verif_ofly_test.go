//go:build verif

// Add-only overlay harness of the ofly family (C12, interpreter model Ofly/OflyModel.v): operations on the dynamic
// interpreter that verif_otf_test.go (same package; its helpers vOtf, vCreate, vUnhex, vHx are used here) does not have.
//
// ops ($VERIF_OPS, one per line; results to $VERIF_OUT, one per line):
//   load <tl2 whitelist | -> <schema file>...        -> ok <n top-level objects> | err <message>       (first line)
//   rw1x2 <tlName> <boxed> <hex1> <hex2>             -> ok <consumed> <rewritten hex | writeerr> | eof | reject | panic ... |
//                                                       unsupported ... | first-failed
//     ReadTL1(hex1) into a fresh value (must succeed), then ReadTL1(hex2) into THE SAME value and WriteTL1 of the result:
//     the `rw1` observation of verif_otf_test.go, on a value that was read into before.
package onthefly

import (
	"bufio"
	"errors"
	"fmt"
	"io"
	"os"
	"strconv"
	"strings"
	"testing"
)

func (o *vOtf) runOfly(f []string) (out string) {
	defer func() {
		if r := recover(); r != nil {
			out = "panic " + strings.ReplaceAll(fmt.Sprint(r), "\n", " ")
		}
	}()
	switch f[0] {
	case "load":
		return o.load(f[1:])
	case "rw1x2":
		ins := o.tops[f[1]]
		if ins == nil {
			return "unsupported no-instance"
		}
		val, why := vCreate(ins)
		if val == nil {
			return "unsupported " + why
		}
		bare := f[2] != "1"
		if _, _, err := val.ReadTL1(vUnhex(f[3]), nil, bare, nil); err != nil {
			return "first-failed"
		}
		in := vUnhex(f[4])
		rest, _, err := val.ReadTL1(in, nil, bare, nil)
		if err != nil {
			if errors.Is(err, io.ErrUnexpectedEOF) {
				return "eof"
			}
			return "reject"
		}
		consumed := strconv.Itoa(len(in) - len(rest))
		w, werr := func() (b []byte, e string) {
			defer func() {
				if r := recover(); r != nil {
					e = "writeerr"
				}
			}()
			var bb ByteBuilder
			_ = val.WriteTL1(&bb, bare, nil, false, 0, nil)
			return bb.Buf(), ""
		}()
		if werr != "" {
			return "ok " + consumed + " writeerr"
		}
		return "ok " + consumed + " " + vHx(w)
	}
	return "driver-error unknown op " + f[0]
}

func TestVerifOfly(t *testing.T) {
	in, err := os.Open(os.Getenv("VERIF_OPS"))
	if err != nil {
		t.Skip("no VERIF_OPS")
	}
	defer in.Close()
	outf, err := os.OpenFile(os.Getenv("VERIF_OUT"), os.O_CREATE|os.O_WRONLY|os.O_APPEND, 0o644)
	if err != nil {
		t.Fatal(err)
	}
	defer outf.Close()
	var o vOtf
	sc := bufio.NewScanner(in)
	sc.Buffer(make([]byte, 1<<20), 1<<28)
	for sc.Scan() {
		f := strings.Fields(sc.Text())
		if len(f) == 0 {
			outf.WriteString("\n")
			continue
		}
		outf.WriteString(o.runOfly(f) + "\n")
	}
}
