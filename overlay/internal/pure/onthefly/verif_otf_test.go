//go:build verif

// Add-only overlay harness of the Obj family (C12): drives the dynamic interpreter internal/pure/onthefly
// (CreateValue + ReadTL1/WriteTL1/ReadTL2/WriteTL2) on the same byte strings as the generated code, printing
// results in the format of gendrv's `rw1` op.
//
// ops ($VERIF_OPS, one per line; results to $VERIF_OUT, one per line, flushed):
//   load <tl2 whitelist | -> <schema file>...      -> ok <n top-level objects> | err <message>     (first line)
//   sup                                            -> ok <tlName>=1 | <tlName>=0:<why> ; ...        (CreateValue under recover)
//   rw1 <san> <tid> <tlName> <boxed> <hex>         -> ok <consumed> <rewritten hex | writeerr> | eof | reject | unsupported
//   rw2 <tlName> <hex>                             -> ok <consumed> <rewritten hex> | reject | unsupported
//   rand2 <tlName> <seed>                          -> ok <TL2 bytes of the interpreter's own Random value> | unsupported
//   c12 <tlName> <tl1 boxed hex>                   -> ok <the value written as TL2> | reject | unsupported
// a per-operation watchdog (VERIF_OTF_WATCHDOG_MS, default 8000) writes `crash watchdog` and exits.
package onthefly

import (
	"bufio"
	"encoding/hex"
	"errors"
	"fmt"
	"io"
	"math/rand/v2"
	"os"
	"sort"
	"strconv"
	"strings"
	"sync"
	"testing"
	"time"

	"github.com/VKCOM/tl/internal/pure"
)

func vUnhex(s string) []byte {
	if s == "-" {
		return []byte{}
	}
	b, err := hex.DecodeString(s)
	if err != nil {
		panic("bad hex in op")
	}
	return b
}

func vHx(b []byte) string {
	if len(b) == 0 {
		return "-"
	}
	return hex.EncodeToString(b)
}

type vOtf struct {
	kernel *pure.Kernel
	tops   map[string]pure.TypeInstance
}

func (o *vOtf) load(args []string) string {
	opt := &pure.OptionsKernel{TypesWhiteList: "*", ErrorWriter: io.Discard}
	if args[0] != "-" {
		opt.TL2WhiteList = args[0]
	}
	k := pure.NewKernel(opt)
	if err := k.AddFilesFromPaths(args[1:]); err != nil {
		return "err " + strings.ReplaceAll(err.Error(), "\n", " ")
	}
	if err := k.Compile(); err != nil {
		return "err " + strings.ReplaceAll(err.Error(), "\n", " ")
	}
	o.kernel = k
	o.tops = map[string]pure.TypeInstance{}
	for _, ins := range k.AllTypeInstances() {
		c := ins.Common()
		if c.IsTopLevel() && len(c.NatParams()) == 0 {
			o.tops[c.TLName().String()] = ins
		}
	}
	return "ok " + strconv.Itoa(len(o.tops))
}

func vCreate(ins pure.TypeInstance) (v KernelValue, why string) {
	defer func() {
		if r := recover(); r != nil {
			v, why = nil, strings.ReplaceAll(fmt.Sprint(r), "\n", " ")
		}
	}()
	return CreateValue(ins), ""
}

func (o *vOtf) run(f []string) (out string) {
	defer func() {
		if r := recover(); r != nil {
			out = "panic " + strings.ReplaceAll(fmt.Sprint(r), "\n", " ")
		}
	}()
	switch f[0] {
	case "load":
		return o.load(f[1:])
	case "sup":
		var parts []string
		for name, ins := range o.tops {
			if _, why := vCreate(ins); why != "" {
				parts = append(parts, name+"=0:"+strings.ReplaceAll(why, " ", "_"))
			} else {
				parts = append(parts, name+"=1")
			}
		}
		sort.Strings(parts)
		return "ok " + strings.Join(parts, " ; ")
	case "rw1":
		ins := o.tops[f[3]]
		if ins == nil {
			return "unsupported no-instance"
		}
		val, why := vCreate(ins)
		if val == nil {
			return "unsupported " + why
		}
		in := vUnhex(f[5])
		bare := f[4] != "1"
		rest, _, err := val.ReadTL1(in, nil, bare, nil)
		if err != nil {
			if errors.Is(err, io.ErrUnexpectedEOF) {
				return "eof"
			}
			return "reject"
		}
		consumed := strconv.Itoa(len(in) - len(rest))
		w, werr := func() (b []byte, e string) {
			defer func() {
				if r := recover(); r != nil {
					e = "writeerr"
				}
			}()
			var bb ByteBuilder
			_ = val.WriteTL1(&bb, bare, nil, false, 0, nil)
			return bb.Buf(), ""
		}()
		if werr != "" {
			return "ok " + consumed + " writeerr"
		}
		return "ok " + consumed + " " + vHx(w)
	case "c12": // c12 <tlName> <tl1 boxed hex>: ReadTL1Boxed, then WriteTL2 -> ok <tl2 hex> | reject | unsupported
		ins := o.tops[f[1]]
		if ins == nil {
			return "unsupported no-instance"
		}
		val, why := vCreate(ins)
		if val == nil {
			return "unsupported " + why
		}
		if _, _, err := val.ReadTL1(vUnhex(f[2]), nil, false, nil); err != nil {
			return "reject"
		}
		var bb ByteBuilder
		val.WriteTL2(&bb, false, false, 0, nil)
		return "ok " + vHx(bb.Buf())
	case "rand2": // rand2 <tlName> <seed>: the interpreter's own Random value, written as TL2 -> ok <hex> | unsupported
		ins := o.tops[f[1]]
		if ins == nil {
			return "unsupported no-instance"
		}
		val, why := vCreate(ins)
		if val == nil {
			return "unsupported " + why
		}
		seed, _ := strconv.ParseUint(f[2], 10, 64)
		val.Random(rand.New(rand.NewPCG(seed, seed^0x9e3779b97f4a7c15)))
		var bb ByteBuilder
		val.WriteTL2(&bb, false, false, 0, nil)
		return "ok " + vHx(bb.Buf())
	case "rw2":
		ins := o.tops[f[1]]
		if ins == nil {
			return "unsupported no-instance"
		}
		val, why := vCreate(ins)
		if val == nil {
			return "unsupported " + why
		}
		in := vUnhex(f[2])
		rest, err := val.ReadTL2(in, nil)
		if err != nil {
			return "reject"
		}
		var bb ByteBuilder
		val.WriteTL2(&bb, false, false, 0, nil)
		return "ok " + strconv.Itoa(len(in)-len(rest)) + " " + vHx(bb.Buf())
	}
	return "driver-error unknown op " + f[0]
}

func TestVerifOtf(t *testing.T) {
	in, err := os.Open(os.Getenv("VERIF_OPS"))
	if err != nil {
		t.Skip("no VERIF_OPS")
	}
	defer in.Close()
	outf, err := os.OpenFile(os.Getenv("VERIF_OUT"), os.O_CREATE|os.O_WRONLY|os.O_APPEND, 0o644)
	if err != nil {
		t.Fatal(err)
	}
	defer outf.Close()
	wd := 8000
	if s := os.Getenv("VERIF_OTF_WATCHDOG_MS"); s != "" {
		wd, _ = strconv.Atoi(s)
	}
	var mu sync.Mutex
	emit := func(s string) {
		mu.Lock()
		defer mu.Unlock()
		outf.WriteString(s + "\n")
	}
	var o vOtf
	sc := bufio.NewScanner(in)
	sc.Buffer(make([]byte, 1<<20), 1<<28)
	for sc.Scan() {
		f := strings.Fields(sc.Text())
		if len(f) == 0 {
			emit("")
			continue
		}
		d := time.Duration(wd) * time.Millisecond
		if f[0] == "load" || f[0] == "sup" {
			d = 10 * time.Minute // compiling the schema is not under test; the machine may be loaded
		}
		timer := time.AfterFunc(d, func() {
			mu.Lock()
			outf.WriteString("crash watchdog\n")
			outf.Sync()
			os.Exit(3)
		})
		res := o.run(f)
		timer.Stop()
		emit(res)
	}
}
