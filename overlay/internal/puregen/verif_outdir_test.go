//go:build verif

// C16 / C15 harness: runs OutDir.Write through histories of generations in a sandbox
// directory and utils.WalkDeterministic on random trees (protocol: ocaml/drv_outdir.ml).
package puregen

import (
	"io"
	"os"
	"path/filepath"
	"strings"
	"testing"

	"github.com/VKCOM/tl/internal/utils"
)

func verifPureGen(outAbs string, marker string, mc []byte, items map[string]string) error {
	var od OutDir
	for name, code := range items {
		if err := od.AddCodeFile(name, code); err != nil {
			return err
		}
	}
	opts := &Options{Outdir: outAbs, ErrorWriter: io.Discard}
	return od.Write(opts, marker)
}

func verifWalk(ext, roots, tree string) string {
	top, err := os.MkdirTemp(verifScratch(), "verif-walk-")
	if err != nil {
		return "harness-error " + err.Error()
	}
	defer os.RemoveAll(top)
	for _, m := range verifSplit(tree, ",") {
		if err := verifApplyMut(top, m); err != nil {
			return "harness-error " + strings.ReplaceAll(err.Error(), " ", "_")
		}
	}
	var rs []string
	for _, r := range verifSplit(roots, ",") {
		rs = append(rs, filepath.Join(top, filepath.FromSlash(r)))
	}
	res, err := utils.WalkDeterministic(ext, rs...)
	if err != nil {
		return "err"
	}
	if len(res) == 0 {
		return "ok -"
	}
	for i, p := range res {
		rel, err := filepath.Rel(top, p)
		if err != nil {
			return "harness-error " + err.Error()
		}
		res[i] = filepath.ToSlash(rel)
	}
	return "ok " + strings.Join(res, ",")
}

func TestVerifOutdir(t *testing.T) {
	devnull, _ := os.OpenFile(os.DevNull, os.O_WRONLY, 0)
	saved := os.Stdout
	os.Stdout = devnull // OutDir.Write prints a statistics line per call
	defer func() { os.Stdout = saved }()
	err := verifEachLine(func(f []string) string {
		switch {
		case len(f) == 6 && f[0] == "hist" && f[1] == "pure":
			return verifRunHist(f[2], f[3], f[4], f[5], verifPureGen, nil)
		case len(f) == 4 && f[0] == "walk":
			return verifWalk(f[1], f[2], f[3])
		}
		return "harness-error unknown op"
	})
	if err != nil {
		t.Fatal(err)
	}
}
