//go:build verif

// C14 harness (protocol: ocaml/drv_build.ml).
//
//	dec <fill 0|1> n1 n2 ...   one fresh Deconflicter (FillGolangIdentifies first when fill=1),
//	                           DeconflictName on every request in order -> ok r1 r2 ...
//	camel s | upfirst s | lowfirst s   -> utils.CNameToCamelName / ToUpperFirst / ToLowerFirst
//	scan <gen dir>             parses the Go code a tl2gen run wrote (go/parser, no type check) and
//	                           prints one JSON object: constants (name, TL name of the comment),
//	                           exported identifiers of the helpers file, and for every struct type
//	                           of gen/internal: file, fields, methods, TLName() literal
//
// "-" stands for the empty string.  Self-contained: compiled alone into the package.
package puregen

import (
	"bufio"
	"encoding/json"
	"fmt"
	"go/ast"
	"go/parser"
	"go/token"
	"os"
	"path/filepath"
	"sort"
	"strconv"
	"strings"
	"testing"

	"github.com/VKCOM/tl/internal/utils"
)

func verifBuildTok(s string) string {
	if s == "-" {
		return ""
	}
	return s
}

func verifBuildOut(s string) string {
	if s == "" {
		return "-"
	}
	return s
}

type verifBuildStruct struct {
	Name    string   `json:"name"`
	File    string   `json:"file"`
	Fields  []string `json:"fields"`
	Methods []string `json:"methods"`
	TLName  string   `json:"tlname"`
}

type verifBuildScan struct {
	Consts  [][2]string         `json:"consts"`
	Helpers []string            `json:"helpers"`
	Structs []*verifBuildStruct `json:"structs"`
	Errors  []string            `json:"errors"`
}

func verifBuildRecvName(fd *ast.FuncDecl) string {
	if fd.Recv == nil || len(fd.Recv.List) != 1 {
		return ""
	}
	t := fd.Recv.List[0].Type
	if st, ok := t.(*ast.StarExpr); ok {
		t = st.X
	}
	if id, ok := t.(*ast.Ident); ok {
		return id.Name
	}
	return ""
}

func verifBuildScanDir(gen string) string {
	res := verifBuildScan{Consts: [][2]string{}, Helpers: []string{}, Structs: []*verifBuildStruct{}, Errors: []string{}}
	fset := token.NewFileSet()
	// constants
	if f, err := parser.ParseFile(fset, filepath.Join(gen, "constants", "constants.go"), nil, parser.ParseComments); err != nil {
		res.Errors = append(res.Errors, "constants: "+err.Error())
	} else {
		for _, d := range f.Decls {
			gd, ok := d.(*ast.GenDecl)
			if !ok || gd.Tok != token.CONST {
				continue
			}
			for _, sp := range gd.Specs {
				vs := sp.(*ast.ValueSpec)
				c := ""
				if vs.Comment != nil {
					c = strings.TrimSpace(vs.Comment.Text())
				}
				for _, n := range vs.Names {
					res.Consts = append(res.Consts, [2]string{n.Name, c})
				}
			}
		}
	}
	byName := map[string]*verifBuildStruct{}
	methods := map[string][]string{}
	tlnames := map[string]string{}
	_ = filepath.Walk(filepath.Join(gen, "internal"), func(path string, info os.FileInfo, err error) error {
		if err != nil || info.IsDir() || !strings.HasSuffix(path, ".go") {
			return nil
		}
		f, err := parser.ParseFile(fset, path, nil, 0)
		if err != nil {
			res.Errors = append(res.Errors, err.Error())
			return nil
		}
		rel, _ := filepath.Rel(gen, path)
		isHelpers := filepath.Base(path) == "a_tlgen_helpers_code.go"
		for _, d := range f.Decls {
			switch x := d.(type) {
			case *ast.GenDecl:
				for _, sp := range x.Specs {
					switch s := sp.(type) {
					case *ast.TypeSpec:
						if isHelpers {
							if ast.IsExported(s.Name.Name) {
								res.Helpers = append(res.Helpers, s.Name.Name)
							}
							continue
						}
						st, ok := s.Type.(*ast.StructType)
						if !ok {
							continue
						}
						rec := &verifBuildStruct{Name: s.Name.Name, File: filepath.ToSlash(rel), Fields: []string{}, Methods: []string{}}
						for _, fl := range st.Fields.List {
							for _, n := range fl.Names {
								rec.Fields = append(rec.Fields, n.Name)
							}
						}
						byName[s.Name.Name] = rec
						res.Structs = append(res.Structs, rec)
					case *ast.ValueSpec:
						if isHelpers {
							for _, n := range s.Names {
								if ast.IsExported(n.Name) {
									res.Helpers = append(res.Helpers, n.Name)
								}
							}
						}
					}
				}
			case *ast.FuncDecl:
				if x.Recv == nil {
					if isHelpers && ast.IsExported(x.Name.Name) {
						res.Helpers = append(res.Helpers, x.Name.Name)
					}
					continue
				}
				if isHelpers {
					continue
				}
				r := verifBuildRecvName(x)
				methods[r] = append(methods[r], x.Name.Name)
				if x.Name.Name == "TLName" && x.Body != nil && len(x.Body.List) == 1 {
					if rs, ok := x.Body.List[0].(*ast.ReturnStmt); ok && len(rs.Results) == 1 {
						if bl, ok := rs.Results[0].(*ast.BasicLit); ok && bl.Kind == token.STRING {
							if v, err := strconv.Unquote(bl.Value); err == nil {
								tlnames[r] = v
							}
						}
					}
				}
			}
		}
		return nil
	})
	for n, rec := range byName {
		rec.Methods = methods[n]
		if rec.Methods == nil {
			rec.Methods = []string{}
		}
		rec.TLName = tlnames[n]
	}
	sort.Slice(res.Structs, func(i, j int) bool { return res.Structs[i].Name < res.Structs[j].Name })
	sort.Strings(res.Helpers)
	b, err := json.Marshal(res)
	if err != nil {
		return "harness-error " + err.Error()
	}
	return "ok " + string(b)
}

func verifBuildOp(f []string) (res string) {
	defer func() {
		if r := recover(); r != nil {
			res = "panic " + strings.ReplaceAll(fmt.Sprint(r), "\n", " ")
		}
	}()
	switch {
	case len(f) >= 2 && f[0] == "dec":
		var d Deconflicter
		if f[1] == "1" {
			d.FillGolangIdentifies()
		}
		out := make([]string, 0, len(f))
		for _, s := range f[2:] {
			out = append(out, verifBuildOut(d.DeconflictName(verifBuildTok(s))))
		}
		return "ok " + strings.Join(out, " ")
	case len(f) == 2 && f[0] == "camel":
		return "ok " + verifBuildOut(utils.CNameToCamelName(verifBuildTok(f[1])))
	case len(f) == 2 && f[0] == "upfirst":
		return "ok " + verifBuildOut(utils.ToUpperFirst(verifBuildTok(f[1])))
	case len(f) == 2 && f[0] == "lowfirst":
		return "ok " + verifBuildOut(utils.ToLowerFirst(verifBuildTok(f[1])))
	case len(f) == 2 && f[0] == "scan":
		return verifBuildScanDir(f[1])
	}
	return "harness-error unknown op"
}

func TestVerifBuild(t *testing.T) {
	in, err := os.Open(os.Getenv("VERIF_OPS"))
	if err != nil {
		t.Fatal(err)
	}
	defer in.Close()
	out, err := os.Create(os.Getenv("VERIF_OUT"))
	if err != nil {
		t.Fatal(err)
	}
	w := bufio.NewWriterSize(out, 1<<20)
	sc := bufio.NewScanner(in)
	sc.Buffer(make([]byte, 1<<20), 1<<28)
	for sc.Scan() {
		line := sc.Text()
		if line == "" {
			continue
		}
		fmt.Fprintln(w, verifBuildOp(strings.Fields(line)))
	}
	if err := w.Flush(); err != nil {
		t.Fatal(err)
	}
	if err := out.Close(); err != nil {
		t.Fatal(err)
	}
}
