//go:build verif

// Add-only overlay harness of the Obj family (C18): translator T-gen.
// Runs the REAL Go generator front half (Generate up to and including compile(), i.e. with the
// generator's own kernel options -- InstantiateConstants -- and prepareGeneration, which decides
// which fields are stored by pointer: Field.recursive) and dumps the resolved type instances in
// the JSON format of overlay/cmd/verifdump plus the facts only the generator knows:
//   fields[i].rec          Field.recursive (IncreaseDepth/DecreaseDepth around the field in FillRandom)
//   fields[i].useMask/useSize/useBits   pure.GetNatFieldUsage(i, true, true) exactly as randomFields calls it
//   fields[i].omitted      Field.IsTL2Omitted()
//   variantRec[i]          Variant.recursive of unions
// op line:  <dump.json> <tl2gen argument>...        result line: ok <n instances> | err <message>
package gengo

import (
	"bufio"
	"encoding/json"
	"flag"
	"fmt"
	"io"
	"os"
	"strings"
	"testing"

	"github.com/VKCOM/tl/internal/pure"
	"github.com/VKCOM/tl/internal/puregen"
)

type vNatArg struct {
	Kind  string `json:"kind"`
	Value uint32 `json:"value"`
	Name  string `json:"name,omitempty"`
}

type vField struct {
	Name    string    `json:"name"`
	Type    int       `json:"type"`
	Bare    bool      `json:"bare"`
	Mask    *vNatArg  `json:"mask"`
	Bit     uint32    `json:"bit"`
	NatArgs []vNatArg `json:"natArgs"`
	TL2Bit  *int      `json:"tl2bit"`
	IsBit   bool      `json:"isBit"`
	Rec     bool      `json:"rec"`
	UseMask bool      `json:"useMask"`
	UseSize bool      `json:"useSize"`
	UseBits uint32    `json:"useBits"`
	Omitted bool      `json:"omitted"`
}

type vInstance struct {
	ID         int       `json:"id"`
	Kind       string    `json:"kind"`
	Name       string    `json:"name"`
	TLName     string    `json:"tlName"`
	Tag        uint32    `json:"tag"`
	NatParams  []string  `json:"natParams"`
	TopLevel   bool      `json:"topLevel"`
	HasTL2     bool      `json:"hasTL2"`
	OriginTL2  bool      `json:"originTL2"`
	BoxedOnly  bool      `json:"boxedOnly"`
	MapKey     bool      `json:"goodForMapKey"`
	Fields     []vField  `json:"fields,omitempty"`
	UnionElem  bool      `json:"isUnionElement,omitempty"`
	UnionIndex int       `json:"unionIndex,omitempty"`
	IsTypedef  bool      `json:"isTypedef,omitempty"`
	IsAlias    bool      `json:"isAlias,omitempty"`
	IsUnwrap   bool      `json:"isUnwrap,omitempty"`
	IsFunction bool      `json:"isFunction,omitempty"`
	Result     *vField   `json:"result,omitempty"`
	Variants   []int     `json:"variants,omitempty"`
	VarNames   []string  `json:"variantNames,omitempty"`
	VariantRec []bool    `json:"variantRec,omitempty"`
	IsEnum     bool      `json:"isEnum,omitempty"`
	IsMaybe    bool      `json:"isMaybe,omitempty"`
	ElemArgs   []vNatArg `json:"elementNatArgs,omitempty"`
	IsTuple    bool      `json:"isTuple,omitempty"`
	Dynamic    bool      `json:"dynamicSize,omitempty"`
	Count      uint32    `json:"count,omitempty"`
	Elem       *vField   `json:"elem,omitempty"`
	FalseTag   uint32    `json:"falseTag,omitempty"`
	TrueTag    uint32    `json:"trueTag,omitempty"`
	GoKind     string    `json:"goKind"` // generator's view: struct | union | maybe | brackets | dict | primitive | bool
	GoName     string    `json:"goName"`
}

func vObjDump(outPath string, args []string) (n int, err error) {
	defer func() {
		if r := recover(); r != nil {
			err = fmt.Errorf("panic: %v", r)
		}
	}()
	opt := puregen.Options{ErrorWriter: io.Discard}
	fs := flag.NewFlagSet("verif", flag.ContinueOnError)
	fs.SetOutput(io.Discard)
	opt.Bind(fs, "go")
	if err := fs.Parse(args); err != nil {
		return 0, err
	}
	if err := opt.Validate(); err != nil {
		return 0, err
	}
	kernel := pure.NewKernel(&opt.Kernel)
	if err := kernel.AddFilesFromPaths(fs.Args()); err != nil {
		return 0, err
	}
	// --- the front half of gengo.Generate, verbatim
	options := &opt
	options.Kernel.InstantiateConstants = true
	if err := kernel.Compile(); err != nil {
		return 0, err
	}
	gen := genGo{
		kernel:         kernel,
		options:        options,
		Namespaces:     map[string]*Namespace{},
		generatedTypes: map[string]*TypeRWWrapper{},
	}
	if err := gen.prepareOptions(); err != nil {
		return 0, err
	}
	gen.bytesWhiteList = pure.NewWhiteList("--generateByteVersions", options.BytesWhiteList)
	gen.rawHandlerWhileList = pure.NewWhiteList("--rawHandlerWhiteList", options.Go.RawHandlerWhileList)
	if err := gen.compile(); err != nil {
		return 0, err
	}
	// --- dump (same walk as overlay/cmd/verifdump)
	all := kernel.AllTypeInstances()
	ids := map[pure.TypeInstance]int{}
	for i, ins := range all {
		ids[ins] = i
	}
	for i := 0; i < len(all); i++ {
		var ch []pure.TypeInstance
		ch = all[i].GetChildren(ch, true)
		if u, ok := all[i].(*pure.TypeInstanceUnion); ok {
			for _, v := range u.VariantTypes() {
				ch = append(ch, v)
			}
		}
		for _, c := range ch {
			if c == nil {
				continue
			}
			if _, ok := ids[c]; !ok {
				ids[c] = len(all)
				all = append(all, c)
			}
		}
	}
	id := func(ins pure.TypeInstance) int {
		if v, ok := ids[ins]; ok {
			return v
		}
		return -1
	}
	na := func(a pure.ActualNatArg) vNatArg {
		switch {
		case a.IsNumber():
			return vNatArg{Kind: "num", Value: a.Number()}
		case a.IsField():
			return vNatArg{Kind: "field", Value: uint32(a.FieldIndex()), Name: a.NatParamName()}
		default:
			return vNatArg{Kind: "param", Value: uint32(a.FieldIndex()), Name: a.NatParamName()}
		}
	}
	nas := func(l []pure.ActualNatArg) []vNatArg {
		r := []vNatArg{}
		for _, a := range l {
			r = append(r, na(a))
		}
		return r
	}
	fld := func(f pure.Field) vField {
		r := vField{Name: f.Name(), Type: id(f.TypeInstance()), Bare: f.Bare(), Bit: f.BitNumber(),
			NatArgs: nas(f.NatArgs()), TL2Bit: f.MaskTL2Bit(), IsBit: f.IsBit()}
		if f.FieldMask() != nil {
			m := na(*f.FieldMask())
			r.Mask = &m
		}
		return r
	}
	var out []vInstance
	for i, ins := range all {
		c := ins.Common()
		x := vInstance{ID: i, Name: ins.CanonicalName(), TLName: c.TLName().String(), Tag: c.TLTag(),
			NatParams: append([]string{}, c.NatParams()...), TopLevel: c.IsTopLevel(), HasTL2: c.HasTL2(),
			OriginTL2: c.OriginTL2(), BoxedOnly: ins.BoxedOnly(), MapKey: ins.GoodForMapKey()}
		wr := gen.generatedTypes[ins.CanonicalName()]
		if wr != nil {
			x.GoName = wr.goGlobalName
			switch wr.trw.(type) {
			case *TypeRWStruct:
				x.GoKind = "struct"
			case *TypeRWUnion:
				x.GoKind = "union"
			case *TypeRWMaybe:
				x.GoKind = "maybe"
			case *TypeRWBrackets:
				x.GoKind = "brackets"
			case *TypeRWDict:
				x.GoKind = "dict"
			case *TypeRWPrimitive:
				x.GoKind = "primitive"
			case *TypeRWBool:
				x.GoKind = "bool"
			default:
				x.GoKind = fmt.Sprintf("%T", wr.trw)
			}
		} else {
			x.GoKind = "none"
		}
		switch t := ins.(type) {
		case *pure.TypeInstancePrimitive:
			x.Kind = "prim"
			_, x.FalseTag, x.TrueTag = t.IsTL1Bool()
		case *pure.TypeInstanceStruct:
			x.Kind = "struct"
			x.Fields = []vField{}
			var gs *TypeRWStruct
			if wr != nil {
				gs, _ = wr.trw.(*TypeRWStruct)
			}
			for fi, f := range t.Fields() {
				vf := fld(f)
				if gs != nil && fi < len(gs.Fields) {
					vf.Rec = gs.Fields[fi].recursive
					vf.Omitted = gs.Fields[fi].IsTL2Omitted()
				}
				u := t.GetNatFieldUsage(fi, true, true)
				vf.UseMask, vf.UseSize = u.UsedAsMask, u.UsedAsSize
				for _, b := range u.UsedBits() {
					vf.UseBits |= 1 << b
				}
				x.Fields = append(x.Fields, vf)
			}
			x.UnionElem, x.UnionIndex = t.IsUnionElement(), t.UnionIndex()
			x.IsTypedef, x.IsAlias, x.IsUnwrap = t.IsTypedef(), t.IsAlias(), t.IsUnwrap()
			if t.ResultType() != nil {
				x.IsFunction = true
				x.Result = &vField{Type: id(t.ResultType()), Bare: t.ResultTypeBare(), NatArgs: nas(t.ResultNatArgs())}
			}
		case *pure.TypeInstanceUnion:
			x.Kind = "union"
			for _, v := range t.VariantTypes() {
				x.Variants = append(x.Variants, id(v))
			}
			x.VarNames = t.VariantNames()
			x.IsEnum = t.IsEnum()
			x.IsMaybe, _ = t.IsUnionMaybe()
			x.ElemArgs = nas(t.ElementNatArgs())
			if wr != nil {
				if gu, ok := wr.trw.(*TypeRWUnion); ok {
					for _, v := range gu.Fields {
						x.VariantRec = append(x.VariantRec, v.recursive)
					}
				}
			}
		case *pure.TypeInstanceArray:
			x.Kind = "array"
			x.IsTuple, x.Dynamic, x.Count = t.IsTuple(), t.DynamicSize(), t.Count()
			f := fld(t.Field())
			x.Elem = &f
		case *pure.TypeInstanceDict:
			x.Kind = "dict"
			f := fld(t.Field())
			x.Elem = &f
		default:
			x.Kind = fmt.Sprintf("unknown:%T", ins)
		}
		out = append(out, x)
	}
	of, err := os.Create(outPath)
	if err != nil {
		return 0, err
	}
	defer of.Close()
	enc := json.NewEncoder(of)
	enc.SetIndent("", " ")
	if err := enc.Encode(out); err != nil {
		return 0, err
	}
	return len(out), nil
}

func TestVerifObjDump(t *testing.T) {
	in, err := os.Open(os.Getenv("VERIF_OPS"))
	if err != nil {
		t.Skip("no VERIF_OPS")
	}
	defer in.Close()
	outf, err := os.Create(os.Getenv("VERIF_OUT"))
	if err != nil {
		t.Fatal(err)
	}
	defer outf.Close()
	w := bufio.NewWriter(outf)
	defer w.Flush()
	sc := bufio.NewScanner(in)
	sc.Buffer(make([]byte, 1<<20), 1<<26)
	for sc.Scan() {
		f := strings.Fields(sc.Text())
		if len(f) < 2 {
			fmt.Fprintln(w, "err bad op")
			continue
		}
		n, err := vObjDump(f[0], f[1:])
		if err != nil {
			fmt.Fprintln(w, "err "+strings.ReplaceAll(err.Error(), "\n", " "))
		} else {
			fmt.Fprintf(w, "ok %d\n", n)
		}
	}
}
