//go:build verif

// Sandbox helpers shared by the C16/C15 overlay harnesses (add-only file; also compiled into
// internal/tlcodegen with the package clause rewritten by lib/checks/outdir_lib.py).
package puregen

import (
	"bufio"
	"encoding/hex"
	"fmt"
	"os"
	"path/filepath"
	"sort"
	"strings"
	"time"
)

var verifT0 = time.Unix(1000000000, 0)

// temp dirs live next to $VERIF_OUT (the check's scratch dir under /var/tmp), never in /tmp
func verifScratch() string {
	if o := os.Getenv("VERIF_OUT"); o != "" {
		return filepath.Dir(o)
	}
	return ""
}

func verifUnhex(s string) []byte {
	if s == "-" || s == "" {
		return nil
	}
	b, err := hex.DecodeString(s)
	if err != nil {
		panic(err)
	}
	return b
}

func verifHex(b []byte) string {
	if len(b) == 0 {
		return "-"
	}
	return hex.EncodeToString(b)
}

func verifSplit(s string, sep string) []string {
	if s == "-" || s == "" {
		return nil
	}
	return strings.Split(s, sep)
}

func verifAbs(root, p string) string {
	if p == "." {
		return root
	}
	return filepath.Join(root, filepath.FromSlash(p))
}

// foreign modification of the tree: d:<path> | f:<path>:<hex> | x:<path>
func verifApplyMut(root, m string) error {
	f := strings.Split(m, ":")
	switch {
	case len(f) == 2 && f[0] == "d":
		_ = os.MkdirAll(verifAbs(root, f[1]), 0755)
		return nil
	case len(f) == 3 && f[0] == "f":
		p := verifAbs(root, f[1])
		if err := os.MkdirAll(filepath.Dir(p), 0755); err != nil {
			return nil // impossible modifications are skipped (the model driver does the same)
		}
		_ = os.WriteFile(p, verifUnhex(f[2]), 0644)
		return nil
	case len(f) == 2 && f[0] == "x":
		_ = os.RemoveAll(verifAbs(root, f[1]))
		return nil
	}
	return fmt.Errorf("bad mutation %q", m)
}

// set the mtime of every regular file to verifT0 so that a rewrite becomes observable
func verifResetTimes(root string) error {
	return filepath.Walk(root, func(p string, info os.FileInfo, err error) error {
		if err != nil {
			return err
		}
		if info.Mode().IsRegular() {
			return os.Chtimes(p, verifT0, verifT0)
		}
		return nil
	})
}

// sorted list of entries: "<path>/" for directories, "<path>=<hex>@w|@k" for files
func verifDump(root string, norm func(rel string, content []byte) []byte) string {
	var res []string
	err := filepath.Walk(root, func(p string, info os.FileInfo, err error) error {
		if err != nil {
			return err
		}
		if p == root {
			return nil
		}
		rel, _ := filepath.Rel(root, p)
		rel = filepath.ToSlash(rel)
		switch {
		case info.IsDir():
			res = append(res, rel+"/")
		case info.Mode().IsRegular():
			c, err := os.ReadFile(p)
			if err != nil {
				return err
			}
			if norm != nil {
				c = norm(rel, c)
			}
			flag := "@k"
			if !info.ModTime().Equal(verifT0) {
				flag = "@w"
			}
			res = append(res, rel+"="+verifHex(c)+flag)
		default:
			res = append(res, rel+"?"+info.Mode().String())
		}
		return nil
	})
	if err != nil {
		return "dump-error:" + strings.ReplaceAll(err.Error(), " ", "_")
	}
	if len(res) == 0 {
		return "-"
	}
	sort.Strings(res)
	return strings.Join(res, ",")
}

type verifGenFunc func(outAbs string, marker string, mc []byte, items map[string]string) error

// run one history; gen performs one generation with the code under test
func verifRunHist(out, marker, init, steps string, gen verifGenFunc, norm func(string, []byte) []byte) string {
	top, err := os.MkdirTemp(verifScratch(), "verif-outdir-")
	if err != nil {
		return "harness-error " + err.Error()
	}
	defer os.RemoveAll(top)
	root := filepath.Join(top, "root")
	if err := os.Mkdir(root, 0755); err != nil {
		return "harness-error " + err.Error()
	}
	for _, m := range verifSplit(init, ",") {
		if err := verifApplyMut(root, m); err != nil {
			return "harness-error " + strings.ReplaceAll(err.Error(), " ", "_")
		}
	}
	var res []string
	if err := verifResetTimes(root); err != nil {
		return "harness-error " + err.Error()
	}
	res = append(res, "init "+verifDump(root, norm))
	for _, s := range verifSplit(steps, ";") {
		if err := verifResetTimes(root); err != nil {
			return "harness-error " + err.Error()
		}
		switch {
		case strings.HasPrefix(s, "m:"):
			for _, m := range verifSplit(s[2:], ",") {
				if err := verifApplyMut(root, m); err != nil {
					return "harness-error " + strings.ReplaceAll(err.Error(), " ", "_")
				}
			}
			if err := verifResetTimes(root); err != nil {
				return "harness-error " + err.Error()
			}
			res = append(res, "m "+verifDump(root, norm))
		case strings.HasPrefix(s, "g:"):
			f := strings.Split(s, ":")
			if len(f) != 3 {
				return "harness-error bad step"
			}
			items := map[string]string{}
			for _, it := range verifSplit(f[2], ",") {
				kv := strings.Split(it, "=")
				items[filepath.FromSlash(kv[0])] = string(verifUnhex(kv[1]))
			}
			done := make(chan error, 1)
			go func() {
				defer func() {
					if r := recover(); r != nil {
						done <- fmt.Errorf("panic: %v", r)
					}
				}()
				done <- gen(verifAbs(root, out), filepath.FromSlash(marker), verifUnhex(f[1]), items)
			}()
			var gerr error
			select {
			case gerr = <-done:
			case <-time.After(120 * time.Second):
				return strings.Join(append(res, "hang"), " | ")
			}
			switch {
			case gerr == nil:
				res = append(res, "ok "+verifDump(root, norm))
			case strings.HasPrefix(gerr.Error(), "panic:"):
				res = append(res, "panic")
				return strings.Join(res, " | ")
			case strings.Contains(gerr.Error(), "not empty and has no"):
				res = append(res, "refused "+verifDump(root, norm))
			default:
				res = append(res, "failed "+verifDump(root, norm))
				return strings.Join(res, " | ")
			}
		default:
			return "harness-error bad step"
		}
	}
	// nothing may appear next to the sandbox root
	if es, err := os.ReadDir(top); err != nil || len(es) != 1 {
		res = append(res, "ESCAPE")
	}
	return strings.Join(res, " | ")
}

// ops arrive in $VERIF_OPS, results go to $VERIF_OUT, one line per op
func verifEachLine(f func(fields []string) string) error {
	in, err := os.Open(os.Getenv("VERIF_OPS"))
	if err != nil {
		return err
	}
	defer in.Close()
	out, err := os.Create(os.Getenv("VERIF_OUT"))
	if err != nil {
		return err
	}
	defer out.Close()
	w := bufio.NewWriter(out)
	defer w.Flush()
	sc := bufio.NewScanner(in)
	sc.Buffer(make([]byte, 1<<20), 1<<28)
	for sc.Scan() {
		fields := strings.Fields(sc.Text())
		var line string
		func() {
			defer func() {
				if r := recover(); r != nil {
					line = "harness-panic " + strings.ReplaceAll(fmt.Sprint(r), "\n", " ")
				}
			}()
			line = f(fields)
		}()
		fmt.Fprintln(w, line)
	}
	return sc.Err()
}
