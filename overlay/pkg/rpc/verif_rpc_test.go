//go:build verif

// Add-only overlay harness for properties C38 (RPC calls receive exactly their own responses) and
// C39 (server worker / request memory limits).  Never copied into /repo; injected with go test -overlay.
// All identifiers are prefixed verifRpc (another overlay file shares this test package).
//
//	TestVerifRpcSeq  sequential operation lines (alloc / pc / wp / adm, see /verif/ocaml/drv_rpc.ml for the
//	                 grammar), one result line per operation line -- compared with the extracted model.
//	TestVerifRpcMux  concurrent call mixes against a real Server + Client; one line per observed event.
//	TestVerifRpcAdm  concurrent bursts against a real Server with small limits; one summary line per scenario.
package rpc

import (
	"bufio"
	"context"
	"crypto/sha256"
	"encoding/binary"
	"errors"
	"fmt"
	"math"
	mrand "math/rand"
	"net"
	"os"
	"path/filepath"
	"sort"
	"strconv"
	"strings"
	"sync"
	"sync/atomic"
	"testing"
	"time"

	"github.com/VKCOM/tl/internal/vkgo/pkg/semaphore"
)

// ---------------------------------------------------------------------------------------------- plumbing

func verifRpcReadOps(t *testing.T) []string {
	f, err := os.Open(os.Getenv("VERIF_OPS"))
	if err != nil {
		t.Fatalf("VERIF_OPS: %v", err)
	}
	defer f.Close()
	var res []string
	sc := bufio.NewScanner(f)
	sc.Buffer(make([]byte, 1<<20), 1<<28)
	for sc.Scan() {
		if strings.TrimSpace(sc.Text()) != "" {
			res = append(res, sc.Text())
		}
	}
	return res
}

func verifRpcWriteOut(t *testing.T, lines []string) {
	if err := os.WriteFile(os.Getenv("VERIF_OUT"), []byte(strings.Join(lines, "\n")+"\n"), 0o644); err != nil {
		t.Fatalf("VERIF_OUT: %v", err)
	}
}

func verifRpcKV(fields []string) map[string]string {
	m := map[string]string{}
	for _, f := range fields {
		if i := strings.IndexByte(f, '='); i > 0 {
			m[f[:i]] = f[i+1:]
		}
	}
	return m
}

func verifRpcAtoi(s string) int {
	v, err := strconv.Atoi(s)
	if err != nil {
		panic("bad int " + s)
	}
	return v
}

func verifRpcList(items []string) string {
	if len(items) == 0 {
		return "-"
	}
	return strings.Join(items, ",")
}

func verifRpcB01(b bool) string {
	if b {
		return "1"
	}
	return "0"
}

// ---------------------------------------------------------------------------------------------- TestVerifRpcSeq

func TestVerifRpcSeq(t *testing.T) {
	ops := verifRpcReadOps(t)
	out := make([]string, 0, len(ops))
	// results are also appended line by line, so that a crash or a deadlock of the code under test leaves the
	// results produced so far
	partial, perr := os.OpenFile(os.Getenv("VERIF_OUT"), os.O_CREATE|os.O_TRUNC|os.O_WRONLY, 0o644)
	if perr != nil {
		t.Fatalf("VERIF_OUT: %v", perr)
	}
	defer partial.Close()
	for _, line := range ops {
		f := strings.Fields(line)
		var res string
		func() {
			defer func() {
				if r := recover(); r != nil {
					res = fmt.Sprintf("harness-panic %v", r)
				}
			}()
			switch f[0] {
			case "alloc":
				res = verifRpcAlloc(f[1], verifRpcAtoi(f[2]))
			case "pc":
				res = verifRpcPc(f[1:])
			case "wp":
				res = verifRpcWp(verifRpcAtoi(f[1]), f[2:])
			case "adm":
				res = verifRpcAdmSeq(verifRpcAtoi(f[1]), verifRpcAtoi(f[2]), f[3:])
			default:
				res = "driver-error unknown op " + line
			}
		}()
		out = append(out, res)
		_, _ = partial.WriteString(res + "\n")
	}
}

func verifRpcAlloc(last string, n int) string {
	c := NewClient(ClientWithLogf(NoopLogf)).(*ClientImpl)
	defer c.Close()
	l, err := strconv.ParseUint(last, 10, 64)
	if err != nil {
		panic(err)
	}
	c.lastQueryID.Store(l)
	var qs []string
	for i := 0; i < n; i++ {
		req := c.GetRequest()
		qs = append(qs, strconv.FormatInt(req.QueryID(), 10))
	}
	return "ok " + verifRpcList(qs) + " last=" + strconv.FormatUint(c.lastQueryID.Load(), 10)
}

type verifRpcPcCall struct {
	q        int64
	resp     *Response
	started  bool // setupCallLocked succeeded
	returned bool // doWait returned and the Response went back to the pool (it may be reused by a later call)
	reported bool // its delivery was already listed under dlv=
}

func verifRpcErrName(err error) string {
	switch {
	case err == nil:
		return "resp"
	case err == ErrClientConnClosedSideEffect:
		return "side"
	case err == ErrClientConnClosedNoSideEffect:
		return "noside"
	case err == ErrClientClosed:
		return "closed"
	case err == context.DeadlineExceeded:
		return "deadline"
	}
	return "other(" + err.Error() + ")"
}

func verifRpcPc(ops []string) string {
	c := NewClient(ClientWithLogf(NoopLogf)).(*ClientImpl)
	defer c.Close()
	c.lastQueryID.Store(1000)
	closeCC := make(chan struct{})
	pc := &clientConn{
		client:               c,
		address:              NetAddr{Network: "tcp4", Address: "127.0.0.1:1"},
		calls:                map[int64]*Response{},
		closeCC:              closeCC,
		resetReconnectDelayC: make(chan struct{}, 1),
	}
	pc.writeQCond.L = &pc.mu
	var calls []verifRpcPcCall
	idxOf := func(q int64) string {
		for i, cl := range calls {
			if cl.q == q {
				return strconv.Itoa(i)
			}
		}
		return "?" + strconv.FormatInt(q, 10)
	}
	stale := false
	var pipes []net.Conn
	defer func() {
		for _, p := range pipes {
			_ = p.Close()
		}
	}()
	dump := func(res string, extraDlv []string) string {
		// results sitting in the result channels (looked at and put back: only this goroutine touches them)
		dlv := append([]string{}, extraDlv...)
		var inChan []string
		pc.mu.Lock()
		for i := range calls {
			if _, pending := pc.calls[calls[i].q]; pending && !calls[i].returned && len(calls[i].resp.singleResult) != 0 {
				stale = true // a pending call already has a result in its channel: the next delivery would block for ever
			}
		}
		pc.mu.Unlock()
		for i := range calls {
			cl := &calls[i]
			if cl.returned || len(cl.resp.singleResult) == 0 {
				continue
			}
			r := <-cl.resp.singleResult
			cl.resp.singleResult <- r
			inChan = append(inChan, strconv.Itoa(i))
			if cl.reported {
				continue
			}
			cl.reported = true
			if r.resp != cl.resp {
				dlv = append(dlv, fmt.Sprintf("%d=WRONGRESP", i))
			} else {
				dlv = append(dlv, fmt.Sprintf("%d=%s", i, verifRpcErrName(r.err)))
			}
		}
		sort.Strings(dlv)
		pc.mu.Lock()
		defer pc.mu.Unlock()
		type ent struct {
			i    int
			sent bool
		}
		var es []ent
		for q, cctx := range pc.calls {
			i, err := strconv.Atoi(idxOf(q))
			if err != nil {
				i = -1
			}
			es = append(es, ent{i, cctx.req == nil})
		}
		sort.Slice(es, func(a, b int) bool { return es[a].i < es[b].i })
		var cs []string
		for _, e := range es {
			s := "u"
			if e.sent {
				s = "s"
			}
			cs = append(cs, strconv.Itoa(e.i)+s)
		}
		var wq []string
		for _, wr := range pc.writeQ {
			if wr.req != nil {
				wq = append(wq, "r"+idxOf(wr.queryID))
			} else {
				wq = append(wq, "c"+idxOf(wr.queryID))
			}
		}
		sort.Strings(wq)
		return fmt.Sprintf("%s calls=%s wq=%s inf=%d sh=%s fin=%s up=%s cl=%s wt=%s dlv=%s chan=%s", res,
			verifRpcList(cs), verifRpcList(wq), pc.inFlight, verifRpcB01(pc.isShutdown), verifRpcB01(pc.writeClientWantsFin),
			verifRpcB01(pc.conn != nil), verifRpcB01(pc.closeCC == nil), verifRpcB01(pc.waitingToReconnect), verifRpcList(dlv), verifRpcList(inChan))
	}
	var outs []string
	for _, op := range ops {
		f := strings.Split(op, ":")
		res := ""
		panicked := false
		func() {
			defer func() {
				if r := recover(); r != nil {
					panicked = true
				}
			}()
			switch f[0] {
			case "s":
				req := c.GetRequest()
				req.FailIfNoConnection = f[1] == "1"
				resp := c.getResponse(req)
				resp.result = resp.singleResult
				switch f[2] {
				case "p":
					resp.deadline = time.Now().Add(-time.Hour)
				case "f":
					resp.deadline = time.Now().Add(time.Hour)
				}
				calls = append(calls, verifRpcPcCall{q: req.QueryID(), resp: resp})
				pc.mu.Lock()
				err := pc.setupCallLocked(req, resp)
				pc.mu.Unlock()
				calls[len(calls)-1].started = err == nil
				if err == nil {
					res = dump("ok", nil)
				} else {
					res = dump(verifRpcErrName(err), nil)
				}
			case "m":
				var out []writeReqCancel
				func() {
					pc.mu.Lock()
					defer pc.mu.Unlock()
					out = pc.moveRequestsToSendLocked(nil)
				}()
				var outNames []string
				for _, wr := range out {
					if wr.req != nil {
						outNames = append(outNames, "r"+idxOf(wr.queryID))
						c.putRequest(wr.req) // as sendLoop does after writing
					} else {
						outNames = append(outNames, "c"+idxOf(wr.queryID))
					}
				}
				sort.Strings(outNames) // after a massCancel the queue is refilled in map-iteration order
				res = dump("out="+verifRpcList(outNames), nil)
			case "f":
				var q int64
				if f[1][0] == 'u' {
					q = int64(5 + verifRpcAtoi(f[1][1:]))
				} else {
					q = calls[verifRpcAtoi(f[1])].q
				}
				body := []byte{1, 2, 3, 4, 5, 6, 7, 8}
				owned, cb, _, _, closeNow := pc.finishCall(q, nil, body, true, nil)
				if closeNow != nil {
					_ = closeNow.Close()
				}
				var extra []string
				if cb.resp != nil {
					extra = append(extra, "callback")
				}
				res = dump("owned="+verifRpcB01(owned), extra)
			case "c":
				cctx, closeNow := pc.cancelCallImpl(calls[verifRpcAtoi(f[1])].q)
				if closeNow != nil {
					_ = closeNow.Close()
				}
				res = dump("found="+verifRpcB01(cctx != nil), nil)
			case "w":
				cl := &calls[verifRpcAtoi(f[1])]
				if !cl.started || cl.returned {
					res = "not-allowed"
					break
				}
				ctx, cancel := context.WithCancel(context.Background())
				cancel()
				_ = c.doWait(ctx, pc, cl.resp) // either select case may run when the result is already there
				dirty := len(cl.resp.singleResult)
				cl.returned = true
				c.PutResponse(cl.resp) // later s: ops take Responses from the pool
				res = dump(fmt.Sprintf("ret dirty=%d", dirty), nil)
			case "x":
				pc.dropClientConn()
				cbs, cont := pc.continueRunningImpl(f[1] == "1")
				var extra []string
				if len(cbs) != 0 {
					extra = append(extra, "callbacks")
				}
				res = dump("cont="+verifRpcB01(cont), extra)
			case "k":
				pc.close()
				res = dump("ok", nil)
			case "u":
				a, b := net.Pipe()
				pipes = append(pipes, a, b)
				ok := pc.setClientConn(NewPacketConn(a, 4096, 4096))
				res = dump("set="+verifRpcB01(ok), nil)
			case "h":
				pc.shutdown()
				res = dump("ok", nil)
			default:
				res = "bad-op " + op
			}
		}()
		if panicked {
			outs = append(outs, "panic")
			break
		}
		outs = append(outs, res)
		if stale {
			outs = append(outs, "STALE-RESULT-IN-PENDING-CALL")
			break
		}
	}
	return strings.Join(outs, " | ")
}

func verifRpcWp(create int, ops []string) string {
	t := workerPoolNew(create, nil)
	wg := semaphore.NewWeighted(math.MaxInt64)
	ids := map[*worker]int{}
	var byID []*worker // byID[id-1]
	busy := map[int]bool{}
	chClosedKnown := map[int]bool{}
	dump := func(res string) string {
		var newlyClosed []string
		for i, w := range byID {
			id := i + 1
			if chClosedKnown[id] {
				continue
			}
			select {
			case _, ok := <-w.ch:
				if !ok {
					chClosedKnown[id] = true
					newlyClosed = append(newlyClosed, strconv.Itoa(id))
				}
			default:
			}
		}
		t.mu.Lock()
		var free []string
		for _, w := range t.free {
			free = append(free, strconv.Itoa(ids[w]))
		}
		closed := t.closed
		t.mu.Unlock()
		created, _ := t.Created()
		var bs []int
		for id, b := range busy {
			if b {
				bs = append(bs, id)
			}
		}
		sort.Ints(bs)
		var bss []string
		for _, id := range bs {
			bss = append(bss, strconv.Itoa(id))
		}
		return fmt.Sprintf("%s created=%d free=%s busy=%s closed=%s chclosed=%s", res, created, verifRpcList(free),
			verifRpcList(bss), verifRpcB01(closed), verifRpcList(newlyClosed))
	}
	var outs []string
	for _, op := range ops {
		f := strings.Split(op, ":")
		switch f[0] {
		case "g":
			t.mu.Lock()
			can := t.closed || len(t.free) > 0 || t.created < t.create
			t.mu.Unlock()
			if !can {
				outs = append(outs, dump("wait")) // Get would block on the condition variable
				continue
			}
			v, ok := t.Get(wg)
			switch {
			case !ok:
				outs = append(outs, dump("closed"))
			case v != nil:
				busy[ids[v]] = true
				outs = append(outs, dump("reuse:"+strconv.Itoa(ids[v])))
			default:
				w := &worker{workerPool: t, ch: make(chan workerWork, 1)} // as Server.acquireWorker, without the goroutine
				byID = append(byID, w)
				ids[w] = len(byID)
				busy[len(byID)] = true
				outs = append(outs, dump("new:"+strconv.Itoa(len(byID))))
			}
		case "p":
			var bs []int
			for id, b := range busy {
				if b {
					bs = append(bs, id)
				}
			}
			if len(bs) == 0 {
				outs = append(outs, "not-allowed")
				continue
			}
			sort.Ints(bs)
			id := bs[verifRpcAtoi(f[1])%len(bs)]
			t.Put(byID[id-1])
			busy[id] = false
			outs = append(outs, dump("put:"+strconv.Itoa(id)))
		case "a":
			t.mu.Lock()
			for _, w := range t.free {
				w.gcTime = w.gcTime.Add(-time.Hour)
			}
			t.mu.Unlock()
			outs = append(outs, dump("aged"))
		case "gc":
			t.GC(time.Now().Add(time.Duration(verifRpcAtoi(f[1])) * time.Millisecond))
			outs = append(outs, dump("gc"))
		case "cl":
			t.Close()
			outs = append(outs, dump("close"))
		default:
			outs = append(outs, "bad-op "+op)
		}
	}
	return strings.Join(outs, " | ")
}

type verifRpcAdmWaiter struct {
	id     int
	taken  int
	ch     chan error
	cancel context.CancelFunc
}

// context whose Done() tells the harness that Acquire has reached its blocking select: the semaphore calls
// ctx.Done() only after it queued the waiter (or found the request larger than the semaphore), never on the
// fast path -- so "blocked" is observed without any timing assumption.
type verifRpcAdmCtx struct {
	context.Context
	called chan struct{}
	once   sync.Once
}

func (c *verifRpcAdmCtx) Done() <-chan struct{} {
	c.once.Do(func() { close(c.called) })
	return c.Context.Done()
}

func verifRpcAdmSeq(limit int, buf int, ops []string) string {
	s := NewServer(ServerWithLogf(NoopLogf), func(o *ServerOptions) {
		o.RequestMemoryLimit = limit
		o.RequestBufSize = buf
	})
	defer s.Close()
	held := map[int]int{}
	var waiting []*verifRpcAdmWaiter // queued, in arrival order
	var doomed []*verifRpcAdmWaiter
	// after a Release / a cancelled wait: the woken waiters are a prefix of the queue, identified by the accounted sum
	collectWoken := func(expectedWithoutWoken int64) string {
		cur, _ := s.RequestsMemory()
		sum := expectedWithoutWoken
		k := 0
		for sum != cur && k < len(waiting) {
			sum += int64(waiting[k].taken)
			k++
		}
		if sum != cur {
			return fmt.Sprintf("ACCOUNTING-MISMATCH cur=%d", cur)
		}
		for i := 0; i < k; i++ {
			select {
			case err := <-waiting[i].ch:
				if err != nil {
					return "WOKEN-WITH-ERROR"
				}
			case <-time.After(3 * time.Second):
				return "WOKEN-TIMEOUT"
			}
			held[waiting[i].id] = waiting[i].taken
		}
		waiting = waiting[k:]
		return ""
	}
	dump := func(res string) string {
		cur, _ := s.RequestsMemory()
		var hs []int
		for id := range held {
			hs = append(hs, id)
		}
		sort.Ints(hs)
		var h, w, d []string
		for _, id := range hs {
			h = append(h, strconv.Itoa(id))
		}
		for _, x := range waiting {
			w = append(w, strconv.Itoa(x.id))
		}
		var ds []int
		for _, x := range doomed {
			ds = append(ds, x.id)
		}
		sort.Ints(ds)
		for _, id := range ds {
			d = append(d, strconv.Itoa(id))
		}
		return fmt.Sprintf("%s cur=%d held=%s wait=%s doomed=%s", res, cur, verifRpcList(h), verifRpcList(w), verifRpcList(d))
	}
	var outs []string
	for _, op := range ops {
		f := strings.Split(op, ":")
		switch f[0] {
		case "a":
			id, l := verifRpcAtoi(f[1]), verifRpcAtoi(f[2])
			taken := s.requestBufTake(l)
			base, cancel := context.WithCancel(context.Background())
			ctx := &verifRpcAdmCtx{Context: base, called: make(chan struct{})}
			w := &verifRpcAdmWaiter{id: id, taken: taken, ch: make(chan error, 1), cancel: cancel}
			go func() { w.ch <- s.acquireRequestSema(ctx, taken) }()
			select {
			case err := <-w.ch:
				cancel()
				if err == nil {
					held[id] = taken
					outs = append(outs, dump("admitted"))
				} else {
					outs = append(outs, dump("error"))
				}
			case <-ctx.called:
				if taken > limit {
					doomed = append(doomed, w)
					outs = append(outs, dump("doomed"))
				} else {
					waiting = append(waiting, w)
					outs = append(outs, dump("queued"))
				}
			}
		case "r":
			var hs []int
			for id := range held {
				hs = append(hs, id)
			}
			if len(hs) == 0 {
				outs = append(outs, "not-allowed")
				continue
			}
			sort.Ints(hs)
			id := hs[verifRpcAtoi(f[1])%len(hs)]
			taken := held[id]
			delete(held, id)
			before, _ := s.RequestsMemory()
			s.releaseRequestBuf(taken, nil)
			if e := collectWoken(before - int64(taken)); e != "" {
				outs = append(outs, e)
				continue
			}
			outs = append(outs, dump("released:"+strconv.Itoa(id)))
		case "w":
			sort.Slice(doomed, func(a, b int) bool { return doomed[a].id < doomed[b].id })
			n := len(waiting) + len(doomed)
			if n == 0 {
				outs = append(outs, "not-allowed")
				continue
			}
			k := verifRpcAtoi(f[1]) % n
			before, _ := s.RequestsMemory()
			var id int
			if k < len(waiting) {
				x := waiting[k]
				id = x.id
				x.cancel()
				if err := <-x.ch; err == nil {
					outs = append(outs, "CANCELLED-WAITER-ACQUIRED")
					continue
				}
				waiting = append(waiting[:k], waiting[k+1:]...)
			} else {
				x := doomed[k-len(waiting)]
				id = x.id
				x.cancel()
				<-x.ch
				doomed = append(doomed[:k-len(waiting)], doomed[k-len(waiting)+1:]...)
			}
			if e := collectWoken(before); e != "" {
				outs = append(outs, e)
				continue
			}
			outs = append(outs, dump("cancelled:"+strconv.Itoa(id)))
		default:
			outs = append(outs, "bad-op "+op)
		}
	}
	for _, x := range append(append([]*verifRpcAdmWaiter{}, waiting...), doomed...) {
		x.cancel()
		if err := <-x.ch; err == nil {
			s.releaseRequestBuf(x.taken, nil)
		}
	}
	for _, taken := range held {
		s.releaseRequestBuf(taken, nil)
	}
	return strings.Join(outs, " | ")
}

// ---------------------------------------------------------------------------------------------- shared by Mux / Adm

const (
	verifRpcReqTag  = 0x5eedf00d
	verifRpcRespTag = 0x0badcafe
	verifRpcKey     = "verif-rpc-crypto-key-0123456789abcdef-0123456789"
	verifRpcHdrLen  = 21
)

type verifRpcLog struct {
	mu    sync.Mutex
	id    string
	lines []string
	gates sync.Map // call idx -> chan struct{}, closed by the handler when it returns (response on its way)
	sink  *os.File // when set, every line is also written at once (survives a crash of the code under test)
}

// verifRpcRaceCtx pins the interleaving "the context is cancelled while the response is being delivered", which in
// production happens by chance (deadline ~ server latency): Done() -- evaluated by the select of doWait -- is not ready
// before the handler has returned, and is closed `settle` later, when the response is (about to be) in the result
// channel.  Then both cases of the select are ready and either may run.  Bounded by maxWait so that a request that
// is never handled (closed client/server) cannot block the call.
type verifRpcRaceCtx struct {
	context.Context
	gate    <-chan struct{}
	settle  time.Duration
	maxWait time.Duration
	fired   atomic.Bool
	onFire  func()
	once    sync.Once
}

var verifRpcClosedChan = func() chan struct{} { c := make(chan struct{}); close(c); return c }()

func (c *verifRpcRaceCtx) Done() <-chan struct{} {
	if !c.fired.Load() {
		select {
		case <-c.gate:
			time.Sleep(c.settle)
		case <-time.After(c.maxWait):
		}
		c.once.Do(c.onFire)
		c.fired.Store(true)
	}
	return verifRpcClosedChan
}

func (c *verifRpcRaceCtx) Err() error {
	if c.fired.Load() {
		return context.Canceled
	}
	return nil
}

func (l *verifRpcLog) add(format string, a ...any) {
	s := fmt.Sprintf(format, a...)
	l.mu.Lock()
	l.lines = append(l.lines, l.id+" "+s)
	if l.sink != nil {
		_, _ = l.sink.WriteString(l.id + " " + s + "\n")
	}
	l.mu.Unlock()
}

// logf of client/server: the library reports broken internal invariants through Logf
func (l *verifRpcLog) logf(format string, a ...any) {
	s := fmt.Sprintf(format, a...)
	if strings.Contains(s, "invariant") || strings.Contains(s, "panic") {
		l.add("LOGVIOL %s", strings.ReplaceAll(s, "\n", " "))
	}
}

type verifRpcPlan struct {
	idx       int
	bodyLen   int // >= verifRpcHdrLen
	delayMs   int
	mode      byte // 0 result, 1 handler error
	respPad   int
	fail      bool
	timeoutMs int  // ctx deadline, 0 = none
	extraTmo  bool // deadline through Extra.CustomTimeoutMs instead of ctx
	cancelUs  int  // < 0: no cancel
	race      bool // context that is cancelled just when the response arrives (verifRpcRaceCtx)
	settleUs  int
	extras    int
	actor     int64
	tl2       bool
	payload   []byte
}

func verifRpcMakePayload(p *verifRpcPlan, rng *mrand.Rand) {
	b := make([]byte, p.bodyLen)
	binary.LittleEndian.PutUint32(b[0:], verifRpcReqTag)
	binary.LittleEndian.PutUint64(b[4:], uint64(p.idx))
	binary.LittleEndian.PutUint32(b[12:], uint32(p.delayMs))
	b[16] = p.mode
	binary.LittleEndian.PutUint32(b[17:], uint32(p.respPad))
	for i := verifRpcHdrLen; i < len(b); i++ {
		b[i] = byte(rng.Intn(256))
	}
	p.payload = b
}

type verifRpcSrvStats struct {
	cur     atomic.Int64
	max     atomic.Int64
	mem     atomic.Int64 // lower bound of what the server must have accounted for the running handlers
	maxMem  atomic.Int64
	seen    atomic.Int64
	bufSize int64
}

func verifRpcStoreMax(m *atomic.Int64, v int64) {
	for {
		o := m.Load()
		if v <= o || m.CompareAndSwap(o, v) {
			return
		}
	}
}

func verifRpcHandler(l *verifRpcLog, st *verifRpcSrvStats) HandlerFunc {
	return func(ctx context.Context, hctx *HandlerContext) error {
		body := hctx.Request
		if len(body) < verifRpcHdrLen || binary.LittleEndian.Uint32(body) != verifRpcReqTag {
			l.add("SBAD %d len=%d", hctx.QueryID(), len(body))
			return &Error{Code: -7, Description: "bad verif request"}
		}
		idx := binary.LittleEndian.Uint64(body[4:])
		delay := time.Duration(binary.LittleEndian.Uint32(body[12:])) * time.Millisecond
		mode := body[16]
		respPad := int(binary.LittleEndian.Uint32(body[17:]))
		sum := sha256.Sum256(body)
		l.add("S %d %d", hctx.QueryID(), idx)
		if g, ok := l.gates.Load(idx); ok {
			defer close(g.(chan struct{}))
		}
		if st != nil {
			acc := int64(len(body))
			if acc < st.bufSize {
				acc = st.bufSize
			}
			verifRpcStoreMax(&st.max, st.cur.Add(1))
			verifRpcStoreMax(&st.maxMem, st.mem.Add(acc))
			st.seen.Add(1)
			defer func() {
				st.mem.Add(-acc)
				st.cur.Add(-1)
			}()
		}
		if delay > 0 {
			tm := time.NewTimer(delay)
			select {
			case <-tm.C:
			case <-ctx.Done():
				tm.Stop()
				return ctx.Err()
			}
		}
		if mode == 1 {
			return &Error{Code: -5000 - int32(idx%100), Description: fmt.Sprintf("verif %d %x", idx, sum[:16])}
		}
		var hdr [12]byte
		binary.LittleEndian.PutUint32(hdr[0:], verifRpcRespTag)
		binary.LittleEndian.PutUint64(hdr[4:], idx)
		hctx.Response = append(hctx.Response, hdr[:]...)
		hctx.Response = append(hctx.Response, sum[:]...)
		for i := 0; i < respPad; i++ {
			hctx.Response = append(hctx.Response, byte(int(idx)+i))
		}
		return nil
	}
}

// classifies the result of Do; returns (kind, body id claimed by the response)
func verifRpcClassify(p *verifRpcPlan, resp *Response, err error) (string, uint64, string) {
	if err == nil {
		b := resp.Body
		if len(b) < 44 || binary.LittleEndian.Uint32(b) != verifRpcRespTag {
			return "garbled", 0, fmt.Sprintf("len=%d", len(b))
		}
		idx := binary.LittleEndian.Uint64(b[4:])
		sum := sha256.Sum256(p.payload)
		if string(b[12:44]) != string(sum[:]) {
			return "ok", idx, "HASHMISMATCH"
		}
		if len(b) != 44+p.respPad {
			return "ok", idx, fmt.Sprintf("PADLEN %d want %d", len(b)-44, p.respPad)
		}
		for i := 0; i < p.respPad; i++ {
			if b[44+i] != byte(int(idx)+i) {
				return "ok", idx, "PADBYTES"
			}
		}
		return "ok", idx, ""
	}
	var re *Error
	switch {
	case errors.As(err, &re):
		if strings.HasPrefix(re.Description, "verif ") {
			f := strings.Fields(re.Description)
			idx, _ := strconv.ParseUint(f[1], 10, 64)
			sum := sha256.Sum256(p.payload)
			note := ""
			if len(f) < 3 || f[2] != fmt.Sprintf("%x", sum[:16]) {
				note = "HASHMISMATCH"
			}
			if re.Code != -5000-int32(idx%100) {
				note += "CODE"
			}
			return "srverr", idx, note
		}
		return "srvgen", 0, fmt.Sprintf("code=%d", re.Code)
	case errors.Is(err, context.Canceled):
		return "cancel", 0, ""
	case errors.Is(err, context.DeadlineExceeded):
		return "timeout", 0, ""
	case errors.Is(err, ErrClientClosed):
		return "clientclosed", 0, ""
	case errors.Is(err, ErrClientConnClosedSideEffect):
		return "closed", 0, "side"
	case errors.Is(err, ErrClientConnClosedNoSideEffect):
		return "closed", 0, "noside"
	}
	return "other", 0, strings.ReplaceAll(err.Error(), " ", "_")
}

func verifRpcListen(network string, dir string, id string) (net.Listener, string, error) {
	if network == "unix" {
		path := filepath.Join(dir, "verifrpc-"+id+".sock")
		_ = os.Remove(path)
		ln, err := Listen("unix", path, true)
		return ln, path, err
	}
	ln, err := Listen("tcp4", "127.0.0.1:0", false)
	if err != nil {
		return nil, "", err
	}
	return ln, ln.Addr().String(), nil
}

func verifRpcDoCall(l *verifRpcLog, client Client, network, addr string, p *verifRpcPlan) {
	req := client.GetRequest()
	req.Body = append(req.Body, p.payload...)
	req.FailIfNoConnection = p.fail
	req.ActorID = p.actor
	if p.extras&1 != 0 {
		req.Extra.SetIntForward(int64(p.idx) * 3)
	}
	if p.extras&2 != 0 {
		req.Extra.SetStringForward(fmt.Sprintf("fwd-%d", p.idx))
	}
	if p.extras&4 != 0 {
		req.Extra.SetReturnBinlogPos(true)
	}
	if p.extras&8 != 0 {
		req.Extra.SetWaitBinlogPos(int64(p.idx))
	}
	ctx := context.Background()
	hasTmo := false
	if p.timeoutMs > 0 {
		hasTmo = true
		if p.extraTmo {
			req.Extra.SetCustomTimeoutMs(int32(p.timeoutMs))
		} else {
			var cancel context.CancelFunc
			ctx, cancel = context.WithTimeout(ctx, time.Duration(p.timeoutMs)*time.Millisecond)
			defer cancel()
		}
	}
	q := req.QueryID()
	l.add("C %d %d %s %s", q, p.idx, verifRpcB01(p.fail), verifRpcB01(hasTmo))
	if p.race {
		gate := make(chan struct{})
		l.gates.Store(uint64(p.idx), gate)
		defer l.gates.Delete(uint64(p.idx))
		ctx = &verifRpcRaceCtx{Context: ctx, gate: gate, settle: time.Duration(p.settleUs) * time.Microsecond,
			maxWait: 300 * time.Millisecond, onFire: func() { l.add("X %d", q) }}
	} else if p.cancelUs >= 0 {
		var cancel context.CancelFunc
		ctx, cancel = context.WithCancel(ctx)
		tm := time.AfterFunc(time.Duration(p.cancelUs)*time.Microsecond, func() {
			l.add("X %d", q)
			cancel()
		})
		defer tm.Stop()
		defer cancel()
	}
	resp, err := client.Do(ctx, network, addr, req)
	kind, b, note := verifRpcClassify(p, resp, err)
	if note == "" {
		note = "-"
	}
	l.add("D %d %s %d %s", q, kind, b, note)
	client.PutResponse(resp) // pooled Response objects are reused by later calls
}

// ---------------------------------------------------------------------------------------------- TestVerifRpcMux

func verifRpcPlanCalls(n int, maxBody int, seed int64, forceTimeout bool, racePct int) []*verifRpcPlan {
	rng := mrand.New(mrand.NewSource(seed))
	plans := make([]*verifRpcPlan, n)
	for i := range plans {
		p := &verifRpcPlan{idx: i + 1, cancelUs: -1}
		switch r := rng.Intn(100); {
		case r < 55:
			p.bodyLen = verifRpcHdrLen + rng.Intn(200)
		case r < 88:
			p.bodyLen = verifRpcHdrLen + 200 + rng.Intn(5000)
		default:
			p.bodyLen = verifRpcHdrLen + 5000 + rng.Intn(maxBody)
		}
		switch r := rng.Intn(100); {
		case r < 50:
		case r < 90:
			p.delayMs = 1 + rng.Intn(5)
		default:
			p.delayMs = 10 + rng.Intn(30)
		}
		if rng.Intn(100) < 15 {
			p.mode = 1
		}
		if rng.Intn(100) < 30 {
			p.respPad = rng.Intn(3000)
			if rng.Intn(10) == 0 {
				p.respPad = rng.Intn(maxBody)
			}
		}
		p.fail = rng.Intn(100) < 10
		if r := rng.Intn(100); r < 20 {
			p.timeoutMs = 1 + rng.Intn(30)
		} else if r < 26 {
			p.timeoutMs = 3 + rng.Intn(30)
			p.extraTmo = true
		}
		if rng.Intn(100) < 15 {
			p.cancelUs = rng.Intn(8000)
		}
		if rng.Intn(100) < racePct {
			// cancellation racing with the arrival of the response; no other deadline/cancel on this call
			p.race, p.settleUs, p.cancelUs, p.timeoutMs, p.extraTmo = true, rng.Intn(400), -1, 0, false
			if p.delayMs > 5 {
				p.delayMs = rng.Intn(3)
			}
		} else if racePct >= 40 && p.delayMs > 0 && p.cancelUs < 0 && rng.Intn(2) == 0 {
			// deadline ~ handler latency: the chance version of the same race
			p.timeoutMs, p.extraTmo = p.delayMs+rng.Intn(2), false
		}
		if forceTimeout && p.timeoutMs == 0 && !p.race {
			p.timeoutMs = 250 + rng.Intn(250)
		}
		p.extras = rng.Intn(16)
		if rng.Intn(4) == 0 {
			p.actor = int64(1 + rng.Intn(1000))
		}
		verifRpcMakePayload(p, rng)
		plans[i] = p
	}
	return plans
}

func TestVerifRpcMux(t *testing.T) {
	dir, _ := os.Getwd()
	sink, err := os.OpenFile(os.Getenv("VERIF_OUT"), os.O_CREATE|os.O_TRUNC|os.O_WRONLY, 0o644)
	if err != nil {
		t.Fatalf("VERIF_OUT: %v", err)
	}
	defer sink.Close()
	hung := false
	for _, line := range verifRpcReadOps(t) {
		kv := verifRpcKV(strings.Fields(line))
		if hung { // goroutines of a hung scenario are still around; do not pile up watchdogs
			_, _ = sink.WriteString(kv["id"] + " END skipped-after-hang\n")
			continue
		}
		lines := verifRpcMuxScenario(dir, kv, sink)
		if len(lines) > 0 && strings.Contains(lines[len(lines)-1], " END hang") {
			hung = true
		}
	}
}

func verifRpcMuxScenario(dir string, kv map[string]string, sink *os.File) []string {
	l := &verifRpcLog{id: kv["id"], sink: sink}
	enc := kv["enc"] == "1"
	ncalls, threads := verifRpcAtoi(kv["calls"]), verifRpcAtoi(kv["threads"])
	seed, _ := strconv.ParseInt(kv["seed"], 10, 64)
	closeMode := kv["close"]
	st := &verifRpcSrvStats{}
	server := NewServer(ServerWithHandler(verifRpcHandler(l, st)), ServerWithLogf(l.logf), ServerWithMaxWorkers(verifRpcAtoi(kv["workers"])),
		ServerWithCryptoKeys([]string{verifRpcKey}), ServerWithForceEncryption(enc))
	ln, addr, err := verifRpcListen(kv["net"], dir, kv["id"])
	if err != nil {
		l.add("SETUPFAIL listen %v", err)
		return l.lines
	}
	network := "tcp4"
	if kv["net"] == "unix" {
		network = "unix"
	}
	serveDone := make(chan error, 1)
	go func() { serveDone <- server.Serve(ln) }()
	client := NewClient(ClientWithLogf(l.logf), ClientWithCryptoKey(verifRpcKey), ClientWithForceEncryption(enc))
	racePct := 10
	if kv["race"] != "" {
		racePct = verifRpcAtoi(kv["race"])
	}
	plans := verifRpcPlanCalls(ncalls, verifRpcAtoi(kv["maxbody"]), seed, closeMode == "server", racePct)
	l.add("BEGIN net=%s enc=%s workers=%s calls=%d threads=%d close=%s", kv["net"], kv["enc"], kv["workers"], ncalls, threads, closeMode)

	var next atomic.Int64
	var wg sync.WaitGroup
	var closeOnce sync.Once
	closeDone := make(chan struct{})
	closeAt := int64(ncalls/3 + int(seed%int64(ncalls/3+1)))
	doClose := func() {
		go func() {
			defer close(closeDone)
			switch closeMode {
			case "client":
				l.add("KC")
				_ = client.Close()
				l.add("Kc")
			case "server":
				l.add("KS")
				_ = server.Close()
				l.add("Ks")
			}
		}()
	}
	for th := 0; th < threads; th++ {
		wg.Add(1)
		go func() {
			defer wg.Done()
			for {
				i := next.Add(1)
				if i > int64(ncalls) {
					return
				}
				if closeMode != "none" && i == closeAt {
					closeOnce.Do(doClose)
				}
				verifRpcDoCall(l, client, network, addr, plans[i-1])
			}
		}()
	}
	allDone := make(chan struct{})
	go func() { wg.Wait(); close(allDone) }()
	status := "ok"
	select {
	case <-allDone:
	case <-time.After(15 * time.Second):
		status = "hang"
		l.add("HANG calls did not return within 15s")
	}
	if closeMode != "none" {
		closeOnce.Do(doClose)
		select {
		case <-closeDone:
		case <-time.After(15 * time.Second):
			status = "hang"
			l.add("HANG Close did not return within 15s")
		}
	}
	if status == "ok" {
		fin := make(chan struct{})
		go func() {
			_ = client.Close()
			_ = server.Close()
			<-serveDone
			close(fin)
		}()
		select {
		case <-fin:
			if cur, _ := server.RequestsMemory(); cur != 0 {
				l.add("LOGVIOL request memory %d after Close", cur)
			}
			if cur, _ := server.ResponsesMemory(); cur != 0 {
				l.add("LOGVIOL response memory %d after Close", cur)
			}
		case <-time.After(15 * time.Second):
			status = "hang"
			l.add("HANG final Close did not return within 15s")
		}
	}
	l.add("END %s maxconc=%d", status, st.max.Load())
	l.mu.Lock()
	defer l.mu.Unlock()
	return append([]string{}, l.lines...)
}

// ---------------------------------------------------------------------------------------------- TestVerifRpcAdm

func TestVerifRpcAdm(t *testing.T) {
	dir, _ := os.Getwd()
	var out []string
	hung := false
	for _, line := range verifRpcReadOps(t) {
		kv := verifRpcKV(strings.Fields(line))
		if hung {
			out = append(out, kv["id"]+" status=skipped-after-hang")
			continue
		}
		res := verifRpcAdmScenario(dir, kv)
		out = append(out, res)
		if strings.Contains(res, " status=hang") {
			hung = true
		}
	}
	verifRpcWriteOut(t, out)
}

// One burst: `conns` clients (one connection each) x `threads` goroutines issue `calls` requests without
// deadlines against MaxWorkers = workers, RequestMemoryLimit = limit, RequestBufSize = buf.
// `big` requests larger than the limit are sent on a separate connection with a client timeout.
func verifRpcAdmScenario(dir string, kv map[string]string) string {
	l := &verifRpcLog{id: kv["id"]}
	workers, limit, buf := verifRpcAtoi(kv["workers"]), verifRpcAtoi(kv["limit"]), verifRpcAtoi(kv["buf"])
	conns, threads, ncalls := verifRpcAtoi(kv["conns"]), verifRpcAtoi(kv["threads"]), verifRpcAtoi(kv["calls"])
	maxBody, delayMs, big := verifRpcAtoi(kv["maxbody"]), verifRpcAtoi(kv["delay"]), verifRpcAtoi(kv["big"])
	seed, _ := strconv.ParseInt(kv["seed"], 10, 64)
	st := &verifRpcSrvStats{bufSize: int64(buf)}
	opts := []ServerOptionsFunc{ServerWithHandler(verifRpcHandler(l, st)), ServerWithLogf(l.logf), ServerWithMaxWorkers(workers),
		ServerWithCryptoKeys([]string{verifRpcKey})}
	if kv["public"] == "1" {
		opts = append(opts, ServerWithRequestMemoryLimit(limit), ServerWithRequestBufSize(buf))
	} else {
		opts = append(opts, func(o *ServerOptions) { // in-package: below the clamp of ServerWithRequestMemoryLimit
			o.RequestMemoryLimit = limit
			o.RequestBufSize = buf
		})
	}
	server := NewServer(opts...)
	_, effLimit := server.RequestsMemory()
	ln, addr, err := verifRpcListen(kv["net"], dir, kv["id"])
	if err != nil {
		return kv["id"] + " SETUPFAIL " + err.Error()
	}
	network := "tcp4"
	if kv["net"] == "unix" {
		network = "unix"
	}
	serveDone := make(chan error, 1)
	go func() { serveDone <- server.Serve(ln) }()

	// sampler of the server's own accounting
	var maxAcc, maxCreated atomic.Int64
	stopSampler := make(chan struct{})
	samplerDone := make(chan struct{})
	var samples int64
	go func() {
		defer close(samplerDone)
		for {
			select {
			case <-stopSampler:
				return
			default:
			}
			cur, _ := server.RequestsMemory()
			verifRpcStoreMax(&maxAcc, cur)
			created, _ := server.WorkersPoolSize()
			verifRpcStoreMax(&maxCreated, int64(created))
			samples++
			time.Sleep(20 * time.Microsecond)
		}
	}()

	rng := mrand.New(mrand.NewSource(seed))
	plans := make([]*verifRpcPlan, ncalls)
	for i := range plans {
		p := &verifRpcPlan{idx: i + 1, cancelUs: -1}
		if rng.Intn(3) == 0 {
			p.bodyLen = verifRpcHdrLen + rng.Intn(maxBody)
		} else {
			p.bodyLen = verifRpcHdrLen + rng.Intn(1+maxBody/8)
		}
		p.delayMs = rng.Intn(delayMs + 1)
		verifRpcMakePayload(p, rng)
		plans[i] = p
	}
	clients := make([]Client, conns)
	for i := range clients {
		clients[i] = NewClient(ClientWithLogf(l.logf), ClientWithCryptoKey(verifRpcKey))
	}
	var next atomic.Int64
	var served, failed atomic.Int64
	var wg sync.WaitGroup
	for ci := 0; ci < conns; ci++ {
		for th := 0; th < threads; th++ {
			wg.Add(1)
			go func(client Client) {
				defer wg.Done()
				for {
					i := next.Add(1)
					if i > int64(ncalls) {
						return
					}
					p := plans[i-1]
					req := client.GetRequest()
					req.Body = append(req.Body, p.payload...)
					resp, err := client.Do(context.Background(), network, addr, req)
					kind, b, note := verifRpcClassify(p, resp, err)
					if kind == "ok" && b == uint64(p.idx) && note == "" {
						served.Add(1)
					} else {
						failed.Add(1)
						l.add("ADMFAIL %d %s %d %s", p.idx, kind, b, note)
					}
					client.PutResponse(resp)
				}
			}(clients[ci])
		}
	}
	// oversized requests: never admitted, must not be accounted, must not stall other connections
	bigSeen := int64(0)
	var bigResult atomic.Value
	bigResult.Store("-")
	var bigWg sync.WaitGroup
	if big > 0 {
		bigClient := NewClient(ClientWithLogf(l.logf), ClientWithCryptoKey(verifRpcKey))
		defer bigClient.Close()
		bigWg.Add(1)
		go func() {
			defer bigWg.Done()
			p := &verifRpcPlan{idx: ncalls + 1, bodyLen: big, cancelUs: -1}
			verifRpcMakePayload(p, rng)
			req := bigClient.GetRequest()
			req.Body = append(req.Body, p.payload...)
			ctx, cancel := context.WithTimeout(context.Background(), 400*time.Millisecond)
			defer cancel()
			resp, err := bigClient.Do(ctx, network, addr, req)
			kind, _, _ := verifRpcClassify(p, resp, err)
			bigResult.Store(kind)
			bigClient.PutResponse(resp)
		}()
	}
	allDone := make(chan struct{})
	go func() { wg.Wait(); bigWg.Wait(); close(allDone) }()
	status := "ok"
	select {
	case <-allDone:
	case <-time.After(30 * time.Second):
		status = "hang"
	}
	close(stopSampler)
	<-samplerDone
	l.mu.Lock()
	for _, ln := range l.lines {
		if strings.Contains(ln, " S ") && strings.HasSuffix(ln, " "+strconv.Itoa(ncalls+1)) {
			bigSeen++
		}
	}
	l.mu.Unlock()
	endMem := int64(-1)
	if status == "ok" {
		fin := make(chan struct{})
		go func() {
			for _, c := range clients {
				_ = c.Close()
			}
			_ = server.Close()
			<-serveDone
			close(fin)
		}()
		select {
		case <-fin:
			endMem, _ = server.RequestsMemory()
		case <-time.After(15 * time.Second):
			status = "hang-close"
		}
	}
	viol := 0
	var firstViol string
	l.mu.Lock()
	for _, ln := range l.lines {
		if strings.Contains(ln, "LOGVIOL") || strings.Contains(ln, "ADMFAIL") || strings.Contains(ln, "SBAD") {
			viol++
			if firstViol == "" {
				firstViol = strings.ReplaceAll(ln, " ", "_")
			}
		}
	}
	l.mu.Unlock()
	if firstViol == "" {
		firstViol = "-"
	}
	return fmt.Sprintf("%s status=%s workers=%d limit=%d efflimit=%d buf=%d calls=%d served=%d failed=%d maxconc=%d maxcreated=%d maxacc=%d maxhandlermem=%d samples=%d big=%d bigseen=%d bigresult=%s endmem=%d viol=%d first=%s",
		kv["id"], status, workers, limit, effLimit, buf, ncalls, served.Load(), failed.Load(), st.max.Load(), maxCreated.Load(),
		maxAcc.Load(), st.maxMem.Load(), samples, big, bigSeen, bigResult.Load().(string), endMem, viol, firstViol)
}
