//go:build verif

// Add-only overlay harness for the Frame family (C35 packet framing, C40 RPC headers); package rpc.
//
// One op per line of $VERIF_OPS, one result line per op in $VERIF_OUT.  A result line is
// "<compared part> | <go-only part>"; the part before " | " is compared with the extracted Coq model,
// the part behind it feeds the implementation-side oracle and the second (captured-bytes) pass.
//
// C35 ops
//
//	stream  <pv> <enc> <crc> <seq0> <rb> <wb> <sched> <ops>
//	corrupt <pv> <enc> <crc> <seq0> <rb> <wb> <sched> <ops> <off> <xor>
//	hs      <pvreq> <enc> <rb> <wb> <sched> <ops c2s> <ops s2c>     (real HandshakeClient/HandshakeServer)
//	readraw <pv> <enc> <crc> <seq0> <rb> <sched> <hex>               (arbitrary bytes to the reader)
//
// pv: protocol version, enc: 0/1 (AES-CBC with fixed keys through PacketConn.encrypt), crc: 0 IEEE / 1
// Castagnoli, seq0: first sequence number, rb/wb: read/write buffer sizes of NewPacketConn, sched: chunk
// sizes (cycled) in which the connection delivers the stream to the reader, ops: comma separated
// P:<type>:<hex> (WritePacket), N:<type>:<hex> (WritePacketNoFlush), W:<type>:<hex>:<hex> (WritePacket2),
// F (Flush).  The harness always ends with a Flush.
//
// C40 ops:  req / preq / resp / presp / rt / e2e  (see vfHdr* below).
package rpc

import (
	"reflect"
	"bufio"
	"bytes"
	"context"
	"crypto/aes"
	"crypto/cipher"
	"encoding/hex"
	"errors"
	"fmt"
	"hash/crc32"
	"io"
	"math"
	"net"
	"os"
	"sort"
	"strconv"
	"strings"
	"sync"
	"testing"
	"time"

	"github.com/VKCOM/tl/pkg/rpc/internal/gen/tl"
	"github.com/VKCOM/tl/pkg/rpc/internal/gen/tlexactlyOnce"
)

// ------------------------------------------------------------------------------------------ helpers

func vfHex(b []byte) string {
	if len(b) == 0 {
		return "-"
	}
	return hex.EncodeToString(b)
}

func vfUnhex(s string) []byte {
	if s == "-" || s == "." {
		return nil
	}
	b, err := hex.DecodeString(s)
	if err != nil {
		panic("bad hex " + s)
	}
	return b
}

func vfU64(s string) uint64 {
	v, err := strconv.ParseUint(s, 10, 64)
	if err != nil {
		panic("bad number " + s)
	}
	return v
}

func vfI64(s string) int64 {
	v, err := strconv.ParseInt(s, 10, 64)
	if err != nil {
		panic("bad number " + s)
	}
	return v
}

// ------------------------------------------------------------------------------------------ connections

type vfAddr struct{ s string }

// one-directional in-memory connection: the reader gets [rd] in chunks given by [sched]; writes are captured
type vfConn struct {
	rd     []byte
	sched  []int
	si     int
	wr     []byte
	local  net.Addr
	remote net.Addr
}

func (c *vfConn) Read(p []byte) (int, error) {
	if len(c.rd) == 0 {
		return 0, io.EOF
	}
	n := len(p)
	if len(c.sched) > 0 {
		n = c.sched[c.si%len(c.sched)]
		c.si++
	}
	if n > len(p) {
		n = len(p)
	}
	if n > len(c.rd) {
		n = len(c.rd)
	}
	copy(p, c.rd[:n])
	c.rd = c.rd[n:]
	return n, nil
}
func (c *vfConn) Write(p []byte) (int, error)        { c.wr = append(c.wr, p...); return len(p), nil }
func (c *vfConn) Close() error                       { return nil }
func (c *vfConn) LocalAddr() net.Addr                { return c.local }
func (c *vfConn) RemoteAddr() net.Addr               { return c.remote }
func (c *vfConn) SetDeadline(t time.Time) error      { return nil }
func (c *vfConn) SetReadDeadline(t time.Time) error  { return nil }
func (c *vfConn) SetWriteDeadline(t time.Time) error { return nil }

func vfNewConn(rd []byte, sched []int) *vfConn {
	return &vfConn{rd: rd, sched: sched,
		local:  &net.TCPAddr{IP: net.IPv4(127, 0, 0, 1), Port: 1111},
		remote: &net.TCPAddr{IP: net.IPv4(127, 0, 0, 1), Port: 2222}}
}

// blocking half of a duplex pipe (for the real handshake)
type vfHalf struct {
	mu     sync.Mutex
	cond   *sync.Cond
	buf    []byte
	all    []byte // everything ever written (capture)
	closed bool
	sched  []int
	si     int
}

func vfNewHalf(sched []int) *vfHalf {
	h := &vfHalf{sched: sched}
	h.cond = sync.NewCond(&h.mu)
	return h
}

func (h *vfHalf) write(p []byte) {
	h.mu.Lock()
	h.buf = append(h.buf, p...)
	h.all = append(h.all, p...)
	h.mu.Unlock()
	h.cond.Broadcast()
}

func (h *vfHalf) closeWrite() {
	h.mu.Lock()
	h.closed = true
	h.mu.Unlock()
	h.cond.Broadcast()
}

func (h *vfHalf) read(p []byte) (int, error) {
	h.mu.Lock()
	defer h.mu.Unlock()
	for len(h.buf) == 0 && !h.closed {
		h.cond.Wait()
	}
	if len(h.buf) == 0 {
		return 0, io.EOF
	}
	n := len(p)
	if len(h.sched) > 0 {
		n = h.sched[h.si%len(h.sched)]
		h.si++
		if n == 0 {
			n = 1
		}
	}
	if n > len(p) {
		n = len(p)
	}
	if n > len(h.buf) {
		n = len(h.buf)
	}
	copy(p, h.buf[:n])
	h.buf = h.buf[n:]
	return n, nil
}

func (h *vfHalf) captured() []byte {
	h.mu.Lock()
	defer h.mu.Unlock()
	return append([]byte(nil), h.all...)
}

type vfDuplex struct {
	in, out       *vfHalf
	local, remote net.Addr
}

func (c *vfDuplex) Read(p []byte) (int, error)         { return c.in.read(p) }
func (c *vfDuplex) Write(p []byte) (int, error)        { c.out.write(p); return len(p), nil }
func (c *vfDuplex) Close() error                       { c.out.closeWrite(); return nil }
func (c *vfDuplex) LocalAddr() net.Addr                { return c.local }
func (c *vfDuplex) RemoteAddr() net.Addr               { return c.remote }
func (c *vfDuplex) SetDeadline(t time.Time) error      { return nil }
func (c *vfDuplex) SetReadDeadline(t time.Time) error  { return nil }
func (c *vfDuplex) SetWriteDeadline(t time.Time) error { return nil }

// cipher.BlockMode that records what passes through it
type vfRecMode struct {
	inner   cipher.BlockMode
	in, out []byte
}

func (m *vfRecMode) BlockSize() int { return m.inner.BlockSize() }
func (m *vfRecMode) CryptBlocks(dst, src []byte) {
	m.in = append(m.in, src...)
	m.inner.CryptBlocks(dst, src)
	m.out = append(m.out, dst[:len(src)]...)
}

// ------------------------------------------------------------------------------------------ C35

type vfPktOp struct {
	kind   byte // P N W F
	typ    uint32
	b1, b2 []byte
}

func vfParseOps(s string) []vfPktOp {
	var res []vfPktOp
	if s == "-" {
		return res
	}
	for _, it := range strings.Split(s, ",") {
		f := strings.Split(it, ":")
		op := vfPktOp{kind: f[0][0]}
		if op.kind != 'F' {
			op.typ = uint32(vfU64(f[1]))
			op.b1 = vfUnhex(f[2])
			if op.kind == 'W' {
				op.b2 = vfUnhex(f[3])
			}
		}
		res = append(res, op)
	}
	return res
}

func vfParseSched(s string) []int {
	if s == "-" {
		return nil
	}
	var res []int
	for _, it := range strings.Split(s, ",") {
		res = append(res, int(vfU64(it)))
	}
	return res
}

var (
	vfKeyA = []byte("0123456789abcdef0123456789abcdef")
	vfIVA  = []byte("fedcba9876543210")
)

// mirrors what the handshake code does to the connection state: protocolVersion is still 0 for the nonce
// packet, packets with negative sequence numbers are protected by crc32.IEEE
func vfSetState(pc *PacketConn, seq int64, pv uint32, crc int) {
	if seq == startSeqNum {
		pc.protocolVersion = 0
	} else {
		pc.protocolVersion = pv
	}
	if seq < 0 || crc == 0 {
		pc.table = crc32.IEEETable
	} else {
		pc.table = castagnoliTable
	}
}

type vfWriteResult struct {
	wire    []byte
	plain   []byte // encrypted only: what went into the cipher
	werr    int    // index of the first failing write op, -1 if none
	bufOK   bool   // encrypted only: cipher output == wire
	lastSeq int64
}

func vfRunWriter(pv uint32, enc bool, crc int, seq0 int64, wb int, ops []vfPktOp) vfWriteResult {
	conn := vfNewConn(nil, nil)
	pc := NewPacketConn(conn, 16, wb)
	pc.writeSeqNum = seq0
	pc.readSeqNum = seq0
	var rec *vfRecMode
	if enc {
		if err := pc.encrypt(vfKeyA, vfIVA, vfKeyA, vfIVA); err != nil {
			panic(err)
		}
		rec = &vfRecMode{inner: pc.w.enc}
		pc.w.enc = rec
	}
	res := vfWriteResult{werr: -1, bufOK: true}
	for i, op := range ops {
		vfSetState(pc, pc.writeSeqNum, pv, crc)
		var err error
		switch op.kind {
		case 'P':
			err = pc.WritePacket(op.typ, op.b1, 0)
		case 'N':
			err = pc.WritePacketNoFlush(op.typ, op.b1, 0)
		case 'W':
			err = pc.WritePacket2(op.typ, op.b1, op.b2, 0)
		case 'F':
			err = pc.Flush()
		}
		if err != nil {
			res.werr = i
			break
		}
	}
	if err := pc.Flush(); err != nil {
		panic(err)
	}
	res.wire = conn.wr
	res.lastSeq = pc.writeSeqNum
	if rec != nil {
		res.plain = rec.in
		res.bufOK = bytes.Equal(rec.out, conn.wr)
	}
	return res
}

type vfPkt struct {
	typ  uint32
	body []byte
}

type vfReadResult struct {
	recv   []vfPkt
	end    string
	dplain []byte // encrypted only: what came out of the cipher
	pongs  int
}

func vfClassify(err error) string {
	switch {
	case err == io.EOF:
		return "eof"
	case errors.Is(err, io.ErrUnexpectedEOF):
		return "unexp"
	default:
		return "err"
	}
}

func vfRunReader(pv uint32, enc bool, crc int, seq0 int64, rb int, sched []int, wire []byte) vfReadResult {
	conn := vfNewConn(append([]byte(nil), wire...), sched)
	pc := NewPacketConn(conn, rb, 4096)
	pc.writeSeqNum = 0
	pc.readSeqNum = seq0
	var rec *vfRecMode
	if enc {
		if err := pc.encrypt(vfKeyA, vfIVA, vfKeyA, vfIVA); err != nil {
			panic(err)
		}
		rec = &vfRecMode{inner: pc.r.enc}
		pc.r.enc = rec
	}
	var res vfReadResult
	for i := 0; i < 1000000; i++ {
		vfSetState(pc, pc.readSeqNum, pv, crc)
		tip, body, err := pc.ReadPacket(nil, 0)
		if err != nil {
			res.end = vfClassify(err)
			break
		}
		res.recv = append(res.recv, vfPkt{tip, append([]byte(nil), body...)})
	}
	if rec != nil {
		res.dplain = rec.out
	}
	return res
}

func vfRecvString(ps []vfPkt) string {
	if len(ps) == 0 {
		return "-"
	}
	var sb strings.Builder
	for i, p := range ps {
		if i != 0 {
			sb.WriteByte(';')
		}
		fmt.Fprintf(&sb, "%d:%s", p.typ, vfHex(p.body))
	}
	return sb.String()
}

func vfStream(f []string, corrupt bool) string {
	pv := uint32(vfU64(f[1]))
	enc := f[2] == "1"
	crc := int(vfU64(f[3]))
	seq0 := vfI64(f[4])
	rb := int(vfU64(f[5]))
	wb := int(vfU64(f[6]))
	sched := vfParseSched(f[7])
	ops := vfParseOps(f[8])
	w := vfRunWriter(pv, enc, crc, seq0, wb, ops)
	if w.werr >= 0 {
		return fmt.Sprintf("werr %d", w.werr)
	}
	wire := w.wire
	if corrupt {
		off := int(vfU64(f[9]))
		x := byte(vfU64(f[10]))
		if off >= len(wire) {
			return "bad-offset"
		}
		wire = append([]byte(nil), wire...)
		wire[off] ^= x
	}
	r := vfRunReader(pv, enc, crc, seq0, rb, sched, wire)
	if !enc {
		if corrupt {
			return fmt.Sprintf("ok recv=%s end=%s", vfRecvString(r.recv), r.end)
		}
		return fmt.Sprintf("ok wire=%s recv=%s end=%s", vfHex(w.wire), vfRecvString(r.recv), r.end)
	}
	bufok := "1"
	if !w.bufOK || len(w.wire)%16 != 0 {
		bufok = "0"
	}
	if corrupt {
		return fmt.Sprintf("ok enc | recv=%s end=%s dplain=%s bufok=%s", vfRecvString(r.recv), r.end, vfHex(r.dplain), bufok)
	}
	dec := "1"
	if !bytes.HasPrefix(w.plain, r.dplain) || (r.end == "eof" && len(r.dplain) != len(w.plain)) {
		dec = "0" // the receiver must decrypt exactly the sender's plaintext (a prefix of it if it stops at an error)
	}
	return fmt.Sprintf("ok plain=%s recv=%s end=%s | bufok=%s dec=%s cipher_differs=%v", vfHex(w.plain), vfRecvString(r.recv), r.end, bufok, dec, !bytes.Equal(w.plain, w.wire) || len(w.plain) == 0)
}

// readraw <pv> <enc> <crc> <seq0> <rb> <sched> <hex>: arbitrary bytes to the reader; when enc=1 the bytes
// are a plaintext stream which the harness encrypts (whole blocks) with the connection's key first
func vfReadRaw(f []string) string {
	pv := uint32(vfU64(f[1]))
	enc := f[2] == "1"
	crc := int(vfU64(f[3]))
	seq0 := vfI64(f[4])
	rb := int(vfU64(f[5]))
	sched := vfParseSched(f[6])
	data := vfUnhex(f[7])
	if enc {
		blk, err := aes.NewCipher(vfKeyA)
		if err != nil {
			panic(err)
		}
		n := len(data) &^ 15
		ct := make([]byte, n)
		cipher.NewCBCEncrypter(blk, vfIVA).CryptBlocks(ct, data[:n])
		data = ct
	}
	r := vfRunReader(pv, enc, crc, seq0, rb, sched, data)
	return fmt.Sprintf("ok recv=%s end=%s", vfRecvString(r.recv), r.end)
}

func vfWriteOps(pc *PacketConn, ops []vfPktOp) error {
	for _, op := range ops {
		var err error
		switch op.kind {
		case 'P':
			err = pc.WritePacket(op.typ, op.b1, 0)
		case 'N':
			err = pc.WritePacketNoFlush(op.typ, op.b1, 0)
		case 'W':
			err = pc.WritePacket2(op.typ, op.b1, op.b2, 0)
		case 'F':
			err = pc.Flush()
		}
		if err != nil {
			return err
		}
	}
	return pc.Flush()
}

func vfReadAll(pc *PacketConn) ([]vfPkt, string) {
	var recv []vfPkt
	for i := 0; i < 1000000; i++ {
		tip, body, err := pc.ReadPacket(nil, 0)
		if err != nil {
			return recv, vfClassify(err)
		}
		recv = append(recv, vfPkt{tip, append([]byte(nil), body...)})
	}
	return recv, "loop"
}

// hs <pvreq> <enc> <rb> <wb> <sched> <ops c2s> <ops s2c>
func vfHandshake(f []string) string {
	pvReq := uint32(vfU64(f[1]))
	enc := f[2] == "1"
	rb := int(vfU64(f[3]))
	wb := int(vfU64(f[4]))
	sched := vfParseSched(f[5])
	c2sOps := vfParseOps(f[6])
	s2cOps := vfParseOps(f[7])
	key := ""
	if enc {
		key = "verif-crypto-key-0123456789abcdefghij"
	}
	c2s := vfNewHalf(sched)
	s2c := vfNewHalf(sched)
	ca := &net.TCPAddr{IP: net.IPv4(127, 0, 0, 1), Port: 1111}
	sa := &net.TCPAddr{IP: net.IPv4(127, 0, 0, 1), Port: 2222}
	cconn := &vfDuplex{in: s2c, out: c2s, local: ca, remote: sa}
	sconn := &vfDuplex{in: c2s, out: s2c, local: sa, remote: ca}
	client := NewPacketConn(cconn, rb, wb)
	server := NewPacketConn(sconn, rb, wb)
	var serr error
	done := make(chan struct{})
	go func() {
		defer close(done)
		defer func() {
			if r := recover(); r != nil {
				serr = fmt.Errorf("panic %v", r)
				s2c.closeWrite()
			}
		}()
		_, _, serr = server.HandshakeServer([]string{key}, nil, enc, 1, DefaultPacketTimeout)
		if serr != nil {
			s2c.closeWrite()
		}
	}()
	cerr := client.HandshakeClient(key, nil, enc, 2, 0, DefaultPacketTimeout, pvReq)
	if cerr != nil {
		c2s.closeWrite()
	}
	select {
	case <-done:
	case <-time.After(20 * time.Second):
		return "hs-timeout"
	}
	if cerr != nil || serr != nil {
		return fmt.Sprintf("hs-error client=%v server=%v", cerr, serr)
	}
	c2sLen0 := len(c2s.captured())
	s2cLen0 := len(s2c.captured())
	var cw, sw, cr, sr *vfRecMode
	if client.Encrypted() != server.Encrypted() {
		return "hs-enc-disagree"
	}
	if client.Encrypted() {
		cw = &vfRecMode{inner: client.w.enc}
		client.w.enc = cw
		sw = &vfRecMode{inner: server.w.enc}
		server.w.enc = sw
		cr = &vfRecMode{inner: client.r.enc}
		client.r.enc = cr
		sr = &vfRecMode{inner: server.r.enc}
		server.r.enc = sr
	}
	table := func(pc *PacketConn) int {
		if pc.table == castagnoliTable {
			return 1
		}
		return 0
	}
	if err := vfWriteOps(client, c2sOps); err != nil {
		return fmt.Sprintf("hs-write-error %v", err)
	}
	c2s.closeWrite()
	recvS, endS := vfReadAll(server)
	if err := vfWriteOps(server, s2cOps); err != nil {
		return fmt.Sprintf("hs-write-error %v", err)
	}
	s2c.closeWrite()
	recvC, endC := vfReadAll(client)
	fullC2S := c2s.captured()
	fullS2C := s2c.captured()
	var postC2S, postS2C []byte
	goOnly := ""
	if client.Encrypted() {
		postC2S, postS2C = cw.in, sw.in
		ok := bytes.Equal(cw.out, fullC2S[c2sLen0:]) && bytes.Equal(sw.out, fullS2C[s2cLen0:]) &&
			bytes.Equal(sr.out, cw.in) && bytes.Equal(cr.out, sw.in)
		goOnly = fmt.Sprintf("bufok=%v", ok)
	} else {
		postC2S, postS2C = fullC2S[c2sLen0:], fullS2C[s2cLen0:]
		goOnly = fmt.Sprintf("full_c2s=%s full_s2c=%s", vfHex(fullC2S), vfHex(fullS2C))
	}
	encs := "0"
	if client.Encrypted() {
		encs = "1"
	}
	return fmt.Sprintf("ok pv=%d/%d enc=%s crc=%d/%d c2s=%s rc2s=%s ec2s=%s s2c=%s rs2c=%s es2c=%s | %s",
		client.protocolVersion, server.protocolVersion, encs, table(client), table(server),
		vfHex(postC2S), vfRecvString(recvS), endS, vfHex(postS2C), vfRecvString(recvC), endC, goOnly)
}

// ------------------------------------------------------------------------------------------ C40

func vfSub(s string) []byte { // hex inside a compound token; "." = empty
	if s == "." {
		return nil
	}
	return vfUnhex(s)
}

func vfSubHex(b []byte) string {
	if len(b) == 0 {
		return "."
	}
	return hex.EncodeToString(b)
}

func vfParseReqExtra(f []string) RequestExtra {
	var e RequestExtra
	e.Flags = uint32(vfU64(f[0]))
	e.RequesterId = int64(vfU64(f[1]))
	if f[2] != "-" {
		e.WaitShardsBinlogPos = map[string]int64{}
		for _, kv := range strings.Split(f[2], ",") {
			p := strings.Split(kv, ":")
			e.WaitShardsBinlogPos[string(vfSub(p[0]))] = int64(vfU64(p[1]))
		}
	}
	e.WaitBinlogPos = int64(vfU64(f[3]))
	if f[4] != "-" {
		for _, s := range strings.Split(f[4], ",") {
			e.StringForwardKeys = append(e.StringForwardKeys, string(vfSub(s)))
		}
	}
	if f[5] != "-" {
		for _, s := range strings.Split(f[5], ",") {
			e.IntForwardKeys = append(e.IntForwardKeys, int64(vfU64(s)))
		}
	}
	e.StringForward = string(vfSub(f[6]))
	e.IntForward = int64(vfU64(f[7]))
	e.CustomTimeoutMs = int32(uint32(vfU64(f[8])))
	e.SupportedCompressionVersion = int32(uint32(vfU64(f[9])))
	e.RandomDelay = math.Float64frombits(vfU64(f[10]))
	p := strings.Split(f[11], ":")
	if p[0] == "P" {
		e.PersistentQuery.SetPrepareRequest(tlexactlyOnce.PrepareRequest{
			PersistentQueryUuid: tlexactlyOnce.Uuid{Lo: int64(vfU64(p[1])), Hi: int64(vfU64(p[2]))}})
	} else {
		e.PersistentQuery.SetCommitRequest(tlexactlyOnce.CommitRequest{
			PersistentQueryUuid: tlexactlyOnce.Uuid{Lo: int64(vfU64(p[1])), Hi: int64(vfU64(p[2]))},
			PersistentSlotUuid:  tlexactlyOnce.Uuid{Lo: int64(vfU64(p[3])), Hi: int64(vfU64(p[4]))}})
	}
	t := strings.Split(f[12], ":")
	e.TraceContext.FieldsMask = uint32(vfU64(t[0]))
	e.TraceContext.TraceId.Lo = int64(vfU64(t[1]))
	e.TraceContext.TraceId.Hi = int64(vfU64(t[2]))
	e.TraceContext.ParentId = int64(vfU64(t[3]))
	e.TraceContext.SourceId = string(vfSub(t[4]))
	e.ExecutionContext = string(vfSub(f[13]))
	return e
}

func vfReqExtraString(e *RequestExtra) string {
	var sb strings.Builder
	fmt.Fprintf(&sb, "%d %d ", e.Flags, uint64(e.RequesterId))
	if len(e.WaitShardsBinlogPos) == 0 {
		sb.WriteString("-")
	} else {
		keys := make([]string, 0, len(e.WaitShardsBinlogPos))
		for k := range e.WaitShardsBinlogPos {
			keys = append(keys, k)
		}
		sort.Strings(keys)
		for i, k := range keys {
			if i != 0 {
				sb.WriteByte(',')
			}
			fmt.Fprintf(&sb, "%s:%d", vfSubHex([]byte(k)), uint64(e.WaitShardsBinlogPos[k]))
		}
	}
	fmt.Fprintf(&sb, " %d ", uint64(e.WaitBinlogPos))
	if len(e.StringForwardKeys) == 0 {
		sb.WriteString("-")
	} else {
		for i, k := range e.StringForwardKeys {
			if i != 0 {
				sb.WriteByte(',')
			}
			sb.WriteString(vfSubHex([]byte(k)))
		}
	}
	sb.WriteByte(' ')
	if len(e.IntForwardKeys) == 0 {
		sb.WriteString("-")
	} else {
		for i, k := range e.IntForwardKeys {
			if i != 0 {
				sb.WriteByte(',')
			}
			fmt.Fprintf(&sb, "%d", uint64(k))
		}
	}
	fmt.Fprintf(&sb, " %s %d %d %d %d ", vfSubHex([]byte(e.StringForward)), uint64(e.IntForward),
		uint32(e.CustomTimeoutMs), uint32(e.SupportedCompressionVersion), math.Float64bits(e.RandomDelay))
	if pr, ok := e.PersistentQuery.AsPrepareRequest(); ok {
		fmt.Fprintf(&sb, "P:%d:%d", uint64(pr.PersistentQueryUuid.Lo), uint64(pr.PersistentQueryUuid.Hi))
	} else if cr, ok := e.PersistentQuery.AsCommitRequest(); ok {
		fmt.Fprintf(&sb, "C:%d:%d:%d:%d", uint64(cr.PersistentQueryUuid.Lo), uint64(cr.PersistentQueryUuid.Hi),
			uint64(cr.PersistentSlotUuid.Lo), uint64(cr.PersistentSlotUuid.Hi))
	} else {
		sb.WriteString("?")
	}
	t := &e.TraceContext
	fmt.Fprintf(&sb, " %d:%d:%d:%d:%s %s", t.FieldsMask, uint64(t.TraceId.Lo), uint64(t.TraceId.Hi), uint64(t.ParentId),
		vfSubHex([]byte(t.SourceId)), vfSubHex([]byte(e.ExecutionContext)))
	return sb.String()
}

func vfParseRespExtra(f []string) ResponseExtra {
	var e ResponseExtra
	e.Flags = uint32(vfU64(f[0]))
	e.BinlogPos = int64(vfU64(f[1]))
	e.BinlogTime = int64(vfU64(f[2]))
	p := strings.Split(f[3], ":")
	e.EnginePid.Ip = uint32(vfU64(p[0]))
	e.EnginePid.PortPid = uint32(vfU64(p[1]))
	e.EnginePid.Utime = uint32(vfU64(p[2]))
	e.RequestSize = int32(uint32(vfU64(f[4])))
	e.ResponseSize = int32(uint32(vfU64(f[5])))
	e.FailedSubqueries = int32(uint32(vfU64(f[6])))
	e.CompressionVersion = int32(uint32(vfU64(f[7])))
	if f[8] != "-" {
		e.Stats = map[string]string{}
		for _, kv := range strings.Split(f[8], ",") {
			p := strings.Split(kv, ":")
			e.Stats[string(vfSub(p[0]))] = string(vfSub(p[1]))
		}
	}
	if f[9] != "-" {
		e.ShardsBinlogPos = map[string]int64{}
		for _, kv := range strings.Split(f[9], ",") {
			p := strings.Split(kv, ":")
			e.ShardsBinlogPos[string(vfSub(p[0]))] = int64(vfU64(p[1]))
		}
	}
	e.EpochNumber = int64(vfU64(f[10]))
	e.ViewNumber = int64(vfU64(f[11]))
	return e
}

func vfRespExtraString(e *ResponseExtra) string {
	var sb strings.Builder
	fmt.Fprintf(&sb, "%d %d %d %d:%d:%d %d %d %d %d ", e.Flags, uint64(e.BinlogPos), uint64(e.BinlogTime),
		e.EnginePid.Ip, e.EnginePid.PortPid, e.EnginePid.Utime, uint32(e.RequestSize), uint32(e.ResponseSize),
		uint32(e.FailedSubqueries), uint32(e.CompressionVersion))
	if len(e.Stats) == 0 {
		sb.WriteString("-")
	} else {
		keys := make([]string, 0, len(e.Stats))
		for k := range e.Stats {
			keys = append(keys, k)
		}
		sort.Strings(keys)
		for i, k := range keys {
			if i != 0 {
				sb.WriteByte(',')
			}
			fmt.Fprintf(&sb, "%s:%s", vfSubHex([]byte(k)), vfSubHex([]byte(e.Stats[k])))
		}
	}
	sb.WriteByte(' ')
	if len(e.ShardsBinlogPos) == 0 {
		sb.WriteString("-")
	} else {
		keys := make([]string, 0, len(e.ShardsBinlogPos))
		for k := range e.ShardsBinlogPos {
			keys = append(keys, k)
		}
		sort.Strings(keys)
		for i, k := range keys {
			if i != 0 {
				sb.WriteByte(',')
			}
			fmt.Fprintf(&sb, "%s:%d", vfSubHex([]byte(k)), uint64(e.ShardsBinlogPos[k]))
		}
	}
	fmt.Fprintf(&sb, " %d %d", uint64(e.EpochNumber), uint64(e.ViewNumber))
	return sb.String()
}

func vfErrClass(err error) string {
	if errors.Is(err, io.ErrUnexpectedEOF) {
		return "eof"
	}
	return "reject"
}

func vfBool(b bool) string {
	if b {
		return "1"
	}
	return "0"
}

func vfParsedReqString(hctx *HandlerContext) string {
	return fmt.Sprintf("%d %d %s %d %s %s", uint64(hctx.queryID), uint64(hctx.actorID), vfBool(hctx.bodyFormatTL2),
		hctx.reqTag, vfHex(hctx.Request), vfReqExtraString(&hctx.RequestExtra))
}

// req <qid> <actor> <tl2> <bodyhex> <14 extra tokens>
func vfHdrReq(f []string) string {
	qid := vfU64(f[1])
	actor := vfU64(f[2])
	tl2 := f[3] == "1"
	body := vfUnhex(f[4])
	extra := vfParseReqExtra(f[5:19])
	req := &Request{Body: append([]byte(nil), body...), ActorID: int64(actor), Extra: extra, BodyFormatTL2: tl2, queryID: int64(qid)}
	if err := preparePacket(req); err != nil {
		return "toolarge"
	}
	wire := append(append([]byte(nil), req.Body[req.extraStart:]...), req.Body[:req.extraStart]...)
	hctx := &HandlerContext{}
	hctx.Request = append([]byte(nil), wire...)
	if err := hctx.ParseInvokeReq(&ServerOptions{}); err != nil {
		return fmt.Sprintf("ok %s %s", vfHex(wire), vfErrClass(err))
	}
	return fmt.Sprintf("ok %s %s | noresult=%v mask=%d", vfHex(wire), vfParsedReqString(hctx), hctx.noResult, hctx.requestExtraFieldsmask)
}

// preq <hex>
func vfHdrPreq(f []string) string {
	hctx := &HandlerContext{}
	hctx.Request = vfUnhex(f[1])
	if err := hctx.ParseInvokeReq(&ServerOptions{}); err != nil {
		return vfErrClass(err)
	}
	return "ok " + vfParsedReqString(hctx)
}

func vfParseClientResp(tl2 bool, wire []byte) string {
	var header tl.RpcReqResultHeader
	rest, err := header.ReadTL1(wire)
	if err != nil {
		return vfErrClass(err)
	}
	var ex ResponseExtra
	body, err := parseResponseExtra(tl2, &ex, rest)
	var rpcErr *Error
	switch {
	case err == nil:
		return fmt.Sprintf("%d B:%s %s", uint64(header.QueryId), vfHex(body), vfRespExtraString(&ex))
	case errors.As(err, &rpcErr):
		return fmt.Sprintf("%d E:%d:%s:%s %s", uint64(header.QueryId), uint32(rpcErr.Code), vfSubHex([]byte(rpcErr.Description)), vfSubHex(body), vfRespExtraString(&ex))
	default:
		return vfErrClass(err)
	}
}

func vfPrepareResp(hctx *HandlerContext, errTok string) (string, []byte) {
	var e error
	if errTok != "-" {
		p := strings.Split(errTok, ":")
		e = &Error{Code: int32(uint32(vfU64(p[0]))), Description: string(vfSub(p[1]))}
	}
	if perr := hctx.prepareResponseBody(e); perr != nil {
		return "toolarge", nil
	}
	if hctx.noResult {
		return "noresult", nil
	}
	wire := append(append([]byte(nil), hctx.Response[hctx.extraStart:]...), hctx.Response[:hctx.extraStart]...)
	return "", wire
}

// resp <qid> <mask> <tl2> <bodyhex> <err: - | code:deschex> <12 extra tokens>
func vfHdrResp(f []string) string {
	hctx := &HandlerContext{}
	hctx.queryID = int64(vfU64(f[1]))
	hctx.requestExtraFieldsmask = uint32(vfU64(f[2]))
	hctx.noResult = hctx.requestExtraFieldsmask&(1<<7) != 0
	hctx.bodyFormatTL2 = f[3] == "1"
	hctx.Response = append([]byte(nil), vfUnhex(f[4])...)
	hctx.ResponseExtra = vfParseRespExtra(f[6:18])
	st, wire := vfPrepareResp(hctx, f[5])
	if st != "" {
		return st
	}
	return fmt.Sprintf("ok %s %s", vfHex(wire), vfParseClientResp(hctx.bodyFormatTL2, wire))
}

// presp <tl2> <hex>
func vfHdrPresp(f []string) string {
	r := vfParseClientResp(f[1] == "1", vfUnhex(f[2]))
	if r == "eof" || r == "reject" {
		return r
	}
	return "ok " + r
}

// rt <qid> <actor> <tl2> <bodyhex> <14 req extra tokens> <respbodyhex> <err> <12 resp extra tokens>
// request through preparePacket/ParseInvokeReq, response through the same HandlerContext
func vfHdrRoundTrip(f []string) string {
	qid := vfU64(f[1])
	actor := vfU64(f[2])
	tl2 := f[3] == "1"
	body := vfUnhex(f[4])
	extra := vfParseReqExtra(f[5:19])
	req := &Request{Body: append([]byte(nil), body...), ActorID: int64(actor), Extra: extra, BodyFormatTL2: tl2, queryID: int64(qid)}
	if err := preparePacket(req); err != nil {
		return "toolarge"
	}
	wire := append(append([]byte(nil), req.Body[req.extraStart:]...), req.Body[:req.extraStart]...)
	hctx := &HandlerContext{}
	hctx.Request = append([]byte(nil), wire...)
	if err := hctx.ParseInvokeReq(&ServerOptions{}); err != nil {
		return fmt.Sprintf("ok %s %s", vfHex(wire), vfErrClass(err))
	}
	reqs := vfParsedReqString(hctx)
	hctx.Response = append([]byte(nil), vfUnhex(f[19])...)
	hctx.ResponseExtra = vfParseRespExtra(f[21:33])
	st, rwire := vfPrepareResp(hctx, f[20])
	if st != "" {
		return fmt.Sprintf("ok %s %s %s", vfHex(wire), reqs, st)
	}
	return fmt.Sprintf("ok %s %s ok %s %s", vfHex(wire), reqs, vfHex(rwire), vfParseClientResp(tl2, rwire))
}

// ------------------------------------------------------------------------------------------ C40 end to end

// e2e <n> then n groups of 33 tokens: a path token + the fields of an rt op (the query id token is ignored, the
// client assigns its own): sequential calls on ONE real rpc.Client against ONE real rpc.Server over loopback TCP;
// every Response is recycled with PutResponse before the next call.  Paths:
//
//	d  the Handler (worker) answers directly
//	l  the SyncHandler parks the request with StartLongpoll; the answer is written later into the fresh context
//	   returned by LongpollHandle.FinishLongpoll and sent with SendLongpollResponse
//	e  as l, but the server side asks for the "empty" answer: CommonConn.SendEmptyResponse -> the canceller's
//	   WriteEmptyResponse fills the fresh context
//	c  as l, but the caller cancels its context: RpcCancelReq -> CancelLongpoll, nothing is answered
//
// Per call the result shows what the handler saw and what the caller saw:
// <actor> <tl2> <tag> <body> <req extra> => <B:body | E:code:desc:rest> <resp extra>   (c: => cancelled)
type vfE2EScript struct {
	path      string
	respBody  []byte
	errTok    string
	respExtra ResponseExtra
	seen      string
	lh        LongpollHandle
	started   chan error    // StartLongpoll returned
	cancelled chan struct{} // CancelLongpoll called
}

func (sc *vfE2EScript) err() error {
	if sc.errTok == "-" {
		return nil
	}
	p := strings.Split(sc.errTok, ":")
	return &Error{Code: int32(uint32(vfU64(p[0]))), Description: string(vfSub(p[1]))}
}

func (sc *vfE2EScript) fill(hctx *HandlerContext) error {
	hctx.Response = append(hctx.Response, sc.respBody...)
	hctx.ResponseExtra = sc.respExtra
	return sc.err()
}

// LongpollCanceller
func (sc *vfE2EScript) CancelLongpoll(lh LongpollHandle) { close(sc.cancelled) }
func (sc *vfE2EScript) WriteEmptyResponse(lh LongpollHandle, hctx *HandlerContext) error {
	return sc.fill(hctx)
}

var vfE2E struct {
	once   sync.Once
	err    error
	addr   string
	client Client
	mu     sync.Mutex
	cur    *vfE2EScript
	lastR  *Response
	reused int
}

func vfE2ESeen(hctx *HandlerContext) string {
	return fmt.Sprintf("%d %s %d %s %s", uint64(hctx.actorID), vfBool(hctx.bodyFormatTL2), hctx.reqTag,
		vfHex(hctx.Request), vfReqExtraString(&hctx.RequestExtra))
}

func vfE2EInit() {
	ln, err := net.Listen("tcp4", "127.0.0.1:0")
	if err != nil {
		vfE2E.err = err
		return
	}
	vfE2E.addr = ln.Addr().String()
	nolog := func(format string, args ...any) {}
	script := func() *vfE2EScript {
		vfE2E.mu.Lock()
		defer vfE2E.mu.Unlock()
		return vfE2E.cur
	}
	srv := NewServer(ServerWithLogf(nolog),
		ServerWithSyncHandler(func(ctx context.Context, hctx *HandlerContext) error {
			sc := script()
			if sc == nil || sc.path == "d" {
				return ErrNoHandler // goes to a worker
			}
			sc.seen = vfE2ESeen(hctx)
			lh, err := hctx.StartLongpoll(sc)
			sc.lh = lh
			sc.started <- err
			return err
		}),
		ServerWithHandler(func(ctx context.Context, hctx *HandlerContext) error {
			sc := script()
			if sc == nil {
				return fmt.Errorf("no script")
			}
			sc.seen = vfE2ESeen(hctx)
			return sc.fill(hctx)
		}))
	go func() { _ = srv.Serve(ln) }()
	vfE2E.client = NewClient(ClientWithLogf(nolog))
}

func vfHdrE2E(f []string) string {
	vfE2E.once.Do(vfE2EInit)
	if vfE2E.err != nil {
		return "driver-error listen: " + vfE2E.err.Error()
	}
	n := int(vfU64(f[1]))
	var out []string
	for i := 0; i < n; i++ {
		path := f[2+33*i]
		g := f[3+33*i : 3+33*i+32]
		sc := &vfE2EScript{path: path, respBody: vfUnhex(g[18]), errTok: g[19], respExtra: vfParseRespExtra(g[20:32]),
			started: make(chan error, 1), cancelled: make(chan struct{})}
		vfE2E.mu.Lock()
		vfE2E.cur = sc
		vfE2E.mu.Unlock()
		req := vfE2E.client.GetRequest()
		req.ActorID = int64(vfU64(g[1]))
		req.BodyFormatTL2 = g[2] == "1"
		req.Body = append(req.Body, vfUnhex(g[3])...)
		req.Extra = vfParseReqExtra(g[4:18])
		// a context without deadline: a deadline would be written into the request extra (fillRequestTimeout)
		ctx, cancel := context.WithCancel(context.Background())
		type doRes struct {
			resp *Response
			err  error
		}
		ch := make(chan doRes, 1)
		go func() {
			r, e := vfE2E.client.Do(ctx, "tcp4", vfE2E.addr, req)
			ch <- doRes{r, e}
		}()
		note := ""
		if path != "d" {
			// the request is parked; answer it from here, through the context the server hands out
			select {
			case err := <-sc.started:
				if err != nil {
					note = "startlongpoll:" + strings.ReplaceAll(err.Error(), " ", "_")
				}
			case <-time.After(30 * time.Second):
				cancel()
				return "driver-error e2e longpoll was not started"
			}
			if note == "" {
				switch path {
				case "l":
					hctx2, ok := sc.lh.FinishLongpoll()
					if !ok {
						note = "finishlongpoll-returned-nothing"
					} else {
						hctx2.SendLongpollResponse(sc.fill(hctx2))
					}
				case "e":
					sc.lh.CommonConn.SendEmptyResponse(sc.lh)
				case "c":
					cancel()
					select {
					case <-sc.cancelled:
						if _, ok := sc.lh.FinishLongpoll(); ok {
							note = "finishlongpoll-after-cancel-returned-a-context"
						}
					case <-time.After(30 * time.Second):
						note = "cancellongpoll-not-called"
					}
				}
			}
		}
		var resp *Response
		var err error
		select {
		case r := <-ch:
			resp, err = r.resp, r.err
		case <-time.After(30 * time.Second):
			cancel()
			return "driver-error e2e call timed out " + note
		}
		cancel()
		var rpcErr *Error
		var seenByCaller string
		switch {
		case note != "":
			seenByCaller = "fail " + note
		case path == "c" && errors.Is(err, context.Canceled):
			seenByCaller = "cancelled"
		case resp == nil:
			seenByCaller = fmt.Sprintf("fail %v", err)
		case err == nil:
			seenByCaller = fmt.Sprintf("B:%s %s", vfHex(resp.Body), vfRespExtraString(&resp.Extra))
		case errors.As(err, &rpcErr):
			seenByCaller = fmt.Sprintf("E:%d:%s:%s %s", uint32(rpcErr.Code), vfSubHex([]byte(rpcErr.Description)), vfSubHex(resp.Body), vfRespExtraString(&resp.Extra))
		default:
			seenByCaller = fmt.Sprintf("fail %v", strings.ReplaceAll(err.Error(), " ", "_"))
		}
		if resp != nil {
			if resp == vfE2E.lastR {
				vfE2E.reused++
			}
			vfE2E.lastR = resp
			vfE2E.client.PutResponse(resp)
		}
		out = append(out, sc.seen+" => "+seenByCaller)
	}
	return "ok " + strings.Join(out, " ; ") + fmt.Sprintf(" | pooled_response_reused_total=%d", vfE2E.reused)
}

// lpfields <name> ...: is the named member part of handlerContextFields, i.e. of what toLongpollContext saves into
// longpollHctx and finishLongpoll2 restores into the context returned by FinishLongpoll (reflection on the real types)
func vfLpFields(f []string) string {
	saved := map[string]bool{}
	lt := reflect.TypeOf(longpollHctx{})
	ht := reflect.TypeOf(HandlerContext{})
	emb, ok1 := lt.FieldByName("handlerContextFields")
	hemb, ok2 := ht.FieldByName("handlerContextFields")
	if ok1 && ok2 && emb.Anonymous && hemb.Anonymous && emb.Type == hemb.Type {
		for i := 0; i < emb.Type.NumField(); i++ {
			saved[emb.Type.Field(i).Name] = true
		}
	}
	var out []string
	for _, n := range f[1:] {
		out = append(out, n+"="+vfBool(saved[n]))
	}
	return "ok " + strings.Join(out, " ")
}

// ------------------------------------------------------------------------------------------ driver

func vfRun(line string) (res string) {
	defer func() {
		if r := recover(); r != nil {
			res = fmt.Sprintf("panic %v", r)
		}
	}()
	f := strings.Fields(line)
	if len(f) == 0 {
		return "driver-error empty"
	}
	switch f[0] {
	case "stream":
		return vfStream(f, false)
	case "corrupt":
		return vfStream(f, true)
	case "hs":
		return vfHandshake(f)
	case "readraw":
		return vfReadRaw(f)
	case "req":
		return vfHdrReq(f)
	case "preq":
		return vfHdrPreq(f)
	case "resp":
		return vfHdrResp(f)
	case "presp":
		return vfHdrPresp(f)
	case "rt":
		return vfHdrRoundTrip(f)
	case "e2e":
		return vfHdrE2E(f)
	case "lpfields":
		return vfLpFields(f)
	}
	return "driver-error unknown op " + f[0]
}

func TestVerifFrame(t *testing.T) {
	in, err := os.Open(os.Getenv("VERIF_OPS"))
	if err != nil {
		t.Skip("no VERIF_OPS")
	}
	defer in.Close()
	outf, err := os.Create(os.Getenv("VERIF_OUT"))
	if err != nil {
		t.Fatal(err)
	}
	w := bufio.NewWriterSize(outf, 1<<20)
	sc := bufio.NewScanner(in)
	sc.Buffer(make([]byte, 1<<20), 1<<28)
	for sc.Scan() {
		w.WriteString(vfRun(sc.Text()))
		w.WriteByte('\n')
	}
	w.Flush()
	outf.Close()
}
