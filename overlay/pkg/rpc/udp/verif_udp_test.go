//go:build verif

// Add-only overlay harness for property C36 (never copied into /repo; injected with go test -overlay).
//
// It drives the package's own deterministic multi-transport simulator (fuzz_transport.go): the transports are
// created exactly as FuzzDyukov creates them and every command is executed by the simulator's step functions
// (doGoWriteStep, doGoReadStep, doEncHdrRcv, do*TimerBurn, checkInvariants); only the surrounding loop is
// replicated here so that the run can be observed after every command.
//
// Operation lines ($VERIF_OPS), one result line each ($VERIF_OUT):
//
//	new <mode> <seed>   fresh simulator.  mode d: StreamLikeIncoming, no restarts (compared with the Coq model);
//	                    x: not stream-like, no restarts (oracle only); r: stream-like with regenerate timers (oracle only)
//	c <hex>             one simulator command (same byte encoding as FuzzDyukov: n/w/r/e/t/d/l + verb bytes)
//	flush               one 4-byte message on every active connection, then settle (used after restarts)
//	settle              the simulator's "repair the network" loop, run until no connection has anything to send
//	fuzz <mode> <hex>   the unmodified FuzzDyukov on a whole command string (its own verdict, under recover)
//
// Result line = "<state> | <events> | <info>".
//
//	state  : projection compared with the abstract model (mode d; "-" otherwise), see verifUdpState
//	events : what the implementation did in abstract terms (the model's nondeterministic inputs):
//	         S src,dst,hex  message submitted          A snd,rcv,prefix,from-to,set  acks applied by sender snd
//	         C src,dst,sizes one message sliced        W id,src,dst,first,count,payload-digests  datagram put on the wire
//	         R id / L id / D id,newid  datagram delivered / lost / duplicated
//	info   : data for the oracle (settle line): sent and received messages per connection, acked-prefix traces,
//	         memory high-water marks (with the loss predicted by the mechanism of finding F14 at every reset),
//	         allocator counters, messages submitted by the flush phase
package udp

import (
	"bufio"
	"encoding/hex"
	"fmt"
	"net"
	"net/netip"
	"os"
	"sort"
	"strconv"
	"strings"
	"testing"
	"time"

	"github.com/VKCOM/tl/internal/vkgo/pkg/basictl"
	"github.com/VKCOM/tl/pkg/rpc/internal/gen/tlnetUdpPacket"
)

type verifUdpTrace struct {
	t, peer int
	out, in []uint32
	gen     uint32
}

type verifUdpRunT struct {
	fctx     *FuzzTransportContext
	mode     byte
	restarts bool
	stream   bool
	seed     uint64
	counter  uint64
	sent     map[[2]int][]string
	recv     map[[2]int][]string
	ids      [transports][]int
	nextID   int
	traces   map[*Connection]*verifUdpTrace
	order    []*Connection
	memMax   [transports]int64
	panicked string
	ev       []string
	steps    int
	// buffers handed out by the incoming-message allocator and not yet given to a handler / the deallocator
	inAlloc, inDoubleFree int
	inLive                map[*[]byte]bool
	// submitted message buffers not yet returned through the deallocator
	outLive map[*[]byte]bool
	// first step at which acquiredMemory differed from the memory accounted to the transport's connections
	acctBad string
	// per transport: what the mechanism of finding F14 predicts to be lost at the resets seen so far, computed in the
	// close handler (called by renewConnection right before resetGoReadUnlockedState): the stream range reserved by
	// the connection minus the bytes of its already allocated IncomingMessages (the only thing the reset releases)
	predLeak [transports]int64
	resets   int
	// messages submitted by the flush phase (after the restarts have settled): these must be delivered
	flushSent []string
	inFlush   bool
	// rolling hash of the contents handed to the handler, per connection (part of the compared projection)
	roll map[[2]int]uint32
}

func verifUdpFnv(s string) uint32 {
	h := uint32(2166136261)
	for i := 0; i < len(s); i++ {
		h ^= uint32(s[i])
		h *= 16777619
	}
	return h
}

// roll' = fnv32(4 bytes of roll, little endian, followed by the message)
func verifUdpRoll(roll uint32, m []byte) uint32 {
	h := uint32(2166136261)
	for i := 0; i < 4; i++ {
		h ^= (roll >> (8 * uint(i))) & 0xff
		h *= 16777619
	}
	for _, b := range m {
		h ^= uint32(b)
		h *= 16777619
	}
	return h
}

func verifUdpDigest(s string) string {
	return fmt.Sprintf("%d.%08x", len(s), verifUdpFnv(s))
}

func (r *verifUdpRunT) handler(src, dst int) MessageHandler {
	inner := receiveMessageHandler(r.fctx, src, dst)
	return func(message *[]byte, canSave bool) {
		k := [2]int{src, dst}
		r.recv[k] = append(r.recv[k], string(*message))
		r.roll[k] = verifUdpRoll(r.roll[k], *message)
		if canSave {
			if r.inLive[message] {
				delete(r.inLive, message)
			} else {
				r.inDoubleFree++
			}
		}
		inner(message, canSave)
	}
}

func verifUdpNew(mode byte, seed uint64) *verifUdpRunT {
	MaxChunkSize = MaxFuzzChunkSize
	r := &verifUdpRunT{
		mode: mode, restarts: mode == 'r', stream: mode != 'x', seed: seed,
		sent: map[[2]int][]string{}, recv: map[[2]int][]string{}, traces: map[*Connection]*verifUdpTrace{},
		inLive: map[*[]byte]bool{}, outLive: map[*[]byte]bool{}, roll: map[[2]int]uint32{},
	}
	fctx := &FuzzTransportContext{
		sentMessages:     make(map[RandomMessage]int),
		receivedMessages: make(map[RandomMessage]int),
	}
	r.fctx = fctx
	for tId := 0; tId < transports; tId++ {
		udpAddr, err := net.ResolveUDPAddr("udp", transportIdToAddress(tId))
		if err != nil {
			panic(err)
		}
		tIdCopy := tId
		fctx.ts[tId], err = NewTransport(
			MaxFuzzTransportMemory,
			[]string{"01234567890123456789012345678901"},
			nil,
			udpAddr,
			uint32(time.Now().Unix()),
			func(conn *Connection) {
				conn.MessageHandle = r.handler(addressToTransportId(conn.remoteAddr().String()), tIdCopy)
				conn.StreamLikeIncoming = r.stream
			},
			func(conn *Connection) {
				r.resets++
				if !r.stream {
					return
				}
				in := &conn.incoming
				reserved := in.messagesTotalOffset - in.messagesBeginOffset
				seen := map[*IncomingMessage]bool{}
				allocated := int64(0)
				for s := in.ackPrefix; s < in.nextSeqNo; s++ {
					ch := in.windowChunks.GetPtr(s)
					if ch == nil || ch.message == nil || ch.message == &fakeMessage || ch.message.data == nil || seen[ch.message] {
						continue
					}
					seen[ch.message] = true
					allocated += int64(len(*ch.message.data))
				}
				r.predLeak[tIdCopy] += reserved - allocated
			},
			func(size int) *[]byte {
				fctx.allocatedMessages++
				m := make([]byte, size)
				r.inAlloc++
				r.inLive[&m] = true
				return &m
			},
			func(p *[]byte) {
				fctx.deallocatedMessages++
				if r.inLive[p] {
					delete(r.inLive, p)
				} else if r.outLive[p] {
					delete(r.outLive, p)
				} else {
					r.inDoubleFree++
				}
			},
			0, 0, false, false, nil, nil, nil, nil, nil, nil,
		)
		if err != nil {
			panic(err)
		}
	}
	return r
}

func (r *verifUdpRunT) close() {
	for _, t := range r.fctx.ts {
		_ = t.Close()
	}
}

func (r *verifUdpRunT) emit(format string, a ...any) {
	r.ev = append(r.ev, fmt.Sprintf(format, a...))
}

// deterministic message contents (splitmix64)
func (r *verifUdpRunT) content(size int) []byte {
	r.counter++
	x := r.seed*0x9e3779b97f4a7c15 + r.counter*0xbf58476d1ce4e5b9
	m := make([]byte, size)
	for i := range m {
		x += 0x9e3779b97f4a7c15
		z := x
		z = (z ^ (z >> 30)) * 0xbf58476d1ce4e5b9
		z = (z ^ (z >> 27)) * 0x94d049bb133111eb
		z ^= z >> 31
		m[i] = byte(z)
	}
	// first 4 bytes must not look like one of the transport's own control messages; make them a counter
	if size >= 4 {
		m[0] = byte(r.counter)
		m[1] = byte(r.counter >> 8)
		m[2] = 0x5a
		m[3] = 0x01
	}
	return m
}

// same calls as doNewMessage, but with non-trivial contents and with the receive handler of this harness
func (r *verifUdpRunT) newMessage(transportId, dstId, messageSize int) {
	fctx := r.fctx
	defer checkInvariants(fctx)
	message := r.content(messageSize)
	saved := string(message)
	conn, err := fctx.ts[transportId].ConnectTo(
		netip.MustParseAddrPort(fctx.ts[dstId].socketAddr.String()),
		r.handler(dstId, transportId),
		r.stream,
		nil,
	)
	if err != nil {
		panic(err)
	}
	r.outLive[&message] = true
	err = conn.SendMessage(&message)
	if err != nil {
		panic(err)
	}
	fctx.sentMessages[RandomMessage{src: transportId, dst: dstId, message: saved}] += 1
	k := [2]int{transportId, dstId}
	r.sent[k] = append(r.sent[k], saved)
	if r.inFlush {
		r.flushSent = append(r.flushSent, fmt.Sprintf("%d>%d:%s", transportId, dstId, verifUdpDigest(saved)))
	}
	r.emit("S%d,%d,%s", transportId, dstId, hex.EncodeToString([]byte(saved)))
}

func verifUdpPeer(conn *Connection) int {
	return addressToTransportId(conn.remoteAddr().String())
}

func (r *verifUdpRunT) conns(tId int) []*Connection {
	t := r.fctx.ts[tId]
	res := make([]*Connection, 0, len(t.handshakeByPid))
	for _, c := range t.handshakeByPid {
		res = append(res, c)
	}
	sort.Slice(res, func(i, j int) bool { return verifUdpPeer(res[i]) < verifUdpPeer(res[j]) })
	return res
}

func (r *verifUdpRunT) connTo(tId, peer int) *Connection {
	for _, c := range r.fctx.ts[tId].handshakeByPid {
		if verifUdpPeer(c) == peer {
			return c
		}
	}
	return nil
}

// observe after every simulator step: acked prefixes per connection object, memory high-water marks
func (r *verifUdpRunT) observe() {
	r.steps++
	for tId, t := range r.fctx.ts {
		if t.acquiredMemory > r.memMax[tId] {
			r.memMax[tId] = t.acquiredMemory
		}
		if r.stream && r.acctBad == "" {
			// stream-like connections release a message exactly when it leaves the window
			sum := int64(0)
			for _, c := range t.handshakeByPid {
				sum += c.incoming.messagesTotalOffset - c.incoming.messagesBeginOffset
			}
			if sum+r.predLeak[tId] != t.acquiredMemory {
				r.acctBad = fmt.Sprintf("%d:%d:%d:%d:%d", tId, r.steps, t.acquiredMemory, sum, r.predLeak[tId])
			}
		}
		for _, c := range t.handshakeByPid {
			tr := r.traces[c]
			if tr == nil {
				tr = &verifUdpTrace{t: tId, peer: verifUdpPeer(c), gen: c.generation}
				r.traces[c] = tr
				r.order = append(r.order, c)
			}
			if n := len(tr.out); n == 0 || tr.out[n-1] != c.outgoing.ackSeqNoPrefix {
				tr.out = append(tr.out, c.outgoing.ackSeqNoPrefix)
			}
			if n := len(tr.in); n == 0 || tr.in[n-1] != c.incoming.ackPrefix {
				tr.in = append(tr.in, c.incoming.ackPrefix)
			}
		}
	}
}

func (r *verifUdpRunT) stepW(tId int) {
	fctx := r.fctx
	t := fctx.ts[tId]
	for i := 0; i < t.newHdrRcvs.Len(); i++ {
		hdr := t.newHdrRcvs.Index(i)
		if hdr.conn.GetFlag(writeClosedFlag) {
			continue
		}
		p, ft, set := "-", "-", "-"
		if hdr.enc.IsSetPacketAckPrefix() {
			p = strconv.FormatUint(uint64(hdr.enc.PacketAckPrefix), 10)
		}
		if hdr.enc.IsSetPacketAckFrom() {
			ft = fmt.Sprintf("%d-%d", hdr.enc.PacketAckFrom, hdr.enc.PacketAckTo)
		}
		if hdr.enc.IsSetPacketAckSet() && len(hdr.enc.PacketAckSet) > 0 {
			var sb []string
			for _, v := range hdr.enc.PacketAckSet {
				sb = append(sb, strconv.FormatUint(uint64(v), 10))
			}
			set = strings.Join(sb, ".")
		}
		if p != "-" || ft != "-" || set != "-" {
			r.emit("A%d,%d,%s,%s,%s", tId, verifUdpPeer(hdr.conn), p, ft, set)
		}
	}
	nextBefore := map[*Connection]uint32{}
	for _, c := range t.handshakeByPid {
		nextBefore[c] = c.outgoing.nextSeqNo
	}
	var lens [transports]int
	for d := range fctx.network {
		lens[d] = len(fctx.network[d])
	}

	doGoWriteStep(fctx, tId)

	for _, c := range r.conns(tId) {
		was := nextBefore[c]
		if c.outgoing.nextSeqNo <= was {
			continue
		}
		var sizes []string
		for s := was; s < c.outgoing.nextSeqNo; s++ {
			ch := c.outgoing.window.GetPtr(s)
			if ch == nil {
				r.emit("X-missing-chunk-%d", s)
				continue
			}
			if ch.prevParts == 0 && len(sizes) > 0 {
				r.emit("C%d,%d,%s", tId, verifUdpPeer(c), strings.Join(sizes, "."))
				sizes = sizes[:0]
			}
			sizes = append(sizes, strconv.Itoa(len(ch.payload)))
		}
		if len(sizes) > 0 {
			r.emit("C%d,%d,%s", tId, verifUdpPeer(c), strings.Join(sizes, "."))
		}
	}
	for d := range fctx.network {
		if len(fctx.network[d]) == lens[d] {
			continue
		}
		id := r.nextID
		r.nextID++
		r.ids[d] = append(r.ids[d], id)
		first, count := uint32(0), uint32(0)
		payloads := "-"
		// the plaintext of the datagram just built is still in writeBufferToEncrypt: encrypted header, then the chunk
		// payloads (each preceded by its length when there are several), zero padding, copy of the unencrypted header
		var enc tlnetUdpPacket.EncHeader
		rest, err := enc.ReadTL1(t.writeBufferToEncrypt)
		if err != nil {
			r.emit("X-cannot-parse-enc-header")
		} else if enc.IsSetPacketsFrom() {
			first, count = enc.PacketsFrom, enc.PacketsCount
		} else if enc.IsSetPacketNum() && enc.PacketNum != ^uint32(0) {
			first, count = enc.PacketNum, 1
		}
		if count > 0 {
			// what travels under the labels first..first+count-1: digests of the payload bytes on the wire, to be
			// compared with the model's chunk table (the datagram's seq labels must be the chunks' seq numbers)
			var unenc tlnetUdpPacket.UnencHeader
			dg := fctx.network[d][len(fctx.network[d])-1].datagram
			tail := 0
			if _, err := unenc.ReadTL1Boxed(dg); err != nil {
				r.emit("X-cannot-parse-unenc-header")
			} else {
				tail = encryptedUnencHeaderSize(unenc)
			}
			if enc.IsSetZeroPadding1Byte() {
				tail += 1
			}
			if enc.IsSetZeroPadding2Bytes() {
				tail += 2
			}
			if enc.IsSetZeroPadding4Bytes() {
				tail += 4
			}
			if enc.IsSetZeroPadding8Bytes() {
				tail += 8
			}
			var ds []string
			if tail > len(rest) {
				r.emit("X-datagram-shorter-than-its-trailer")
			} else {
				body := rest[:len(rest)-tail]
				if count == 1 {
					ds = append(ds, verifUdpDigest(string(body)))
				} else {
					for i := uint32(0); i < count; i++ {
						var sz uint32
						var e2 error
						if body, e2 = basictl.NatRead(body, &sz); e2 != nil || int(sz) > len(body) {
							r.emit("X-datagram-part-truncated")
							break
						}
						ds = append(ds, verifUdpDigest(string(body[:sz])))
						body = body[sz:]
					}
					if len(body) != 0 {
						r.emit("X-datagram-has-trailing-bytes")
					}
				}
			}
			if len(ds) > 0 {
				payloads = strings.Join(ds, "/")
			}
		}
		r.emit("W%d,%d,%d,%d,%d,%s", id, tId, d, first, count, payloads)
	}
	r.observe()
}

func (r *verifUdpRunT) stepR(tId, dgrmId int) {
	l := len(r.fctx.network[tId])
	if l > 0 {
		idx := dgrmId % l
		r.emit("R%d", r.ids[tId][idx])
		r.ids[tId][idx] = r.ids[tId][l-1]
		r.ids[tId] = r.ids[tId][:l-1]
	}
	doGoReadStep(r.fctx, tId, dgrmId)
	r.observe()
}

func (r *verifUdpRunT) stepE(tId int) {
	doEncHdrRcv(r.fctx, tId)
	r.observe()
}

func (r *verifUdpRunT) stepT(tId, timerId int) {
	switch timerId {
	case 0:
		doResendTimerBurn(r.fctx, tId)
	case 1:
		doAckTimerBurn(r.fctx, tId)
	case 2:
		doResendRequestTimerBurn(r.fctx, tId)
	case 3:
		doRegenerateTimerBurn(r.fctx, tId)
	}
	r.observe()
}

// one command, decoded exactly as in FuzzDyukov
func (r *verifUdpRunT) command(fuzz []byte) {
	fctx := r.fctx
	if len(fuzz) < 2 {
		return
	}
	b2 := byte(0)
	if len(fuzz) > 2 {
		b2 = fuzz[2]
	}
	switch fuzz[0] {
	case 'n':
		transportId := fuzzVerbToTransportId(fuzz[1])
		dstId := fuzzVerbToDstId(fuzz[1])
		if dstId <= transportId {
			return
		}
		messageSize := fuzzVerbToMessageSize(b2)
		if messageSize == 0 {
			return
		}
		fctx.allocatedMessages++
		r.newMessage(transportId, dstId, messageSize)
		r.observe()
	case 'w':
		r.stepW(fuzzVerbToTransportId(fuzz[1]))
	case 'r':
		r.stepR(fuzzVerbToTransportId(fuzz[1]), int(b2))
	case 'e':
		r.stepE(fuzzVerbToTransportId(fuzz[1]))
	case 't':
		transportId := fuzzVerbToTransportId(fuzz[1])
		timerId := fuzzVerbToDstId(fuzz[1])
		if timerId <= 2 || (r.restarts && timerId == 3) {
			r.stepT(transportId, timerId)
		}
	case 'd':
		transportId := fuzzVerbToTransportId(fuzz[1])
		dgrmId := int(b2)
		l := len(fctx.network[transportId])
		if l > 0 {
			datagram := fctx.network[transportId][dgrmId%l]
			fctx.network[transportId] = append(fctx.network[transportId], datagram)
			id := r.nextID
			r.nextID++
			r.emit("D%d,%d", r.ids[transportId][dgrmId%l], id)
			r.ids[transportId] = append(r.ids[transportId], id)
		}
		checkInvariants(fctx)
		r.observe()
	case 'l':
		transportId := fuzzVerbToTransportId(fuzz[1])
		dgrmId := int(b2)
		l := len(fctx.network[transportId])
		if l > 0 {
			r.emit("L%d", r.ids[transportId][dgrmId%l])
			fctx.network[transportId][dgrmId%l] = fctx.network[transportId][l-1]
			fctx.network[transportId] = fctx.network[transportId][:l-1]
			r.ids[transportId][dgrmId%l] = r.ids[transportId][l-1]
			r.ids[transportId] = r.ids[transportId][:l-1]
		}
		checkInvariants(fctx)
		r.observe()
	}
}

type verifUdpProgress struct {
	generation       uint32
	receivedPrefix   uint32
	receivedInWindow int
	ackedPrefix      uint32
	acksInWindow     int
}

// The "repair the network" loop of FuzzDyukov, same phases in the same order, executed through the observing
// wrappers.  It ends when no connection has anything to send (stricter than FuzzDyukov, which also stops as soon
// as the message counters agree), when an iteration makes no progress (stuck), or after maxIter iterations.
func (r *verifUdpRunT) settle(maxIter int) (iters int, stuck bool, quiescent bool) {
	fctx := r.fctx
	progress := map[*Connection]verifUdpProgress{}
	writeAll := func() {
		for tId, t := range fctx.ts {
			conns := len(t.handshakeByPid)
			for i := 0; i < conns; i++ {
				r.stepW(tId)
			}
		}
	}
	readAll := func() {
		for tId := range fctx.ts {
			for len(fctx.network[tId]) > 0 {
				r.stepR(tId, 0)
			}
		}
	}
	encAll := func() {
		for tId := range fctx.ts {
			for len(fctx.encHdrs[tId]) > 0 {
				r.stepE(tId)
			}
		}
	}
	for step := 0; step < maxIter; step++ {
		iters = step + 1
		for tId, t := range fctx.ts {
			for t.resendRequestTimers.Len() > 0 {
				r.stepT(tId, 2)
			}
		}
		writeAll()
		readAll()
		encAll()
		for i := 0; i < 2; i++ {
			for tId, t := range fctx.ts {
				for t.resendTimers.Len() > 0 {
					r.stepT(tId, 0)
				}
			}
			writeAll()
		}
		readAll()
		encAll()
		for tId, t := range fctx.ts {
			for t.ackTimers.Len() > 0 {
				r.stepT(tId, 1)
			}
		}
		writeAll()
		readAll()
		encAll()
		writeAll()

		have := false
		haveProgress := false
		for _, t := range fctx.ts {
			for _, conn := range t.handshakeByPid {
				receivedChunks := 0
				for s := conn.incoming.ackPrefix; s < conn.incoming.nextSeqNo; s++ {
					ch, _ := conn.incoming.windowChunks.Get(s)
					if ch.received() {
						receivedChunks++
					}
				}
				ackedChunks := 0
				for s := conn.outgoing.ackSeqNoPrefix; s < conn.outgoing.nextSeqNo; s++ {
					if conn.outgoing.window.GetPtr(s).acked() {
						ackedChunks++
					}
				}
				now := verifUdpProgress{conn.generation, conn.incoming.ackPrefix, receivedChunks, conn.outgoing.ackSeqNoPrefix, ackedChunks}
				was, seen := progress[conn]
				if !seen || was != now {
					haveProgress = true
				}
				progress[conn] = now
				a := conn.outgoing.messageQueue.Len() > 0
				b := conn.outgoing.timeoutedSeqNum < conn.outgoing.nextSeqNo
				c := conn.incoming.windowChunks.LenMoreThan1()
				// FuzzDyukov stops on a || b || c only; a receiver that knows of holes (resend request timer armed) still
				// has something to say, otherwise the loop ends before the lost chunks are requested again
				d := conn.acks.HaveHoles()
				if a || b || c || d {
					have = true
				}
			}
		}
		pendingNew := false
		for _, t := range fctx.ts {
			if t.newMessages.Len() > 0 {
				pendingNew = true
			}
		}
		if !have && !pendingNew {
			return iters, false, true
		}
		if !haveProgress {
			return iters, true, false
		}
	}
	return iters, false, false
}

// projection compared with the model, for one transport
func (r *verifUdpRunT) state(tId int) string {
	t := r.fctx.ts[tId]
	var sb strings.Builder
	fmt.Fprintf(&sb, "T%d m=%d q=", tId, t.acquiredMemory)
	if t.memoryWaiters.Len() == 0 {
		sb.WriteByte('-')
	}
	for i := 0; i < t.memoryWaiters.Len(); i++ {
		c := t.memoryWaiters.Index(i)
		if i > 0 {
			sb.WriteByte(',')
		}
		fmt.Fprintf(&sb, "%d:%d", verifUdpPeer(c), c.incoming.requestedMemorySize)
	}
	conns := r.conns(tId)
	sb.WriteString(" in=")
	n := 0
	for _, c := range conns {
		nd := len(r.recv[[2]int{verifUdpPeer(c), tId}])
		if c.incoming.ackPrefix == 0 && c.incoming.messagesTotalOffset == 0 && nd == 0 {
			continue
		}
		if n > 0 {
			sb.WriteByte(',')
		}
		n++
		fmt.Fprintf(&sb, "%d:%d:%d:%d:%08x", verifUdpPeer(c), c.incoming.ackPrefix, c.incoming.messagesTotalOffset, nd,
			r.roll[[2]int{verifUdpPeer(c), tId}])
	}
	if n == 0 {
		sb.WriteByte('-')
	}
	sb.WriteString(" out=")
	n = 0
	for _, c := range conns {
		if c.outgoing.ackSeqNoPrefix == 0 && c.outgoing.nextSeqNo == 0 {
			continue
		}
		if n > 0 {
			sb.WriteByte(',')
		}
		n++
		fmt.Fprintf(&sb, "%d:%d:%d", verifUdpPeer(c), c.outgoing.ackSeqNoPrefix, c.outgoing.nextSeqNo)
	}
	if n == 0 {
		sb.WriteByte('-')
	}
	return sb.String()
}

func verifUdpKeys(m map[[2]int][]string) [][2]int {
	var ks [][2]int
	for k := range m {
		ks = append(ks, k)
	}
	sort.Slice(ks, func(i, j int) bool {
		if ks[i][0] != ks[j][0] {
			return ks[i][0] < ks[j][0]
		}
		return ks[i][1] < ks[j][1]
	})
	return ks
}

func verifUdpMsgs(m map[[2]int][]string) string {
	var parts []string
	for _, k := range verifUdpKeys(m) {
		var ds []string
		for _, s := range m[k] {
			ds = append(ds, verifUdpDigest(s))
		}
		parts = append(parts, fmt.Sprintf("%d>%d:%s", k[0], k[1], strings.Join(ds, ",")))
	}
	if len(parts) == 0 {
		return "-"
	}
	return strings.Join(parts, ";")
}

func verifUdpU32s(v []uint32) string {
	var sb []string
	for _, x := range v {
		sb = append(sb, strconv.FormatUint(uint64(x), 10))
	}
	return strings.Join(sb, ",")
}

// final projection compared with the model: delivered messages per connection, memory of every transport
func (r *verifUdpRunT) final() string {
	var mem []string
	for tId, t := range r.fctx.ts {
		if t.acquiredMemory != 0 || t.memoryWaiters.Len() != 0 {
			mem = append(mem, fmt.Sprintf("%d:%d:%d", tId, t.acquiredMemory, t.memoryWaiters.Len()))
		}
	}
	ms := "0"
	if len(mem) > 0 {
		ms = strings.Join(mem, ",")
	}
	return "delivered=" + verifUdpMsgs(r.recv) + " mem=" + ms
}

func (r *verifUdpRunT) info(iters int, stuck, quiescent bool) string {
	var sb strings.Builder
	unacked := 0
	for _, t := range r.fctx.ts {
		for _, c := range t.handshakeByPid {
			if !c.outgoing.window.Empty() {
				unacked++
			}
		}
	}
	acct := r.acctBad
	if acct == "" {
		acct = "ok"
	}
	fmt.Fprintf(&sb, "acct=%s ", acct)
	fmt.Fprintf(&sb, "iters=%d stuck=%t quiescent=%t steps=%d alloc=%d dealloc=%d inalloc=%d inlive=%d badfree=%d outlive=%d unackedconns=%d",
		iters, stuck, quiescent, r.steps, r.fctx.allocatedMessages, r.fctx.deallocatedMessages, r.inAlloc, len(r.inLive), r.inDoubleFree,
		len(r.outLive), unacked)
	fs := "-"
	if len(r.flushSent) > 0 {
		fs = strings.Join(r.flushSent, ";")
	}
	fmt.Fprintf(&sb, " resets=%d flushsent=%s", r.resets, fs)
	sb.WriteString(" sent=" + verifUdpMsgs(r.sent))
	sb.WriteString(" recv=" + verifUdpMsgs(r.recv))
	sb.WriteString(" mem=")
	for tId, t := range r.fctx.ts {
		if tId > 0 {
			sb.WriteByte(',')
		}
		sum := int64(0)
		for _, c := range t.handshakeByPid {
			sum += c.incoming.messagesTotalOffset - c.incoming.messagesBeginOffset
		}
		fmt.Fprintf(&sb, "%d:%d:%d:%d:%d:%d:%d", tId, r.memMax[tId], t.acquiredMemory, t.incomingMessagesMemoryLimit, t.memoryWaiters.Len(), sum, r.predLeak[tId])
	}
	sb.WriteString(" ackp=")
	for i, c := range r.order {
		tr := r.traces[c]
		if i > 0 {
			sb.WriteByte(';')
		}
		fmt.Fprintf(&sb, "%d>%d#%d:o=%s:i=%s", tr.t, tr.peer, tr.gen, verifUdpU32s(tr.out), verifUdpU32s(tr.in))
	}
	if len(r.order) == 0 {
		sb.WriteByte('-')
	}
	if stuck || unacked > 0 {
		sb.WriteString(" stuckconns=")
		for tId, t := range r.fctx.ts {
			for _, c := range r.conns(tId) {
				o := &c.outgoing
				if o.window.Empty() && o.messageQueue.Len() == 0 && !c.incoming.windowChunks.LenMoreThan1() {
					continue
				}
				fmt.Fprintf(&sb, "[%d>%d out:prefix=%d,next=%d,timeouted=%d,nonTimeouted=%d,notSended=%d,toSend=%d,queue=%d,flags=%b,gwflags=%b in:prefix=%d,next=%d acks:prefix=%d,holes=%t timers:resend=%d,ack=%d,rr=%d sendq=%d]",
					tId, verifUdpPeer(c), o.ackSeqNoPrefix, o.nextSeqNo, o.timeoutedSeqNum, o.nonTimeoutedSeqNum, o.notSendedSeqNum, o.chunkToSendSeqNum,
					o.messageQueue.Len(), c.flags, c.goWriteFlags, c.incoming.ackPrefix, c.incoming.nextSeqNo, c.acks.ackPrefix, c.acks.HaveHoles(),
					t.resendTimers.Len(), t.ackTimers.Len(), t.resendRequestTimers.Len(), t.connectionSendQueue.Len())
			}
		}
	}
	return sb.String()
}

func verifUdpRecover(f func()) (msg string) {
	defer func() {
		if e := recover(); e != nil {
			msg = strings.ReplaceAll(fmt.Sprint(e), "\n", " ")
			msg = strings.ReplaceAll(msg, "|", "/")
			if len(msg) > 300 {
				msg = msg[:300]
			}
			if msg == "" {
				msg = "panic"
			}
		}
	}()
	f()
	return ""
}

func TestVerifUdp(t *testing.T) {
	opsPath, outPath := os.Getenv("VERIF_OPS"), os.Getenv("VERIF_OUT")
	if opsPath == "" || outPath == "" {
		t.Skip("VERIF_OPS / VERIF_OUT not set")
	}
	in, err := os.Open(opsPath)
	if err != nil {
		t.Fatal(err)
	}
	defer in.Close()
	outF, err := os.Create(outPath)
	if err != nil {
		t.Fatal(err)
	}
	defer outF.Close()
	w := bufio.NewWriterSize(outF, 1<<20)
	defer w.Flush()
	sc := bufio.NewScanner(in)
	sc.Buffer(make([]byte, 1<<20), 1<<28)

	var run *verifUdpRunT
	for sc.Scan() {
		f := strings.Fields(sc.Text())
		if len(f) == 0 {
			fmt.Fprintln(w, "error empty | - | -")
			continue
		}
		switch f[0] {
		case "new":
			if run != nil {
				run.close()
			}
			seed, _ := strconv.ParseUint(f[2], 10, 64)
			run = verifUdpNew(f[1][0], seed)
			fmt.Fprintln(w, "ok | - | -")
		case "c", "settle", "flush":
			if run == nil {
				fmt.Fprintln(w, "error no-run | - | -")
				continue
			}
			if run.panicked != "" {
				fmt.Fprintln(w, "panicked | - | -")
				continue
			}
			run.ev = run.ev[:0]
			info := "-"
			state := "-"
			var msg string
			if f[0] == "c" {
				cmd, _ := hex.DecodeString(f[1])
				msg = verifUdpRecover(func() {
					run.command(cmd)
					if run.mode == 'd' && len(cmd) >= 2 {
						state = run.state(fuzzVerbToTransportId(cmd[1]))
					}
				})
			} else {
				msg = verifUdpRecover(func() {
					if f[0] == "flush" {
						run.inFlush = true
						// one more small message on every existing active connection, so that every peer hears from
						// the current generation of its partner
						for tId := range run.fctx.ts {
							for _, c := range run.conns(tId) {
								if c.activeSide && verifUdpPeer(c) > tId {
									run.fctx.allocatedMessages++
									run.newMessage(tId, verifUdpPeer(c), 4)
									run.observe()
								}
							}
						}
					}
					iters, stuck, quiescent := run.settle(2000)
					info = run.info(iters, stuck, quiescent)
					if run.mode == 'd' {
						state = run.final()
					}
				})
			}
			if msg != "" {
				run.panicked = msg
				fmt.Fprintf(w, "panic %s | %s | panic=%s\n", msg, strings.Join(run.ev, " "), msg)
				continue
			}
			evs := "-"
			if len(run.ev) > 0 && run.mode == 'd' {
				evs = strings.Join(run.ev, " ")
			}
			fmt.Fprintf(w, "%s | %s | %s\n", state, evs, info)
		case "fuzz":
			cmd, _ := hex.DecodeString(f[2])
			msg := verifUdpRecover(func() { FuzzDyukov(cmd, f[1] == "r") })
			if msg != "" {
				fmt.Fprintf(w, "- | - | fuzz=panic:%s\n", msg)
			} else {
				fmt.Fprintln(w, "- | - | fuzz=ok")
			}
		default:
			fmt.Fprintln(w, "error unknown-op | - | -")
		}
	}
	if run != nil {
		run.close()
	}
}
