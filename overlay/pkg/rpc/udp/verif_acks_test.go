//go:build verif

// Add-only overlay harness for property C37 (never copied into /repo; injected with go test -overlay).
// Drives the real AcksToSend with operation lines from $VERIF_OPS and writes one result line per
// operation to $VERIF_OUT:
//
//	seq <prefix0> <f1> <t1> ...   fresh AcksToSend{ackPrefix: prefix0}, AddAckRange for every pair, dump
//	reset <prefix0>               replace the persistent AcksToSend, dump
//	add <f> <t>                   AddAckRange on the persistent AcksToSend, dump
//	seqx <d> <prefix0> <f1> <t1> ...  for every (f,t) with 0 <= f <= t < d in lexicographic order:
//	                              as seq with (f,t) appended; the dumps joined by " | "
//
// dump = "ok p=<ackPrefix> r=<ranges> ack=<prefix>;<from-to>;<set> nack=<ranges>" with "-" for absent/empty;
// the ack part is read from a fresh EncHeader filled by BuildAck, the nack part from a fresh ResendRequest
// filled by BuildNegativeAck.
package udp

import (
	"bufio"
	"fmt"
	"os"
	"strconv"
	"strings"
	"testing"

	"github.com/VKCOM/tl/pkg/rpc/internal/gen/tlnetUdpPacket"
)

func verifAcksDump(a *AcksToSend, sb *strings.Builder) {
	sb.WriteString("ok p=")
	sb.WriteString(strconv.FormatUint(uint64(a.ackPrefix), 10))
	sb.WriteString(" r=")
	n := 0
	for r := a.firstRange; r != nil; r = r.next {
		if n > 0 {
			sb.WriteByte(',')
		}
		fmt.Fprintf(sb, "%d-%d", r.ackFrom, r.ackTo)
		n++
		if n > 1000000 {
			sb.WriteString(",cycle")
			break
		}
	}
	if n == 0 {
		sb.WriteByte('-')
	}
	var enc tlnetUdpPacket.EncHeader
	a.BuildAck(&enc)
	sb.WriteString(" ack=")
	if enc.IsSetPacketAckPrefix() {
		sb.WriteString(strconv.FormatUint(uint64(enc.PacketAckPrefix), 10))
	} else {
		sb.WriteByte('-')
	}
	sb.WriteByte(';')
	if enc.IsSetPacketAckFrom() || enc.IsSetPacketAckTo() {
		fmt.Fprintf(sb, "%d-%d", enc.PacketAckFrom, enc.PacketAckTo)
	} else {
		sb.WriteByte('-')
	}
	sb.WriteByte(';')
	if enc.IsSetPacketAckSet() && len(enc.PacketAckSet) > 0 {
		for i, v := range enc.PacketAckSet {
			if i > 0 {
				sb.WriteByte(',')
			}
			sb.WriteString(strconv.FormatUint(uint64(v), 10))
		}
	} else {
		sb.WriteByte('-')
	}
	var req tlnetUdpPacket.ResendRequest
	a.BuildNegativeAck(&req)
	sb.WriteString(" nack=")
	if len(req.Ranges) > 0 {
		for i, r := range req.Ranges {
			if i > 0 {
				sb.WriteByte(',')
			}
			fmt.Fprintf(sb, "%d-%d", r.PacketNumFrom, r.PacketNumTo)
		}
	} else {
		sb.WriteByte('-')
	}
}

func verifAcksU32(s string) uint32 {
	v, err := strconv.ParseUint(s, 10, 32)
	if err != nil {
		panic("bad uint32 " + s)
	}
	return uint32(v)
}

func verifAcksOp(persist **AcksToSend, f []string, sb *strings.Builder) {
	defer func() {
		if r := recover(); r != nil {
			sb.Reset()
			fmt.Fprintf(sb, "panic %v", r)
		}
	}()
	switch {
	case len(f) >= 2 && f[0] == "seq" && len(f)%2 == 0:
		a := &AcksToSend{ackPrefix: verifAcksU32(f[1])}
		for i := 2; i+1 < len(f); i += 2 {
			a.AddAckRange(verifAcksU32(f[i]), verifAcksU32(f[i+1]))
		}
		verifAcksDump(a, sb)
	case len(f) >= 3 && f[0] == "seqx" && len(f)%2 == 1:
		d := verifAcksU32(f[1])
		first := true
		for ef := uint32(0); ef < d; ef++ {
			for et := ef; et < d; et++ {
				a := &AcksToSend{ackPrefix: verifAcksU32(f[2])}
				for i := 3; i+1 < len(f); i += 2 {
					a.AddAckRange(verifAcksU32(f[i]), verifAcksU32(f[i+1]))
				}
				a.AddAckRange(ef, et)
				if !first {
					sb.WriteString(" | ")
				}
				first = false
				verifAcksDump(a, sb)
			}
		}
	case len(f) == 2 && f[0] == "reset":
		*persist = &AcksToSend{ackPrefix: verifAcksU32(f[1])}
		verifAcksDump(*persist, sb)
	case len(f) == 3 && f[0] == "add":
		(*persist).AddAckRange(verifAcksU32(f[1]), verifAcksU32(f[2]))
		verifAcksDump(*persist, sb)
	default:
		sb.WriteString("driver-error unknown op " + strings.Join(f, " "))
	}
}

func TestVerifAcks(t *testing.T) {
	opsPath, outPath := os.Getenv("VERIF_OPS"), os.Getenv("VERIF_OUT")
	if opsPath == "" || outPath == "" {
		t.Skip("VERIF_OPS/VERIF_OUT not set")
	}
	in, err := os.Open(opsPath)
	if err != nil {
		t.Fatal(err)
	}
	defer in.Close()
	out, err := os.Create(outPath)
	if err != nil {
		t.Fatal(err)
	}
	w := bufio.NewWriterSize(out, 1<<20)
	sc := bufio.NewScanner(in)
	sc.Buffer(make([]byte, 1<<20), 1<<26)
	persist := &AcksToSend{}
	var sb strings.Builder
	for sc.Scan() {
		sb.Reset()
		verifAcksOp(&persist, strings.Fields(sc.Text()), &sb)
		w.WriteString(sb.String())
		w.WriteByte('\n')
	}
	if err := sc.Err(); err != nil {
		t.Fatal(err)
	}
	if err := w.Flush(); err != nil {
		t.Fatal(err)
	}
	if err := out.Close(); err != nil {
		t.Fatal(err)
	}
}
